//! shared helpers for the C-API workers (C19): the storm-ffi source of the current tree compiled into this
//! crate, canary / exact-size caller buffers, fixture archives, name pools.

use std::alloc::{Layout, alloc, dealloc};
use std::path::{Path, PathBuf};
use wow_mpq::{ArchiveBuilder, AttributesOption, FormatVersion, ListfileOption};

/// The real source file of the tree under test (storm-ffi only builds as cdylib/staticlib, see DESIGN.md §5).
#[allow(
    non_snake_case,
    non_camel_case_types,
    dead_code,
    unused_imports,
    clippy::all,
    unsafe_op_in_unsafe_fn,
    unexpected_cfgs
)]
#[path = "/repo/ffi/storm-ffi/src/lib.rs"]
pub mod storm;

// ------------------------------------------------------------------ caller buffers ----

pub const CANARY: usize = 64;
const CANARY_BYTE: u8 = 0xC9;
pub const FILL_BYTE: u8 = 0xA5;

/// A caller buffer of exactly `len` bytes, 8-byte aligned.
/// canary mode: [64 canary bytes][len payload][64 canary bytes] in one allocation; `damage()` reports writes outside.
/// exact mode (sanitizer / Miri runs): an allocation of exactly `len` bytes so the tool's own red zones see an overrun;
/// len == 0 gives a dangling, aligned, non-null pointer.
pub struct Guarded {
    base: *mut u8,
    layout: Option<Layout>,
    pub len: usize,
    exact: bool,
}

impl Guarded {
    pub fn new(len: usize, exact: bool) -> Guarded {
        unsafe {
            if exact {
                if len == 0 {
                    return Guarded { base: std::ptr::NonNull::<u64>::dangling().as_ptr() as *mut u8, layout: None, len, exact };
                }
                let layout = Layout::from_size_align(len, 8).unwrap();
                let base = alloc(layout);
                assert!(!base.is_null());
                std::ptr::write_bytes(base, FILL_BYTE, len);
                Guarded { base, layout: Some(layout), len, exact }
            } else {
                let layout = Layout::from_size_align(len + 2 * CANARY, 8).unwrap();
                let base = alloc(layout);
                assert!(!base.is_null());
                std::ptr::write_bytes(base, CANARY_BYTE, CANARY);
                std::ptr::write_bytes(base.add(CANARY), FILL_BYTE, len);
                std::ptr::write_bytes(base.add(CANARY + len), CANARY_BYTE, CANARY);
                Guarded { base, layout: Some(layout), len, exact }
            }
        }
    }
    pub fn ptr(&self) -> *mut u8 {
        if self.exact { self.base } else { unsafe { self.base.add(CANARY) } }
    }
    pub fn bytes(&self) -> &[u8] {
        if self.len == 0 { &[] } else { unsafe { std::slice::from_raw_parts(self.ptr(), self.len) } }
    }
    /// (bytes damaged before the buffer, bytes damaged after it); always (0,0) in exact mode.
    pub fn damage(&self) -> (usize, usize) {
        if self.exact {
            return (0, 0);
        }
        unsafe {
            let front = std::slice::from_raw_parts(self.base, CANARY);
            let back = std::slice::from_raw_parts(self.base.add(CANARY + self.len), CANARY);
            (front.iter().filter(|b| **b != CANARY_BYTE).count(), back.iter().filter(|b| **b != CANARY_BYTE).count())
        }
    }
}

impl Drop for Guarded {
    fn drop(&mut self) {
        if let Some(l) = self.layout {
            unsafe { dealloc(self.base, l) }
        }
    }
}

// ------------------------------------------------------------------ search masks ----

/// Independent model of a search mask: `*` stands for any run of characters (also none, also across backslashes), `?` for
/// exactly one character, everything else for itself without regard to ASCII case; the whole name has to be covered.
/// Written as the classic two-cursor scan with one backtrack point (no recursion, no shared code with the library).
/// Only meaningful for ASCII masks and names (the callers skip everything else).
pub fn glob_match(mask: &[u8], name: &[u8]) -> bool {
    let fold = |c: u8| c.to_ascii_lowercase();
    let (mut m, mut n) = (0usize, 0usize);
    let mut back: Option<(usize, usize)> = None; // (mask index after the last '*', name index it is currently tried at)
    while n < name.len() {
        if m < mask.len() && mask[m] == b'*' {
            m += 1;
            back = Some((m, n));
        } else if m < mask.len() && (mask[m] == b'?' || fold(mask[m]) == fold(name[n])) {
            m += 1;
            n += 1;
        } else if let Some((bm, bn)) = back {
            // let the last star swallow one more character
            m = bm;
            n = bn + 1;
            back = Some((bm, bn + 1));
        } else {
            return false;
        }
    }
    while m < mask.len() && mask[m] == b'*' {
        m += 1;
    }
    m == mask.len()
}

/// Hand-checked vectors for `glob_match` (a model that is wrong would make the check lie in either direction).
pub fn glob_selftest() -> Result<(), String> {
    let v: &[(&str, &str, bool)] = &[
        ("*", "", true), ("*", "abc", true), ("", "", true), ("", "a", false), ("?", "", false), ("?", "a", true), ("?", "ab", false),
        ("a*b", "ab", true), ("a*b", "axb", true), ("a*b", "axxb", true), ("a*b", "abx", false), ("a*b", "b", false),
        ("*ab", "ab", true), ("*ab", "xab", true), ("*ab", "abx", false), ("ab*", "ab", true), ("ab*", "abx", true), ("ab*", "xab", false),
        ("a*b*c", "abc", true), ("a*b*c", "axbxc", true), ("a*b*c", "acb", false), ("**a", "a", true), ("a**", "a", true), ("a*?", "a", false), ("a*?", "ab", true),
        ("a?*", "a", false), ("a?*", "abc", true), ("*?*", "", false), ("*?*", "x", true), ("readme*.txt", "readme.txt", true), ("*.txt", "readme.txt", true),
        ("*.txt", "readme.txt.bak", false), ("dir\\*", "dir\\sub\\x.dat", true), ("*name.ext", "name.ext", true), ("A?c", "abc", true), ("abc", "ABC", true),
        ("a*a", "a", false), ("a*a", "aa", true), ("*a*a*", "a", false), ("*aab", "aaab", true), ("a*ab", "aab", true), ("???", "ab", false), ("???", "abc", true),
    ];
    for (m, n, want) in v {
        if glob_match(m.as_bytes(), n.as_bytes()) != *want {
            return Err(format!("glob model: {m:?} vs {n:?} should be {want}"));
        }
    }
    Ok(())
}

pub const MASK_KINDS: u32 = 12;

/// selector of `mask_from_name`: shape kind | position selector << 4 | extra << 12
pub fn mask_sel(kind: u32, pos_sel: u32, extra: u32) -> u32 {
    (kind % 16) | ((pos_sel % 256) << 4) | (extra << 12)
}

/// A search mask derived from an (ASCII) name of the archive, with `*` / `?` placed at a position of the name chosen by
/// the selector: every shape x every position is reachable, including a star that has to stand for nothing at the
/// start, in the middle and at the end, and masks that just fail to match the name they came from.
/// Position selectors 0..=24 count from the front (modulo length + 1), 25.. count back from the end.
pub fn mask_from_name(name: &str, sel: u32) -> (String, &'static str) {
    debug_assert!(name.is_ascii());
    let len = name.len();
    let kind = sel % 16 % MASK_KINDS;
    let ps = (sel >> 4) % 256;
    let r = (sel >> 12) as usize;
    let pos = if ps <= 24 { ps as usize % (len + 1) } else { len.saturating_sub((ps - 25) as usize % (len + 1)) };
    let (a, b) = name.split_at(pos);
    let after1 = if pos < len { &name[pos + 1..] } else { "" };
    match kind {
        0 => (format!("{a}*{b}"), "star-inserted"),
        1 => {
            let j = (pos + 1 + r % 3).min(len);
            (format!("{a}*{}", &name[j..]), "star-replaces-run")
        }
        2 => (format!("{a}?{after1}"), "qmark-replaces-char"),
        3 => (format!("{a}?{b}"), "qmark-inserted"),
        4 => (format!("*{b}"), "star-then-suffix"),
        5 => (format!("{a}*"), "prefix-then-star"),
        6 => {
            let p2 = pos + (len - pos) / 2;
            (format!("{a}*{}*{}", &name[pos..p2], &name[p2..]), "two-stars-inserted")
        }
        7 => (format!("{a}*?{after1}"), "star-qmark"),
        8 => (format!("{a}?*{after1}"), "qmark-star"),
        9 => {
            let swapped: String = name.chars().map(|c| if c.is_ascii_lowercase() { c.to_ascii_uppercase() } else { c.to_ascii_lowercase() }).collect();
            let (x, y) = swapped.split_at(pos);
            (format!("{x}*{y}"), "othercase-star-inserted")
        }
        10 => {
            if r % 2 == 0 {
                ("?".repeat(len), "all-qmarks")
            } else {
                (format!("{}*", "?".repeat(pos)), "qmarks-then-star")
            }
        }
        _ => {
            let j = (pos + 1 + r % 4).min(len);
            (format!("*{}*", &name[pos..j]), "star-infix-star")
        }
    }
}

/// Structural features of a mask, for signatures: where its stars stand, whether it has question marks.
pub fn mask_features(mask: &str) -> String {
    let b = mask.as_bytes();
    let mut f: Vec<&str> = Vec::new();
    if b.first() == Some(&b'*') {
        f.push("star-leading");
    }
    if b.len() > 2 && b[1..b.len() - 1].contains(&b'*') {
        f.push("star-inner");
    }
    if b.len() > 1 && b.last() == Some(&b'*') {
        f.push("star-trailing");
    }
    if b.contains(&b'?') {
        f.push("qmark");
    }
    if f.is_empty() {
        f.push("literal");
    }
    f.join("+")
}

// ------------------------------------------------------------------ fixtures ----

#[derive(Clone, Debug)]
pub struct Fixture {
    pub file: &'static str,
    pub listfile: bool,
    pub names: Vec<String>,
}

pub fn long_name() -> String {
    // 300 characters, the last backslash beyond position 259 (MAX_PATH)
    let mut s = String::from("long\\");
    while s.len() < 280 {
        s.push_str("abcdefghij");
    }
    s.truncate(280);
    s.push('\\');
    while s.len() < 296 {
        s.push('z');
    }
    s.push_str(".bin");
    s
}

/// Deterministic content in which every 8-byte window identifies its offset (little-endian u32 counters xor a tag).
pub fn counter_content(len: usize, tag: u32) -> Vec<u8> {
    let mut v = Vec::with_capacity(len + 4);
    let mut i: u32 = 0;
    while v.len() < len {
        v.extend_from_slice(&(i.wrapping_mul(0x9E37_79B1) ^ tag).to_le_bytes());
        i += 1;
    }
    v.truncate(len);
    v
}

fn mixed_content(len: usize, tag: u32) -> Vec<u8> {
    // compressible head, counter tail
    let mut v = vec![b'A' + (tag % 7) as u8; len / 3];
    v.extend(counter_content(len - len / 3, tag));
    v
}

pub const FX_A: &str = "a_v1_list.mpq";
pub const FX_B: &str = "b_v2_attr.mpq";
pub const FX_C: &str = "c_v1_nolist.mpq";
pub const FX_D: &str = "d_tiny_raw.mpq";
pub const FX_E: &str = "e_empty.mpq";
pub const FX_F: &str = "f_v4.mpq";
pub const FX_S: &str = "s_shared.mpq";
pub const FX_U: &str = "u_unicode.mpq";
/// members stored encrypted (with and without the key adjustment FIX_KEY asks for, compressed and raw) next to a clear one
pub const FX_X: &str = "x_encrypted.mpq";
/// an archive carrying a valid weak signature, and the same archive with one stored byte changed after signing
pub const FX_W: &str = "w_signed.mpq";
pub const FX_V: &str = "v_signed_then_changed.mpq";
pub const NFIX: u32 = 11;

pub fn fixture_table() -> Vec<Fixture> {
    let s = |v: &[&str]| v.iter().map(|x| x.to_string()).collect::<Vec<_>>();
    vec![
        Fixture { file: FX_A, listfile: true, names: {
            let mut n = s(&["empty.bin", "one.bin", "dir\\five.txt", "Dir\\Sub\\Sector-1.dat", "dir\\sub\\sector.dat", "dir\\sub\\sector+1.dat", "Big\\Twenty.K", "UPPER.TXT"]);
            n.push(long_name());
            n
        } },
        Fixture { file: FX_B, listfile: true, names: s(&["readme.txt", "data\\table.dbc", "data\\zero.bin", "x"]) },
        Fixture { file: FX_C, listfile: false, names: s(&["hidden\\one.dat", "hidden\\two.dat", "plain.txt"]) },
        Fixture { file: FX_D, listfile: true, names: s(&["t.txt", "d\\u.bin"]) },
        Fixture { file: FX_E, listfile: true, names: vec![] },
        Fixture { file: FX_F, listfile: true, names: s(&["v4\\alpha.bin", "v4\\beta.bin", "gamma"]) },
        Fixture { file: FX_S, listfile: true, names: s(&["shared\\big.dat", "shared\\mid.dat", "shared\\small.dat", "p0.dat", "p1.dat", "p2.dat", "p3.dat"]) },
        // names outside ASCII, short and longer than the 259 bytes a find record holds, with a multi-byte character standing
        // on / across that limit (2-, 3- and 4-byte characters starting at bytes 256..259; after C19-r6m3)
        Fixture { file: FX_U, listfile: true, names: {
            let mut n = s(&["\u{fc}n\u{ef}\\c\u{f4}d\u{e9}.txt", "\u{65e5}\u{672c}\\\u{8a9e}.bin"]);
            for (ch, starts) in [("\u{e9}", vec![258usize, 259]), ("\u{20ac}", vec![257, 258, 259]), ("\u{1d11e}", vec![256, 257, 258, 259])] {
                for st in starts {
                    let mut x = String::from("uni\\");
                    while x.len() < st {
                        x.push((b'a' + (x.len() % 26) as u8) as char);
                    }
                    x.push_str(ch);
                    x.push_str(&format!("\\tail{st}.bin"));
                    n.push(x);
                }
            }
            n
        } },
        Fixture { file: FX_X, listfile: true, names: s(&["enc\\plain.bin", "enc\\fixkey.bin", "enc\\raw.bin", "enc\\fixraw.dat", "clear.txt"]) },
        Fixture { file: FX_W, listfile: true, names: s(&["signed\\a.txt", "(signature)", "signed\\b.dat"]) },
        Fixture { file: FX_V, listfile: true, names: s(&["signed\\a.txt", "(signature)", "signed\\b.dat"]) },
    ]
}

/// Size of fixture file `k` of archive `fx` (a function of position only, so that every run sees the same archives).
fn fixture_len(fx: &str, k: usize) -> usize {
    match fx {
        FX_A => [0usize, 1, 5, 4095, 4096, 4097, 20000, 300, 777][k % 9],
        FX_B => [1200usize, 9000, 0, 33][k % 4],
        FX_C => [10usize, 5000, 64][k % 3],
        FX_D => [40usize, 9][k % 2],
        FX_F => [100usize, 6000, 3][k % 3],
        FX_S => [40000usize, 4000, 96, 1000, 1001, 1002, 1003][k % 7],
        FX_U => 50 + 37 * k,
        FX_X => [5000usize, 9000, 300, 4097, 64][k % 5],
        FX_W | FX_V => [1500usize, 72, 300][k % 3],
        _ => 0,
    }
}

pub fn fixture_content(fx: &str, k: usize) -> Vec<u8> {
    let len = fixture_len(fx, k);
    let tag = (fx.as_bytes()[0] as u32) << 8 | k as u32;
    if fx == FX_S || fx == FX_D { counter_content(len, tag) } else { mixed_content(len, tag) }
}

/// Build all fixture archives into `dir` with the library's own builder (configurations covered by C01).
pub fn build_fixtures(dir: &Path) -> Result<(), String> {
    std::fs::create_dir_all(dir).map_err(|e| e.to_string())?;
    for fx in fixture_table() {
        let mut b = ArchiveBuilder::new();
        b = match fx.file {
            FX_A => b.version(FormatVersion::V1).default_compression(0x02).attributes_option(AttributesOption::None),
            FX_B => b.version(FormatVersion::V2).default_compression(0x02).attributes_option(AttributesOption::GenerateFull),
            FX_C => b.version(FormatVersion::V1).default_compression(0x02).attributes_option(AttributesOption::None),
            FX_D => b.version(FormatVersion::V1).default_compression(0).attributes_option(AttributesOption::None),
            FX_E => b.version(FormatVersion::V2).attributes_option(AttributesOption::None),
            FX_F => b.version(FormatVersion::V4).default_compression(0x02).attributes_option(AttributesOption::None),
            _ => b.version(FormatVersion::V1).default_compression(0).attributes_option(AttributesOption::None),
        };
        b = b.listfile_option(if fx.listfile { ListfileOption::Generate } else { ListfileOption::None });
        if fx.file == FX_X || fx.file == FX_W || fx.file == FX_V {
            b = b.default_compression(0x02);
        }
        for (k, n) in fx.names.iter().enumerate() {
            let data = fixture_content(fx.file, k);
            b = match (fx.file, k) {
                // encrypted: zlib, zlib + adjusted key, stored raw, stored raw + adjusted key (the last one spans two sectors)
                (FX_X, 0) => b.add_file_data_with_encryption(data, n, 0x02, false, 0),
                (FX_X, 1) => b.add_file_data_with_encryption(data, n, 0x02, true, 0),
                (FX_X, 2) => b.add_file_data_with_encryption(data, n, 0, false, 0),
                (FX_X, 3) => b.add_file_data_with_encryption(data, n, 0, true, 0),
                // the place of the signature (72 plain bytes, filled in below) and a member stored as it is
                (FX_W | FX_V, 1) => b.add_file_data_with_options(vec![0u8; 72], n, 0, false, 0),
                (FX_W | FX_V, 2) => b.add_file_data_with_options(data, n, 0, false, 0),
                _ => b.add_file_data(data, n),
            };
        }
        b.build(dir.join(fx.file)).map_err(|e| format!("fixture {}: {e}", fx.file))?;
        if fx.file == FX_W || fx.file == FX_V {
            sign_weak(&dir.join(fx.file), if fx.file == FX_V { Some("signed\\b.dat") } else { None })?;
        }
    }
    // non-archives
    std::fs::write(dir.join("not_an_archive.txt"), b"just text\n").map_err(|e| e.to_string())?;
    std::fs::write(dir.join("zero_len.mpq"), b"").map_err(|e| e.to_string())?;
    std::fs::write(dir.join("noise.bin"), counter_content(4096, 0x5151)).map_err(|e| e.to_string())?;
    // source files for SFileAddFile
    for (k, len) in SRC_LENS.iter().enumerate() {
        std::fs::write(dir.join(format!("src{k}.dat")), counter_content(*len, 0x7700 + k as u32)).map_err(|e| e.to_string())?;
    }
    Ok(())
}

/// Sign the archive with the library's own weak-signature generator, over the file exactly as `Archive::verify_signature`
/// hashes it (the way the C10 worker does); with `change_after`, one stored byte of that member is inverted afterwards.
fn sign_weak(path: &Path, change_after: Option<&str>) -> Result<(), String> {
    use wow_mpq::crypto::{SignatureInfo, generate_weak_signature};
    let mut bytes = std::fs::read(path).map_err(|e| e.to_string())?;
    let a = wow_mpq::Archive::open(path).map_err(|e| format!("signed fixture: {e}"))?;
    let sig = a.find_file("(signature)").map_err(|e| e.to_string())?.ok_or("signed fixture: no (signature)")?;
    if sig.compressed_size != 72 || a.archive_offset() != 0 {
        return Err(format!("signed fixture: (signature) stored in {} bytes at archive offset {}", sig.compressed_size, a.archive_offset()));
    }
    let spos = sig.file_pos as usize;
    let info = SignatureInfo::new_weak(0, a.header().archive_size as u64, spos as u64, 72, vec![]);
    let s = generate_weak_signature(std::io::Cursor::new(&bytes), &info).map_err(|e| format!("generate_weak_signature: {e}"))?;
    if s.len() != 72 {
        return Err(format!("generate_weak_signature returned {} bytes", s.len()));
    }
    bytes[spos..spos + 72].copy_from_slice(&s);
    if let Some(name) = change_after {
        let f = a.find_file(name).map_err(|e| e.to_string())?.ok_or("signed fixture: member to change is missing")?;
        let at = f.file_pos as usize + (f.compressed_size as usize) / 2;
        bytes[at] ^= 0xFF;
    }
    drop(a);
    std::fs::write(path, &bytes).map_err(|e| e.to_string())
}

pub const SRC_LENS: &[usize] = &[0, 1, 100, 5000, 70000];
pub const NON_ARCHIVES: &[&str] = &["not_an_archive.txt", "zero_len.mpq", "noise.bin"];

/// Copy every regular file of `from` into `to` (each case works on private copies).
pub fn copy_dir(from: &Path, to: &Path) -> Result<(), String> {
    std::fs::create_dir_all(to).map_err(|e| e.to_string())?;
    for e in std::fs::read_dir(from).map_err(|e| e.to_string())? {
        let e = e.map_err(|e| e.to_string())?;
        if e.path().is_file() {
            std::fs::copy(e.path(), to.join(e.file_name())).map_err(|e| e.to_string())?;
        }
    }
    Ok(())
}

pub fn p2s(p: &PathBuf) -> String {
    p.to_string_lossy().into_owned()
}

/// Restart this worker at case `next` (same arguments) and end the way the child ends (exit code, or the same
/// fatal signal). Used after a case in which a library call never returned: the stuck thread still owns a
/// handle-table lock, so this process cannot go on.
pub fn restart_from(next: u64) -> ! {
    use std::os::unix::process::ExitStatusExt;
    let exe = std::env::current_exe().expect("current_exe");
    let mut args: Vec<String> = std::env::args().skip(1).collect();
    let mut had_start = false;
    for i in 0..args.len() {
        if args[i] == "--start" && i + 1 < args.len() {
            args[i + 1] = next.to_string();
            had_start = true;
        }
    }
    if !had_start {
        args.push("--start".into());
        args.push(next.to_string());
    }
    match std::process::Command::new(exe).args(&args).status() {
        Ok(st) => {
            if let Some(sig) = st.signal() {
                unsafe {
                    libc::signal(sig, libc::SIG_DFL);
                    libc::raise(sig);
                }
            }
            std::process::exit(st.code().unwrap_or(3))
        }
        Err(_) => std::process::exit(3),
    }
}
