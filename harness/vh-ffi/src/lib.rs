//! shared helpers for the C-API worker
