//! C05 stage F — libFuzzer target over the same drivers the deterministic C05 workers use.
//!
//! The format is chosen by the environment variable VH_FUZZ_FORMAT (one of the `FormatDef::name`s); an input is
//! payload + one selector byte (`c05_common::blob_split`). The target itself judges nothing: panics are caught by the
//! probe exactly as in the worker (they still show up as new coverage, so the input is kept), aborts / ASan reports /
//! timeouts / oversized mallocs end the process and leave an artifact. Every kept input and every artifact is replayed by
//! the native worker (`--blobs-dir`), which applies the property's monitors and signatures.
#![no_main]

#[path = "../../vh-formats/src/c05_common.rs"]
mod c05_common;
#[path = "../../vh-formats/src/c05_fmt_adt.rs"]
mod fmt_adt;
#[path = "../../vh-formats/src/c05_fmt_m2.rs"]
mod fmt_m2;
#[path = "../../vh-mpq/src/c05_fmt_mpq.rs"]
mod fmt_mpq;
#[path = "../../vh-formats/src/c05_fmt_tables.rs"]
mod fmt_tables;
#[path = "../../vh-formats/src/c05_fmt_wmo.rs"]
mod fmt_wmo;
#[path = "../../vh-formats/src/c05_fmt_world.rs"]
mod fmt_world;

use c05_common::{FormatDef, Layout, Probe, Seed, Shm, blob_split};
use libfuzzer_sys::fuzz_target;
use std::path::PathBuf;
use std::sync::OnceLock;

struct State {
    fmt: FormatDef,
    shm: Shm,
    scratch: PathBuf,
}
// Shm holds a &'static [AtomicU64]; FormatDef holds fn pointers and &'static data
unsafe impl Sync for State {}
unsafe impl Send for State {}

static STATE: OnceLock<State> = OnceLock::new();

fn init() -> State {
    let want = std::env::var("VH_FUZZ_FORMAT").unwrap_or_else(|_| "wdt".into());
    let mut all = Vec::new();
    all.extend(fmt_m2::formats());
    all.extend(fmt_adt::formats());
    all.extend(fmt_wmo::formats());
    all.extend(fmt_tables::formats());
    all.extend(fmt_world::formats());
    all.extend(fmt_mpq::formats());
    let fmt = all.into_iter().find(|f| f.name == want).unwrap_or_else(|| {
        eprintln!("fz: unknown VH_FUZZ_FORMAT {want}");
        std::process::exit(3)
    });
    // per-process scratch (libFuzzer's fork mode runs several of these side by side)
    let base = std::env::var("VH_FUZZ_SCRATCH").unwrap_or_else(|_| std::env::temp_dir().to_string_lossy().into_owned());
    let scratch = PathBuf::from(base).join(format!("fz-{}-{}", fmt.name, std::process::id()));
    let _ = std::fs::create_dir_all(&scratch);
    // the library's panic messages would flood the fuzz log: one line per panic is enough there
    std::panic::set_hook(Box::new(|_| {}));
    State { fmt, shm: Shm::new(), scratch }
}

fuzz_target!(|data: &[u8]| {
    let st = STATE.get_or_init(init);
    if data.is_empty() || data.len() > c05_common::MAX_INPUT {
        return;
    }
    let (payload, aux) = blob_split(data);
    let seed = Seed::new("fuzz", Vec::new(), Layout::Fixed { regions: vec![] }).with_aux(aux);
    let mut p = Probe::standalone(&st.fmt, &st.shm, st.scratch.clone());
    (st.fmt.drive)(&seed, payload, &mut p);
});
