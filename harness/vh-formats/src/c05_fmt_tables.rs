//! C05 seeds + drivers: BLP textures and DBC/WDB2/WDB5 client databases.
//!
//! BLP seeds: the five fixtures shipped with the crate (foreign bytes) + the crate's own encoder output for every
//! target family (BLP1 raw1/jpeg, BLP2 raw1/raw3/jpeg/dxt1/3/5, with mipmaps).
//! DBC seeds: the crate has no object->bytes writer without a parsed RecordSet, so the tables are encoded by a small
//! independent encoder here (format: 20-byte header, fixed-size records, string block) and one of them is additionally
//! round-tripped through `DbcWriter` so that library-written bytes are among the seeds.

use crate::c05_common::*;
use std::io::Cursor;

// ------------------------------------------------------------------ BLP ----

fn test_image(w: u32, h: u32, alpha: bool) -> image::DynamicImage {
    let mut img = image::RgbaImage::new(w, h);
    for (x, y, p) in img.enumerate_pixels_mut() {
        let a = if alpha { ((x * 37 + y * 11) % 256) as u8 } else { 255 };
        *p = image::Rgba([(x * 255 / w.max(1)) as u8, (y * 255 / h.max(1)) as u8, ((x ^ y) * 8) as u8, a]);
    }
    image::DynamicImage::ImageRgba8(img)
}

fn blp_header_len(data: &[u8]) -> usize {
    // magic(4) content(4) flags(4) width(4) height(4) [+8 for BLP0/1] + 2*16*4 mipmap table (BLP1/2)
    match data.get(..4) {
        Some(b"BLP2") => 20 + 128,
        Some(b"BLP1") => 28 + 128,
        _ => 28,
    }
}

fn blp_seed(label: &str, bytes: Vec<u8>) -> Seed {
    let hl = blp_header_len(&bytes);
    // header + mipmap offset/size tables, then the palette / jpeg-header-size word that follows directly
    let extra = (hl, 64usize.min(bytes.len().saturating_sub(hl)));
    Seed::new(format!("blp/{label}"), bytes, Layout::Fixed { regions: vec![(0, hl), extra] })
}

fn blp_seeds(_ctx: &SeedCtx) -> Vec<Seed> {
    use image::imageops::FilterType;
    use wow_blp::convert::{AlphaBits, Blp2Format, BlpOldFormat, BlpTarget, DxtAlgorithm, image_to_blp};
    let mut out = Vec::new();
    // foreign fixtures (path inside the tree under test; scratch_harness.sh rewrites "/repo/ to the worktree)
    let fixdir = std::path::Path::new("/repo/file-formats/graphics/wow-blp/test-data");
    for name in ["test_rect_with_alpha.blp", "test_rect_without_alpha.blp", "test_simple_jpg.blp", "test_simple_with_alpha.blp", "test_simple_without_alpha.blp"] {
        if let Ok(b) = std::fs::read(fixdir.join(name)) {
            out.push(blp_seed(&format!("fixture-{}", name.trim_end_matches(".blp")), b));
        }
    }
    let targets: Vec<(&str, BlpTarget, bool)> = vec![
        ("blp1-raw1-a8-mips", BlpTarget::Blp1(BlpOldFormat::Raw1 { alpha_bits: AlphaBits::Bit8 }), true),
        ("blp1-raw1-a1", BlpTarget::Blp1(BlpOldFormat::Raw1 { alpha_bits: AlphaBits::Bit1 }), false),
        ("blp1-jpeg-alpha-mips", BlpTarget::Blp1(BlpOldFormat::Jpeg { has_alpha: true }), true),
        ("blp2-raw1-a4-mips", BlpTarget::Blp2(Blp2Format::Raw1 { alpha_bits: AlphaBits::Bit4 }), true),
        ("blp2-raw1-a0", BlpTarget::Blp2(Blp2Format::Raw1 { alpha_bits: AlphaBits::NoAlpha }), false),
        ("blp2-raw3-mips", BlpTarget::Blp2(Blp2Format::Raw3), true),
        ("blp2-jpeg", BlpTarget::Blp2(Blp2Format::Jpeg { has_alpha: false }), false),
        ("blp2-dxt1-alpha-mips", BlpTarget::Blp2(Blp2Format::Dxt1 { has_alpha: true, compress_algorithm: DxtAlgorithm::RangeFit }), true),
        ("blp2-dxt3-mips", BlpTarget::Blp2(Blp2Format::Dxt3 { has_alpha: true, compress_algorithm: DxtAlgorithm::RangeFit }), true),
        ("blp2-dxt5-mips", BlpTarget::Blp2(Blp2Format::Dxt5 { has_alpha: true, compress_algorithm: DxtAlgorithm::RangeFit }), true),
    ];
    // textures with exactly one dimension that is not a power of two (what strict validators and mip chains trip over)
    for (label, w, h, target) in [
        ("blp2-raw1-a8-12x16-one-npot", 12u32, 16u32, BlpTarget::Blp2(Blp2Format::Raw1 { alpha_bits: AlphaBits::Bit8 })),
        ("blp1-raw1-a0-8x6-one-npot", 8, 6, BlpTarget::Blp1(BlpOldFormat::Raw1 { alpha_bits: AlphaBits::NoAlpha })),
    ] {
        if let Ok(blp) = image_to_blp(test_image(w, h, true), false, target, FilterType::Nearest) {
            if let Ok(bytes) = wow_blp::encode::encode_blp(&blp) {
                out.push(blp_seed(label, bytes));
            }
        }
    }
    for (label, target, mips) in targets {
        let img = test_image(16, 8, true);
        let blp = image_to_blp(img, mips, target, FilterType::Nearest).expect("image_to_blp failed on a valid image");
        let bytes = wow_blp::encode::encode_blp(&blp).expect("encode_blp failed on its own BlpImage");
        out.push(blp_seed(label, bytes));
    }
    out
}

fn blp_drive(_s: &Seed, data: &[u8], p: &mut Probe) {
    let img = p.call("parse_blp", || wow_blp::parser::parse_blp(data));
    if let Some(img) = img {
        // driven to completion: decode every mipmap level the parsed image holds
        let n = img.image_count().min(16);
        for lvl in 0..n {
            p.call("blp_to_image", || wow_blp::convert::blp_to_image(&img, lvl));
        }
        p.call_plain("BlpImage accessors", || {
            let n = img.mipmap_info().len() + img.estimated_file_size() + img.best_mipmap_for_size(37);
            std::hint::black_box((n, img.compression_ratio()))
        });
    }
    p.seed_valid = Some(p.all_ok);
    // the other two ways in: the buffer loader, and the BLP0 parser that asks a callback for the external mipmap files
    // (offered tails of the same bytes as "files")
    if let Some(img) = p.call("load_blp_from_buf", || wow_blp::parser::load_blp_from_buf(data)) {
        p.call("blp_to_image", || wow_blp::convert::blp_to_image(&img, 0));
    }
    let ext = p.call("parse_blp_with_externals", || {
        wow_blp::parser::parse_blp_with_externals(data, |i: usize| -> Result<Option<&[u8]>, Box<dyn std::error::Error>> {
            if i >= 16 || data.is_empty() { Ok(None) } else { Ok(Some(&data[(i * 97) % data.len()..])) }
        })
    });
    if let Some(img) = ext {
        for lvl in 0..img.image_count().min(4) {
            p.call("blp_to_image", || wow_blp::convert::blp_to_image(&img, lvl));
        }
    }
}

// ------------------------------------------------------------------ DBC ----

#[derive(Clone, Copy)]
enum Ft {
    U32,
    I32,
    F32,
    Str,
    Bool,
    U8,
    I8,
    U16,
    I16,
    ArrU32(usize),
    /// a 32-bit column that is zero in every record (an unused locale of a localized string)
    Zero,
}

fn schema_fields(which: usize) -> Vec<(&'static str, Ft)> {
    match which {
        0 => vec![("ID", Ft::U32), ("Name", Ft::Str), ("Value", Ft::I32), ("Scale", Ft::F32), ("Flag", Ft::Bool), ("Desc", Ft::Str)],
        1 => vec![("ID", Ft::U32), ("Stats", Ft::ArrU32(3)), ("Name", Ft::Str)],
        // localized strings as the classic tables carry them: one used locale, unused ones, a flags word
        3 => vec![("ID", Ft::U32), ("Name_enUS", Ft::Str), ("Name_koKR", Ft::Zero), ("Name_frFR", Ft::Str), ("Name_deDE", Ft::Zero), ("Name_zhCN", Ft::Zero), ("Name_zhTW", Ft::Zero), ("Name_esES", Ft::Zero), ("Name_esMX", Ft::Zero), ("Name_flags", Ft::U32), ("Scale", Ft::F32)],
        // the same group followed by something that is no flags word: floats; and a table of ten string columns in a row
        4 => vec![("ID", Ft::U32), ("Name_enUS", Ft::Str), ("Name_koKR", Ft::Zero), ("Name_frFR", Ft::Str), ("Name_deDE", Ft::Zero), ("Name_zhCN", Ft::Zero), ("Name_zhTW", Ft::Zero), ("Name_esES", Ft::Zero), ("Name_esMX", Ft::Zero), ("Scale", Ft::F32), ("Weight", Ft::F32)],
        5 => vec![("ID", Ft::U32), ("S0", Ft::Str), ("S1", Ft::Str), ("S2", Ft::Str), ("S3", Ft::Str), ("S4", Ft::Str), ("S5", Ft::Str), ("S6", Ft::Str), ("S7", Ft::Str), ("S8", Ft::Str), ("S9", Ft::Str), ("Tail", Ft::I32)],
        _ => vec![("ID", Ft::U32), ("A", Ft::U8), ("B", Ft::I8), ("C", Ft::U16), ("D", Ft::I16), ("E", Ft::U16), ("Name", Ft::Str)],
    }
}

fn dbc_schema(which: usize) -> wow_cdbc::Schema {
    use wow_cdbc::{FieldType as T, Schema, SchemaField};
    let mut s = Schema::new(format!("C05Table{which}"));
    for (name, ft) in schema_fields(which) {
        let f = match ft {
            Ft::U32 | Ft::Zero => SchemaField::new(name, T::UInt32),
            Ft::I32 => SchemaField::new(name, T::Int32),
            Ft::F32 => SchemaField::new(name, T::Float32),
            Ft::Str => SchemaField::new(name, T::String),
            Ft::Bool => SchemaField::new(name, T::Bool),
            Ft::U8 => SchemaField::new(name, T::UInt8),
            Ft::I8 => SchemaField::new(name, T::Int8),
            Ft::U16 => SchemaField::new(name, T::UInt16),
            Ft::I16 => SchemaField::new(name, T::Int16),
            Ft::ArrU32(n) => SchemaField::new_array(name, T::UInt32, n),
        };
        s.add_field(f);
    }
    s.set_key_field_index(0);
    s
}

/// Independent encoder: records + deduplicated string block. Returns (field_count, record_size, records, strings).
fn dbc_body(which: usize, nrec: u32) -> (u32, u32, Vec<u8>, Vec<u8>) {
    let fields = schema_fields(which);
    let mut strings: Vec<u8> = vec![0];
    let mut recs: Vec<u8> = Vec::new();
    let intern = |s: &str, strings: &mut Vec<u8>| -> u32 {
        let needle: Vec<u8> = s.bytes().chain(std::iter::once(0)).collect();
        if let Some(p) = strings.windows(needle.len()).position(|w| w == needle.as_slice()) {
            if p == 0 || strings[p - 1] == 0 {
                return p as u32;
            }
        }
        let off = strings.len() as u32;
        strings.extend_from_slice(&needle);
        off
    };
    let mut field_count = 0u32;
    let mut record_size = 0u32;
    for r in 0..nrec {
        field_count = 0;
        let start = recs.len();
        for (name, ft) in &fields {
            match ft {
                Ft::U32 => recs.extend_from_slice(&(100 + r * 7).to_le_bytes()),
                Ft::Zero => recs.extend_from_slice(&0u32.to_le_bytes()),
                Ft::I32 => recs.extend_from_slice(&(-(r as i32) * 3).to_le_bytes()),
                Ft::F32 => recs.extend_from_slice(&(r as f32 * 0.5 + if fields.len() > 8 { 1.25 } else { 0.0 }).to_le_bytes()),
                Ft::Bool => recs.extend_from_slice(&(r % 2).to_le_bytes()),
                Ft::Str => {
                    let s = format!("{name}-{}", r % 3);
                    let off = intern(&s, &mut strings);
                    recs.extend_from_slice(&off.to_le_bytes());
                }
                Ft::U8 => recs.push(r as u8),
                Ft::I8 => recs.push((r as i8).wrapping_neg() as u8),
                Ft::U16 => recs.extend_from_slice(&(r as u16 * 300).to_le_bytes()),
                Ft::I16 => recs.extend_from_slice(&(-(r as i16)).to_le_bytes()),
                Ft::ArrU32(n) => {
                    for k in 0..*n {
                        recs.extend_from_slice(&(r * 10 + k as u32).to_le_bytes());
                    }
                    field_count += *n as u32 - 1;
                }
            }
            field_count += 1;
        }
        record_size = (recs.len() - start) as u32;
    }
    if nrec == 0 {
        // header of an empty table still states the shape
        let (fc, rs, _, _) = dbc_body(which, 1);
        return (fc, rs, vec![], vec![0]);
    }
    (field_count, record_size, recs, strings)
}

fn wdbc(which: usize, nrec: u32) -> Vec<u8> {
    let (fc, rs, recs, strings) = dbc_body(which, nrec);
    let mut d = Vec::new();
    d.extend_from_slice(b"WDBC");
    for v in [nrec, fc, rs, strings.len() as u32] {
        d.extend_from_slice(&v.to_le_bytes());
    }
    d.extend(recs);
    d.extend(strings);
    d
}

fn wdb2(which: usize, nrec: u32, extended: bool) -> Vec<u8> {
    let (fc, rs, recs, strings) = dbc_body(which, nrec);
    let mut d = Vec::new();
    d.extend_from_slice(b"WDB2");
    let build: u32 = if extended { 15595 } else { 12340 };
    for v in [nrec, fc, rs, strings.len() as u32, 0xDEAD_BEEF, build, 0x5000_0000] {
        d.extend_from_slice(&v.to_le_bytes());
    }
    if extended {
        let (min, max): (i32, i32) = (100, 100 + 4);
        d.extend_from_slice(&min.to_le_bytes());
        d.extend_from_slice(&max.to_le_bytes());
        d.extend_from_slice(&0i32.to_le_bytes()); // locale
        d.extend_from_slice(&0u32.to_le_bytes()); // copy table size
        let n = (max - min + 1) as usize;
        for i in 0..n {
            d.extend_from_slice(&(i as u32).to_le_bytes());
        }
        for _ in 0..n {
            d.extend_from_slice(&0u16.to_le_bytes());
        }
    }
    d.extend(recs);
    d.extend(strings);
    d
}

fn wdb5(which: usize, nrec: u32) -> Vec<u8> {
    let (fc, rs, recs, strings) = dbc_body(which, nrec);
    let mut d = Vec::new();
    d.extend_from_slice(b"WDB5");
    for v in [nrec, fc, rs, strings.len() as u32, 0x1234_5678, 0x9ABC_DEF0, 100, 100 + 7 * nrec, 0] {
        d.extend_from_slice(&v.to_le_bytes());
    }
    d.extend_from_slice(&0u16.to_le_bytes()); // flags
    d.extend_from_slice(&0u16.to_le_bytes()); // id index
    d.extend_from_slice(&0u32.to_le_bytes()); // the crate reads 44 header bytes but places the records at 48
    d.extend(recs);
    d.extend(strings);
    d
}

fn dbc_seed(label: &str, bytes: Vec<u8>, which: usize, header: usize) -> Seed {
    // header, the first two records, and the last record + start of the string block
    let len = bytes.len();
    let regions = vec![(0, header.min(len)), (header.min(len), 96usize.min(len.saturating_sub(header)))];
    Seed::new(format!("dbc/{label}"), bytes, Layout::Fixed { regions }).with_aux(which)
}

fn dbc_seeds(_ctx: &SeedCtx) -> Vec<Seed> {
    let mut out = vec![
        dbc_seed("wdbc-mixed-12rec", wdbc(0, 12), 0, 20),
        dbc_seed("wdbc-array-5rec", wdbc(1, 5), 1, 20),
        dbc_seed("wdbc-smallints-9rec", wdbc(2, 9), 2, 20),
        dbc_seed("wdbc-empty", wdbc(0, 0), 0, 20),
        dbc_seed("wdb2-basic-6rec", wdb2(0, 6, false), 0, 28),
        dbc_seed("wdb2-extended-5rec", wdb2(1, 5, true), 1, 48 + 30),
        dbc_seed("wdb5-7rec", wdb5(0, 7), 0, 48),
        dbc_seed("wdbc-locstring-flags-8rec", wdbc(3, 8), 3, 20),
        dbc_seed("wdbc-locstring-then-floats-8rec", wdbc(4, 8), 4, 20),
        dbc_seed("wdbc-ten-string-columns-6rec", wdbc(5, 6), 5, 20),
    ];
    // library-written bytes: parse the first table with its schema and write it back with DbcWriter
    let src = wdbc(0, 12);
    let parser = wow_cdbc::DbcParser::parse_bytes(&src).expect("independent encoder output must parse").with_schema(dbc_schema(0)).expect("schema must match the encoder");
    let rs = parser.parse_records().expect("records must parse");
    let mut cur = Cursor::new(Vec::new());
    wow_cdbc::DbcWriter::new(&mut cur).with_schema(dbc_schema(0)).write_records(&rs).expect("DbcWriter failed on a parsed record set");
    out.push(dbc_seed("wdbc-library-written", cur.into_inner(), 0, 20));
    out
}

fn dbc_walk(rs: &wow_cdbc::RecordSet) -> usize {
    // what a consumer does with a record set: every record, every value, every string
    let mut n = 0usize;
    for r in rs.records() {
        for v in r.values() {
            match v {
                wow_cdbc::Value::StringRef(sr) => {
                    if rs.get_string(*sr).is_ok() {
                        n += 1;
                    }
                }
                wow_cdbc::Value::Array(a) => n += a.len(),
                _ => n += 1,
            }
        }
    }
    n
}

fn dbc_drive(s: &Seed, data: &[u8], p: &mut Probe) {
    let parser = p.call("DbcParser::parse_bytes", || wow_cdbc::DbcParser::parse_bytes(data));
    let Some(parser) = parser else { return };
    // raw (schema-less) records
    let raw = p.call("DbcParser::parse_records", || parser.parse_records());
    if let Some(rs) = raw {
        p.call_plain("RecordSet walk", || dbc_walk(&rs));
    }
    // with the schema that matches the seed
    let with = p.call("DbcParser::with_schema", || wow_cdbc::DbcParser::parse_bytes(data).and_then(|q| q.with_schema(dbc_schema(s.aux))));
    if let Some(q) = with {
        if let Some(mut rs) = p.call("DbcParser::parse_records", || q.parse_records()) {
            p.call_plain("RecordSet walk", || {
                let n = dbc_walk(&rs);
                rs.enable_string_caching();
                let _ = rs.create_sorted_key_map();
                let _ = rs.get_record_by_key(100);
                let _ = rs.get_record_by_key_binary_search(107);
                n + dbc_walk(&rs)
            });
        }
    }
    p.seed_valid = Some(p.all_ok);
    // the other access paths over the same bytes: lazy, parallel, schema discovery, memory-mapped
    let header = parser.header().clone();
    let block = p.call("StringBlock::parse", || wow_cdbc::StringBlock::parse(&mut Cursor::new(data), header.string_block_offset(), header.string_block_size));
    if let Some(block) = block {
        let block = std::sync::Arc::new(block);
        let schema = dbc_schema(s.aux);
        for sch in [None, Some(&schema)] {
            let lazy = wow_cdbc::LazyDbcParser::new(data, &header, sch, std::sync::Arc::clone(&block));
            p.call("LazyDbcParser::record_iterator", || lazy.record_iterator().take(100_000).collect::<Result<Vec<_>, _>>().map(|v| v.len()));
            for idx in [0u32, 1, header.record_count.saturating_sub(1), header.record_count, u32::MAX] {
                p.call("LazyDbcParser::get_record", || lazy.get_record(idx));
            }
            p.call("parse_records_parallel", || wow_cdbc::parse_records_parallel(data, &header, sch, std::sync::Arc::clone(&block)));
        }
        p.call("SchemaDiscoverer::discover", || wow_cdbc::SchemaDiscoverer::new(&header, data, &block).with_validate_strings(true).discover());
    }
    let file = p.scratch.join("c05-mmap.dbc");
    if std::fs::write(&file, data).is_ok() {
        if let Some(mm) = p.call("MmapDbcFile::open", || wow_cdbc::MmapDbcFile::open(&file)) {
            p.call("MmapDbcFile::string_block", || mm.string_block());
            p.call("DbcParser::parse_records", || mm.parser().parse_records());
        }
        let _ = std::fs::remove_file(&file);
    }
}

pub fn formats() -> Vec<FormatDef> {
    vec![
        FormatDef {
            name: "blp",
            family: "blp",
            entries: &["parse_blp", "blp_to_image", "BlpImage accessors", "load_blp_from_buf", "parse_blp_with_externals"],
            seeds: blp_seeds,
            drive: blp_drive,
            cipher: None,
            havoc_scale: 1.0,
            max_field_offsets: (200, 600),
        },
        FormatDef {
            name: "dbc",
            family: "dbc",
            entries: &["DbcParser::parse_bytes", "DbcParser::parse_records", "DbcParser::with_schema", "RecordSet walk", "StringBlock::parse", "LazyDbcParser::record_iterator",
                       "LazyDbcParser::get_record", "parse_records_parallel", "SchemaDiscoverer::discover", "MmapDbcFile::open", "MmapDbcFile::string_block"],
            seeds: dbc_seeds,
            drive: dbc_drive,
            cipher: None,
            havoc_scale: 1.0,
            max_field_offsets: (200, 600),
        },
    ]
}
