//! C05 seeds + driver: ADT (wow-adt).
//!
//! Root files are produced by the library's own `AdtBuilder` -> `BuiltAdt::to_bytes()`; the crate has no writer for
//! the Cataclysm+ split files (`_tex0`, `_obj0`, `_lod`), those are assembled here as raw chunk streams (magics taken
//! from the crate's public `ChunkId` constants, i.e. stored reversed: "REVM", "KNCM", ...).
//!
//! Layout facts (verified against root_parser.rs / chunks/mcnk/{header,chunk}.rs / split_parser.rs / serializer.rs):
//!   * root MCNK: this crate's `McnkHeader` is 136 bytes on disk (128 of the format + 8 `_padding`), the serializer
//!     places the first sub-chunk at body+136 and the parser reads 136 bytes -> nested header length 136;
//!   * split-file MCNK: sub-chunks follow the 8-byte chunk header directly -> nested header length 0.

use crate::c05_common::*;
use std::io::Cursor;
use wow_adt::chunks::blend_mesh::{MbbbChunk, MbbbEntry, MbmhChunk, MbmhEntry, MbmiChunk, MbnvChunk, MbnvVertex};
use wow_adt::chunks::mcnk::{BlendBatch, McbbChunk, McddChunk, MclvChunk, McmtChunk, McrdChunk, McrwChunk};
use wow_adt::chunks::mcnk::{LiquidType, LiquidVertex};
use wow_adt::chunks::mh2o::VertexDataArray;
use wow_adt::chunks::{MtxfChunk, TextureHeightParams};
use wow_adt::{
    AdtBuilder, AdtVersion, ChunkId, DepthOnlyVertex, DoodadPlacement, HeightDepthVertex, HeightUvDepthVertex, HeightUvVertex, MampChunk, McalChunk, MccvChunk,
    MclqChunk, MclyChunk, MclyFlags, MclyLayer, McnkChunk, McnrChunk, McrfChunk, McseChunk, McshChunk, McvtChunk, MfboChunk, Mh2oAttributes, Mh2oChunk, Mh2oEntry,
    Mh2oInstance, MtxpChunk, ParsedAdt, SoundEmitter, UvMapEntry, VertexColor, VertexNormal, WmoPlacement,
};

const MCNK_ROOT_HEADER: usize = 136;

fn parse(bytes: &[u8]) -> wow_adt::Result<ParsedAdt> {
    wow_adt::parse_adt(&mut Cursor::new(bytes))
}

/// McnkChunk / McnkHeader have neither Default nor a constructor: take the first terrain chunk of a file the builder
/// generated on its own (no MCNK given -> the serializer emits 256 minimal ones) and modify it.
fn mcnk_template() -> McnkChunk {
    let bytes = AdtBuilder::new().add_texture("tileset/template.blp").build().expect("template build").to_bytes().expect("template bytes");
    match parse(&bytes).expect("template ADT must parse") {
        ParsedAdt::Root(r) => r.mcnk_chunks.first().cloned().expect("template ADT has MCNK chunks"),
        _ => panic!("template ADT is not a root file"),
    }
}

struct Want {
    mccv: bool,
    mclq: bool,
    mclv: bool,
    split_refs: bool,
    mop: bool,
    /// texture layers per terrain chunk (classic files have up to 4, later ones up to 8)
    layers: u32,
}

fn rich_mcnk(tpl: &McnkChunk, i: usize, n_tex: u32, w: &Want) -> McnkChunk {
    let mut c = tpl.clone();
    c.header.index_x = (i % 16) as u32;
    c.header.index_y = (i / 16) as u32;
    c.header.area_id = 1519 + i as u32;
    c.header.holes_low_res = if i % 3 == 0 { 0x0041 } else { 0 };
    c.header.position = [17066.0 - 33.3 * (i / 16) as f32, 17066.0 - 33.3 * (i % 16) as f32, 12.5];
    c.header.pred_tex = [0x1B; 8];
    c.header.no_effect_doodad = [0x01, 0, 0x80, 0, 0, 0, 0, 0xFF];
    let mut heights = McvtChunk::default();
    heights.heights = (0..145).map(|k| ((k * 7 + i * 13) % 90) as f32 * 0.5 - 10.0).collect();
    c.heights = Some(heights);
    let mut normals = McnrChunk::default();
    for (k, n) in normals.normals.iter_mut().enumerate() {
        *n = VertexNormal { x: (k % 17) as i8 - 8, z: 120, y: (k % 11) as i8 - 5 };
    }
    c.normals = Some(normals);
    // layers: base + two alpha-mapped ones (one of them flagged compressed)
    let mut layers = MclyChunk::default();
    for l in 0..w.layers {
        let mut layer = MclyLayer::default();
        layer.texture_id = l % n_tex;
        layer.flags = MclyFlags { value: if l == 0 { 0 } else if l == 1 { 0x100 } else { 0x300 } };
        // (layers behind the third share the compressed stream of the third)
        layer.offset_in_mcal = if l == 0 { 0 } else { (l.min(2) - 1) * 2048 };
        layer.effect_id = if l == 2 { 0xFFFF_FFFF } else { l };
        layers.layers.push(layer);
    }
    c.layers = Some(layers);
    let mut alpha = vec![0u8; 2048];
    for (k, b) in alpha.iter_mut().enumerate() {
        *b = (k * 5 + i) as u8;
    }
    // second map: RLE-compressed stream (fill 64 x 0x7F, copy 3, ...)
    for row in 0..64usize {
        alpha.extend_from_slice(&[0x80 | 61, (row * 4) as u8, 3, 1, 2, 3]);
    }
    c.alpha = Some(McalChunk::new(alpha));
    let mut shadow = McshChunk::default();
    for (k, b) in shadow.shadow_map.iter_mut().enumerate() {
        *b = if (k / 8) % 2 == 0 { 0xF0 } else { 0x0F };
    }
    c.shadow = Some(shadow);
    c.header.flags.value |= 0x01;
    // object references: 2 doodads + 1 WMO
    let mut refs = McrfChunk::default();
    refs.references = vec![0, 1, 0];
    c.refs = Some(refs);
    c.header.n_doodad_refs = 2;
    c.header.n_map_obj_refs = 1;
    let mut snd = McseChunk::default();
    let mut e = SoundEmitter::default();
    e.sound_entry_id = 3000 + i as u32;
    e.position = [1.0, 2.0, 3.0];
    e.size_min = [4.0, 5.0, 6.0];
    snd.emitters = vec![e, e];
    c.sound_emitters = Some(snd);
    if w.mccv {
        let mut cv = MccvChunk::default();
        for (k, col) in cv.colors.iter_mut().enumerate() {
            *col = VertexColor { b: k as u8, g: 0x7F, r: (255 - k) as u8, a: 0xFF };
        }
        c.vertex_colors = Some(cv);
        c.header.flags.value |= 0x40;
    }
    if w.mclq && i % 2 == 0 {
        let mut lq = MclqChunk::default();
        lq.min_height = -3.0;
        lq.max_height = 4.5;
        lq.vertices = (0..MclqChunk::VERTEX_COUNT).map(|k| LiquidVertex { union_data: [k as u8, 1, 2, 3], height: (k % 9) as f32 * 0.25 }).collect();
        lq.tile_flags = [0x04; 64];
        lq.tile_flags[7] = 0x0F;
        lq.liquid_type = LiquidType::Water;
        c.liquid = Some(lq);
        c.header.flags.value |= 0x04;
    }
    if w.mclv {
        let mut lv = MclvChunk::default();
        lv.colors = (0..145u32).map(|k| 0xFF00_0000 | (k * 0x010203)).collect();
        c.vertex_lighting = Some(lv);
    }
    if w.split_refs {
        let mut rd = McrdChunk::default();
        rd.doodad_refs = vec![0, 1];
        c.doodad_refs = Some(rd);
        let mut rw = McrwChunk::default();
        rw.wmo_refs = vec![0];
        c.wmo_refs = Some(rw);
        let mut mt = McmtChunk::default();
        mt.material_ids = [1, 2, 0, 255];
        c.materials = Some(mt);
        let mut dd = McddChunk::default();
        dd.disable[3] = 0x18;
        c.doodad_disable = Some(dd);
    }
    if w.mop {
        let mut bb = McbbChunk::default();
        let mut b = BlendBatch::default();
        b.index_count = 3;
        b.vertex_count = 3;
        bb.batches = vec![b, b];
        c.blend_batches = Some(bb);
    }
    c
}

fn water() -> Mh2oChunk {
    let mut w = Mh2oChunk::new();
    // entry 0: LVF 0, 3x3 tiles, bitmap + vertex data + attributes
    {
        let mut inst = Mh2oInstance::default();
        inst.liquid_type = 5;
        inst.liquid_object_or_lvf = 0;
        inst.min_height_level = 100.0;
        inst.max_height_level = 110.0;
        inst.width = 3;
        inst.height = 3;
        let mut grid: Box<[Option<HeightDepthVertex>; 81]> = Box::new([None; 81]);
        for z in 0..=3usize {
            for x in 0..=3usize {
                grid[z * 9 + x] = Some(HeightDepthVertex { height: 100.0 + (z * 4 + x) as f32, depth: (z * 4 + x) as u8 });
            }
        }
        let e: &mut Mh2oEntry = &mut w.entries[0];
        e.header.layer_count = 1;
        e.instances = vec![inst];
        e.vertex_data = vec![Some(VertexDataArray::HeightDepth(grid))];
        e.exists_bitmaps = vec![Some(0x1FF)];
        e.attributes = Some(Mh2oAttributes { fishable: 0x0707_07, deep: 0x01 });
    }
    // entry 1: LVF 1, offset 2,1, 2x2
    {
        let mut inst = Mh2oInstance::default();
        inst.liquid_type = 1;
        inst.liquid_object_or_lvf = 1;
        inst.min_height_level = 50.0;
        inst.max_height_level = 60.0;
        inst.x_offset = 2;
        inst.y_offset = 1;
        inst.width = 2;
        inst.height = 2;
        let mut grid: Box<[Option<HeightUvVertex>; 81]> = Box::new([None; 81]);
        for z in 1..=3usize {
            for x in 2..=4usize {
                grid[z * 9 + x] = Some(HeightUvVertex { height: 50.0 + x as f32, uv: UvMapEntry { u: (x * 100) as u16, v: (z * 100) as u16 } });
            }
        }
        let e = &mut w.entries[1];
        e.header.layer_count = 1;
        e.instances = vec![inst];
        e.vertex_data = vec![Some(VertexDataArray::HeightUv(grid))];
        e.exists_bitmaps = vec![Some(0x0F)];
    }
    // entry 17: two layers: LVF 2 (depth only, full 8x8) and LVF 3
    {
        let mut a = Mh2oInstance::default();
        a.liquid_type = 2;
        a.liquid_object_or_lvf = 2;
        a.width = 8;
        a.height = 8;
        let mut ga: Box<[Option<DepthOnlyVertex>; 81]> = Box::new([None; 81]);
        for (k, v) in ga.iter_mut().enumerate() {
            *v = Some(DepthOnlyVertex { depth: k as u8 });
        }
        let mut b = Mh2oInstance::default();
        b.liquid_type = 3;
        b.liquid_object_or_lvf = 3;
        b.min_height_level = 150.0;
        b.max_height_level = 160.0;
        b.width = 2;
        b.height = 1;
        let mut gb: Box<[Option<HeightUvDepthVertex>; 81]> = Box::new([None; 81]);
        for z in 0..=1usize {
            for x in 0..=2usize {
                gb[z * 9 + x] = Some(HeightUvDepthVertex { height: 150.0 + x as f32, uv: UvMapEntry { u: 50, v: 25 }, depth: 10 * x as u8 });
            }
        }
        let e = &mut w.entries[17];
        e.header.layer_count = 2;
        e.instances = vec![a, b];
        e.vertex_data = vec![Some(VertexDataArray::DepthOnly(ga)), Some(VertexDataArray::HeightUvDepth(gb))];
        e.exists_bitmaps = vec![Some(u64::MAX), Some(0x3)];
    }
    // entry 255: instance without bitmap / vertex data (flat surface from min/max level)
    {
        let mut inst = Mh2oInstance::default();
        inst.liquid_type = 14;
        inst.liquid_object_or_lvf = 2;
        inst.min_height_level = -1.0;
        inst.max_height_level = -1.0;
        inst.width = 8;
        inst.height = 8;
        let e = &mut w.entries[255];
        e.header.layer_count = 1;
        e.instances = vec![inst];
        e.vertex_data = vec![None];
        e.exists_bitmaps = vec![None];
    }
    w
}

fn root_adt(version: AdtVersion, n_mcnk: usize) -> Vec<u8> {
    root_adt_layers(version, n_mcnk, 3)
}

fn root_adt_layers(version: AdtVersion, n_mcnk: usize, n_layers: u32) -> Vec<u8> {
    let tpl = mcnk_template();
    let tbc = version >= AdtVersion::TBC;
    let wotlk = version >= AdtVersion::WotLK;
    let cata = version >= AdtVersion::Cataclysm;
    let mop = version >= AdtVersion::MoP;
    let mut b = AdtBuilder::new()
        .with_version(version)
        .add_texture("tileset/elwynn/elwynngrassbase.blp")
        .add_texture("tileset/elwynn/elwynndirt.blp")
        .add_texture("tileset/elwynn/elwynnrock_s.blp")
        .add_model("world/azeroth/elwynn/passivedoodads/trees/elwynntree01.m2")
        .add_model("world/generic/human/passive doodads/lampposts/lamppost.m2")
        .add_wmo("world/wmo/azeroth/buildings/human_farm/farm.wmo")
        .add_wmo("world/wmo/azeroth/buildings/stormwind/stormwind.wmo");
    for i in 0..3u32 {
        b = b.add_doodad_placement(DoodadPlacement {
            name_id: i % 2,
            unique_id: 9000 + i,
            position: [17000.0 + i as f32, 40.0, 16000.0],
            rotation: [0.0, 45.0 * i as f32, 0.0],
            scale: 1024 + 100 * i as u16,
            flags: if i == 2 { 0x1000 } else { 0 },
        });
    }
    for i in 0..2u32 {
        b = b.add_wmo_placement(WmoPlacement {
            name_id: i,
            unique_id: 70000 + i,
            position: [17010.0, 42.0 + i as f32, 16010.0],
            rotation: [0.0, 90.0, 0.0],
            extents_min: [17000.0, 30.0, 16000.0],
            extents_max: [17020.0, 60.0, 16020.0],
            flags: i as u16,
            doodad_set: i as u16,
            name_set: 0,
            scale: 1024,
        });
    }
    let want = Want { mccv: version >= AdtVersion::VanillaLate, mclq: !wotlk, mclv: cata, split_refs: cata, mop, layers: n_layers };
    for i in 0..n_mcnk {
        b = b.add_mcnk_chunk(rich_mcnk(&tpl, i, 3, &want));
    }
    if tbc {
        let mut f = MfboChunk::default();
        f.max_plane = [500, 501, 502, 503, 504, 505, 506, 507, 508];
        f.min_plane = [-10, -11, -12, -13, -14, -15, -16, -17, -18];
        b = b.add_flight_bounds(f);
    }
    if wotlk {
        b = b.add_water_data(water()).add_texture_flags(MtxfChunk { flags: vec![0, 1, 0x4] });
    }
    if cata {
        b = b.add_texture_amplifier(MampChunk { amplifier: 2 });
    }
    if mop {
        let p = |f: u32, s: f32| TextureHeightParams { flags: f, height_scale: s, height_offset: 1.0, padding: 0 };
        b = b.add_texture_params(MtxpChunk { entries: vec![p(0, 0.0), p(1, 2.5), p(0x10, 0.5)] });
        let mut mh = MbmhChunk::default();
        let mut h0 = MbmhEntry::default();
        h0.map_object_id = 70000;
        h0.texture_id = 1;
        h0.mbmi_count = 3;
        h0.mbnv_count = 3;
        let mut h1 = h0;
        h1.map_object_id = 70001;
        h1.mbmi_start = 3;
        h1.mbnv_start = 3;
        mh.entries = vec![h0, h1];
        let mut mb = MbbbChunk::default();
        let mut bb = MbbbEntry::default();
        bb.map_object_id = 70000;
        bb.min = [-10.0, -10.0, 0.0];
        bb.max = [10.0, 10.0, 5.0];
        mb.entries = vec![bb, bb];
        let mut mv = MbnvChunk::default();
        mv.vertices = (0..6).map(|k| MbnvVertex { position: [k as f32, 0.0, 1.0], normal: [0.0, 0.0, 1.0], uv: [0.5, k as f32 / 6.0], color: [[255, 128, 0, 255]; 3] }).collect();
        let mut mi = MbmiChunk::default();
        mi.indices = vec![0, 1, 2, 3, 4, 5];
        b = b.add_blend_mesh_headers(mh).add_blend_mesh_bounds(mb).add_blend_mesh_vertices(mv).add_blend_mesh_indices(mi);
    }
    b.build().expect("AdtBuilder::build refused a consistent description").to_bytes().expect("BuiltAdt::to_bytes failed")
}

fn full_size_adt(version: AdtVersion) -> Vec<u8> {
    // no MCNK given: the serializer generates the complete 16x16 grid of minimal terrain chunks
    let mut b = AdtBuilder::new().with_version(version).add_texture("tileset/generic/black.blp").add_texture("tileset/generic/grey.blp").add_model("world/generic/rock.m2").add_wmo("world/wmo/cave.wmo");
    b = b.add_doodad_placement(DoodadPlacement { name_id: 0, unique_id: 1, position: [1.0, 2.0, 3.0], rotation: [0.0; 3], scale: 1024, flags: 0 });
    b = b.add_wmo_placement(WmoPlacement { name_id: 0, unique_id: 2, position: [1.0, 2.0, 3.0], rotation: [0.0; 3], extents_min: [0.0; 3], extents_max: [9.0; 3], flags: 0, doodad_set: 0, name_set: 0, scale: 1024 });
    b = b.add_flight_bounds(MfboChunk::default()).add_water_data(water());
    b.build().expect("AdtBuilder::build (full size)").to_bytes().expect("to_bytes (full size)")
}

// ------------------------------------------------------- split files (raw) ----

fn chunk(out: &mut Vec<u8>, id: ChunkId, payload: &[u8]) {
    out.extend_from_slice(&id.0);
    out.extend_from_slice(&(payload.len() as u32).to_le_bytes());
    out.extend_from_slice(payload);
}

fn strings(names: &[&str]) -> (Vec<u8>, Vec<u8>) {
    let mut blob = Vec::new();
    let mut offs = Vec::new();
    for n in names {
        offs.extend_from_slice(&(blob.len() as u32).to_le_bytes());
        blob.extend_from_slice(n.as_bytes());
        blob.push(0);
    }
    (blob, offs)
}

fn tex0_adt(n_mcnk: usize) -> Vec<u8> {
    let mut out = Vec::new();
    chunk(&mut out, ChunkId::MVER, &18u32.to_le_bytes());
    chunk(&mut out, ChunkId::MAMP, &1u32.to_le_bytes());
    let (blob, _) = strings(&["tileset/pandaria/grass01.blp", "tileset/pandaria/grass01_s.blp", "tileset/pandaria/rock.blp"]);
    chunk(&mut out, ChunkId::MTEX, &blob);
    for i in 0..n_mcnk {
        let mut sub = Vec::new();
        let mut mcly = Vec::new();
        for l in 0..3u32 {
            for v in [l, if l == 0 { 0 } else { 0x100 }, if l == 0 { 0 } else { (l - 1) * 4096 }, 0] {
                mcly.extend_from_slice(&v.to_le_bytes());
            }
        }
        chunk(&mut sub, ChunkId::MCLY, &mcly);
        let mcal: Vec<u8> = (0..8192usize).map(|k| (k + i) as u8).collect();
        chunk(&mut sub, ChunkId::MCAL, &mcal);
        chunk(&mut sub, ChunkId::MCSH, &[0xAA; 512]);
        chunk(&mut sub, ChunkId::MCMT, &[1, 2, 3, 0]);
        chunk(&mut out, ChunkId::MCNK, &sub);
    }
    // MTXP last: the crate reads it up to the end of the stream
    let mut mtxp = Vec::new();
    for k in 0..3u32 {
        mtxp.extend_from_slice(&k.to_le_bytes());
        mtxp.extend_from_slice(&(1.5f32 * k as f32).to_le_bytes());
        mtxp.extend_from_slice(&1.0f32.to_le_bytes());
        mtxp.extend_from_slice(&0u32.to_le_bytes());
    }
    chunk(&mut out, ChunkId::MTXP, &mtxp);
    out
}

fn obj0_adt(n_mcnk: usize) -> Vec<u8> {
    let mut out = Vec::new();
    chunk(&mut out, ChunkId::MVER, &18u32.to_le_bytes());
    let (mmdx, mmid) = strings(&["world/expansion04/doodads/pandaren/lantern.m2", "world/generic/tree.m2"]);
    chunk(&mut out, ChunkId::MMDX, &mmdx);
    chunk(&mut out, ChunkId::MMID, &mmid);
    let (mwmo, mwid) = strings(&["world/wmo/pandaria/temple.wmo"]);
    chunk(&mut out, ChunkId::MWMO, &mwmo);
    chunk(&mut out, ChunkId::MWID, &mwid);
    let mut mddf = Vec::new();
    for i in 0..3u32 {
        for v in [i % 2, 100 + i] {
            mddf.extend_from_slice(&v.to_le_bytes());
        }
        for f in [100.0f32 + i as f32, 20.0, 300.0, 0.0, 90.0, 0.0] {
            mddf.extend_from_slice(&f.to_le_bytes());
        }
        mddf.extend_from_slice(&1024u16.to_le_bytes());
        mddf.extend_from_slice(&0u16.to_le_bytes());
    }
    chunk(&mut out, ChunkId::MDDF, &mddf);
    let mut modf = Vec::new();
    for i in 0..2u32 {
        for v in [0u32, 500 + i] {
            modf.extend_from_slice(&v.to_le_bytes());
        }
        for f in [1.0f32, 2.0, 3.0, 0.0, 0.0, 0.0, -5.0, -5.0, -5.0, 5.0, 5.0, 5.0] {
            modf.extend_from_slice(&f.to_le_bytes());
        }
        for h in [0u16, i as u16, 0, 1024] {
            modf.extend_from_slice(&h.to_le_bytes());
        }
    }
    chunk(&mut out, ChunkId::MODF, &modf);
    for i in 0..n_mcnk {
        let mut sub = Vec::new();
        let mut rd = Vec::new();
        for v in [0u32, 1, 2].iter().take(1 + i % 3) {
            rd.extend_from_slice(&v.to_le_bytes());
        }
        chunk(&mut sub, ChunkId::MCRD, &rd);
        let mut rw = Vec::new();
        for v in [0u32, 1] {
            rw.extend_from_slice(&v.to_le_bytes());
        }
        chunk(&mut sub, ChunkId::MCRW, &rw);
        chunk(&mut out, ChunkId::MCNK, &sub);
    }
    out
}

fn lod_adt() -> Vec<u8> {
    // the crate classifies "no MCNK / MTEX / MDDF / MODF / MMDX / MWMO" as a LOD file and only inventories its chunks
    let mut out = Vec::new();
    chunk(&mut out, ChunkId::MVER, &18u32.to_le_bytes());
    chunk(&mut out, ChunkId([b'D', b'H', b'L', b'M']), &[0u8; 24]); // MLHD
    let mlvh: Vec<u8> = (0..129 * 4).map(|k| k as u8).collect();
    chunk(&mut out, ChunkId([b'H', b'V', b'L', b'M']), &mlvh); // MLVH
    chunk(&mut out, ChunkId([b'I', b'V', b'L', b'M']), &[1, 0, 2, 0, 3, 0]); // MLVI
    out
}

// ------------------------------------------------------------------ seeds ----

fn checked(label: &str, bytes: Vec<u8>, nested_header: usize, check: impl FnOnce(&ParsedAdt) -> bool) -> Seed {
    let parsed = parse(&bytes).unwrap_or_else(|e| panic!("seed {label} does not parse: {e:?}"));
    assert!(check(&parsed), "seed {label}: parsed, but not as the expected file type with non-zero counts (got {:?}, version {:?})", parsed.file_type(), parsed.version());
    let nested = vec![(ChunkId::MCNK.0, nested_header)];
    // layout sanity: with this header length the engine's own walker must arrive at the sub-chunks of every MCNK
    let mut found = Vec::new();
    walk_chunks(&bytes, 0, bytes.len(), &nested, 0, &mut found);
    let n_mcnk = found.iter().filter(|c| c.depth == 0 && c.magic == ChunkId::MCNK.0).count();
    let n_sub = found.iter().filter(|c| c.depth == 1 && (c.magic == ChunkId::MCLY.0 || c.magic == ChunkId::MCRD.0)).count();
    assert!(n_sub >= n_mcnk, "seed {label}: walker found {n_mcnk} MCNK but only {n_sub} MCLY/MCRD sub-chunks (wrong nested header length?)");
    Seed::new(label, bytes, Layout::Chunked { start: 0, nested, payload_scan: 128 })
}

fn root_ok(want_version: AdtVersion, n_mcnk: usize, water: bool) -> impl FnOnce(&ParsedAdt) -> bool {
    move |p| match p {
        ParsedAdt::Root(r) => {
            r.version == want_version
                && r.terrain_chunk_count() == n_mcnk
                && r.texture_count() >= 2
                && r.model_count() >= 1
                && r.wmo_count() >= 1
                && !r.doodad_placements.is_empty()
                && !r.wmo_placements.is_empty()
                && r.has_water() == water
                && r.mcnk_chunks.iter().all(|c| c.heights.is_some() && c.normals.is_some() && c.layers.is_some())
        }
        _ => false,
    }
}

fn adt_seeds(_ctx: &SeedCtx) -> Vec<Seed> {
    use AdtVersion as V;
    // Small terrain-chunk counts on purpose: the quick tier mutates a bounded number of field offsets per seed, chunk
    // headers first; with few MCNKs the MCNK header fields (sub-chunk offsets / sizes / counts) stay inside that budget.
    // One seed carries the complete 16x16 grid.
    let mut v = vec![
        checked("adt/vanilla-root-2mcnk", root_adt(V::VanillaEarly, 2), MCNK_ROOT_HEADER, root_ok(V::VanillaEarly, 2, false)),
        checked("adt/tbc-root-3mcnk", root_adt(V::TBC, 3), MCNK_ROOT_HEADER, root_ok(V::TBC, 3, false)),
        checked("adt/wotlk-root-4mcnk", root_adt(V::WotLK, 4), MCNK_ROOT_HEADER, root_ok(V::WotLK, 4, true)),
        checked("adt/cata-root-2mcnk", root_adt(V::Cataclysm, 2), MCNK_ROOT_HEADER, root_ok(V::Cataclysm, 2, true)),
        checked("adt/mop-root-2mcnk", root_adt(V::MoP, 2), MCNK_ROOT_HEADER, root_ok(V::MoP, 2, true)),
        checked("adt/wotlk-root-full256", full_size_adt(V::WotLK), MCNK_ROOT_HEADER, root_ok(V::WotLK, 256, true)),
        checked("adt/mop-root-8layers-2mcnk", root_adt_layers(V::MoP, 2, 8), MCNK_ROOT_HEADER, |p| match p {
            ParsedAdt::Root(r) => r.mcnk_chunks.len() == 2 && r.mcnk_chunks.iter().all(|c| c.layers.as_ref().map(|l| l.layers.len()) == Some(8) && c.alpha.is_some()),
            _ => false,
        }),
    ];
    v.push(checked("adt/mop-tex0-3mcnk", tex0_adt(3), 0, |p| match p {
        ParsedAdt::Tex0(t) => t.textures.len() == 3 && t.mcnk_textures.len() == 3 && t.mcnk_textures.iter().all(|m| m.layers.is_some() && m.alpha_maps.is_some()) && t.texture_params.is_some(),
        _ => false,
    }));
    v.push(checked("adt/cata-obj0-3mcnk", obj0_adt(3), 0, |p| match p {
        ParsedAdt::Obj0(o) => o.models.len() == 2 && o.wmos.len() == 1 && o.doodad_placements.len() == 3 && o.wmo_placements.len() == 2 && o.mcnk_objects.len() == 3 && o.mcnk_objects.iter().all(|m| !m.doodad_refs.is_empty()),
        _ => false,
    }));
    v.push(checked("adt/lod-stub", lod_adt(), 0, |p| matches!(p, ParsedAdt::Lod(_))));
    v
}

fn adt_drive(_s: &Seed, data: &[u8], p: &mut Probe) {
    let parsed = p.call("parse_adt", || wow_adt::parse_adt(&mut Cursor::new(data)));
    if let Some(a) = parsed {
        p.call_plain("ParsedAdt accessors", || {
            let _ = a.version();
            if let ParsedAdt::Root(r) = &a {
                let _ = r.terrain_chunk_count();
                let _ = r.texture_count();
                let _ = r.has_water();
            }
        });
        p.seed_valid = Some(p.all_ok);
        // what a caller does with a parsed tile: decode the alpha maps of every chunk (RLE / 4-bit / 8-bit readers over the
        // file's own MCAL bytes, at the offsets the layer table gives and at a few others), check the chunks, and serialise it again
        if let ParsedAdt::Root(r) = a {
            p.call_plain("McalChunk::get_layer_alpha + AlphaMap::decompress", || {
                use wow_adt::chunks::mcnk::mcal::AlphaFormat;
                let mut n = 0usize;
                for ch in r.mcnk_chunks.iter().take(256) {
                    let _ = ch.validate_consistency();
                    if let Some(al) = &ch.alpha {
                        let len = al.data.len();
                        for (off, size) in [(0usize, len), (0, 2048), (0, 4096), (len / 2, len - len / 2), (len, 0), (len.saturating_sub(1), 1), (1, len)] {
                            for fmt in [AlphaFormat::Compressed, AlphaFormat::Uncompressed2048, AlphaFormat::Uncompressed4096] {
                                if let Ok(m) = al.get_layer_alpha(off, size, fmt) {
                                    n += m.decompress().map(|d| d.len()).unwrap_or(0);
                                    let _ = m.get_alpha(63, 63);
                                }
                            }
                        }
                    }
                }
                std::hint::black_box(n)
            });
            p.call_plain("CombinedAlphaMap::new", || {
                let mut n = 0usize;
                for ch in r.mcnk_chunks.iter().take(256) {
                    for (big, fix) in [(false, false), (true, false), (false, true), (true, true)] {
                        let m = wow_adt::CombinedAlphaMap::new(ch, big, fix);
                        n += std::mem::size_of_val(&m);
                    }
                }
                std::hint::black_box(n)
            });
            p.call("BuiltAdt::from_root_adt + to_bytes", || wow_adt::builder::BuiltAdt::from_root_adt(*r, None).to_bytes());
        }
    }
    p.call("parse_adt_with_metadata", || wow_adt::api::parse_adt_with_metadata(&mut Cursor::new(data)));
    p.call("discover_chunks", || wow_adt::chunk_discovery::discover_chunks(&mut Cursor::new(data)));
}

pub fn formats() -> Vec<FormatDef> {
    vec![FormatDef {
        name: "adt",
            family: "adt",
        entries: &["parse_adt", "ParsedAdt accessors", "McalChunk::get_layer_alpha + AlphaMap::decompress", "CombinedAlphaMap::new", "BuiltAdt::from_root_adt + to_bytes", "parse_adt_with_metadata", "discover_chunks"],
        seeds: adt_seeds,
        drive: adt_drive,
        cipher: None,
        havoc_scale: 1.0,
        max_field_offsets: (500, 2500),
    }]
}
