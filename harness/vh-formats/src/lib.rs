//! shared helpers for format workers
