//! C05 — shared engine of the "parsers are total" workers (DESIGN.md §6 C05).
//!
//! Included with `#[path]` by `vh-formats/src/bin/c05_formats.rs` and `vh-mpq/src/bin/c05_mpq.rs`
//! (it is not part of either crate's lib, so it can be shared without touching the crates' lib.rs).
//!
//! What lives here
//!   * `SiteAlloc`   — global allocator: vh_common's counting allocator (M3) plus "who asked": the first
//!                     in-repo frame of every single request >= 256 MiB is recorded, so an allocation
//!                     finding carries a *site* and not just an entry point.
//!   * mutation engine — prefixes, boundary values over header/table/chunk regions, chunk surgery, seeded havoc.
//!   * `Probe`       — wraps one library entry-point call with M1 (panic trap), M3 (heap), M4 (soft time budget).
//!   * `run_batch`   — executes a batch of mutants in a *forked child* of the worker. Abort-class failures
//!                     (allocation failure, stack overflow, abort in no-unwind context) kill only that child; the
//!                     worker reads the exact (mutant, entry point) from shared memory, records the violation and
//!                     forks again behind the culprit, so a batch is always explored completely and the witness
//!                     names a single mutant. Hangs: child silent for HARD_BUDGET -> killed, the single mutant is
//!                     re-run alone with a 4x budget; only a second expiry is a `hang` violation (M4 confirmation).
//!                     The Python supervisor's crash attribution + watchdog remain as the outer safety net.

#![allow(dead_code)]

use serde_json::{Value, json};
use std::alloc::{GlobalAlloc, Layout as ALayout};
use std::cell::Cell;
use std::collections::{BTreeMap, BTreeSet};
use std::path::PathBuf;
use std::sync::Mutex;
use std::sync::atomic::{AtomicBool, AtomicI32, AtomicU64, Ordering::Relaxed};
use std::time::{Duration, Instant};
use vh_common::alloc as valloc;
use vh_common::{Case, Rng, Run, trap};

/// M3 thresholds (DESIGN.md §3): inputs are <= 4 MiB.
pub const BIG: usize = 256 << 20;
pub const GROWTH: usize = 512 << 20;
/// A single request >= this is refused by the allocator (the machine never pays for a 4 GiB vec![0; n]).
/// Equal to the violation threshold: a request that is already a violation gains nothing from being served, and
/// zero-filling hundreds of MiB per mutant would dominate the run time.
pub const REFUSE: usize = BIG;
pub const MAX_INPUT: usize = 4 << 20;
/// M4: soft per-call budget (recorded as a note, not a violation) and hard budget before kill+confirm.
/// Inputs are <= 4 MiB and an ordinary call takes well under 10 ms; the library's own limits (100 MiB per decompressed
/// file) put a legitimate worst case at a second or two.
pub const SOFT_BUDGET: Duration = Duration::from_secs(2);
pub const HARD_BUDGET: Duration = Duration::from_secs(6);

// ------------------------------------------------------------------ libc ----

mod sys {
    use std::ffi::c_void;
    #[repr(C)]
    pub struct PollFd {
        pub fd: i32,
        pub events: i16,
        pub revents: i16,
    }
    unsafe extern "C" {
        pub fn fork() -> i32;
        pub fn pipe(fds: *mut i32) -> i32;
        pub fn read(fd: i32, buf: *mut c_void, n: usize) -> isize;
        pub fn write(fd: i32, buf: *const c_void, n: usize) -> isize;
        pub fn close(fd: i32) -> i32;
        pub fn waitpid(pid: i32, status: *mut i32, options: i32) -> i32;
        pub fn kill(pid: i32, sig: i32) -> i32;
        pub fn poll(fds: *mut PollFd, n: u64, timeout_ms: i32) -> i32;
        pub fn dup2(a: i32, b: i32) -> i32;
        pub fn mmap(addr: *mut c_void, len: usize, prot: i32, flags: i32, fd: i32, off: i64) -> *mut c_void;
        pub fn prctl(option: i32, ...) -> i32;
        pub fn _exit(code: i32) -> !;
    }
    pub const PROT_RW: i32 = 3;
    pub const MAP_SHARED_ANON: i32 = 0x01 | 0x20;
    pub const WNOHANG: i32 = 1;
    pub const POLLIN: i16 = 1;
    pub const SIGKILL: i32 = 9;
    pub const PR_SET_PDEATHSIG: i32 = 1;
}

fn raw_write(fd: i32, s: &[u8]) {
    if fd < 0 {
        return;
    }
    let mut off = 0;
    while off < s.len() {
        let n = unsafe { sys::write(fd, s[off..].as_ptr() as *const _, s.len() - off) };
        if n <= 0 {
            break;
        }
        off += n as usize;
    }
}

// ------------------------------------------------------- site allocator ----

/// Global allocator of the C05 workers: vh_common::alloc::Counting + the requesting site of big requests.
pub struct SiteAlloc;

thread_local! {
    static IN_NOTE: Cell<bool> = const { Cell::new(false) };
}
static ARMED: AtomicBool = AtomicBool::new(false);
static MSG_FD: AtomicI32 = AtomicI32::new(-1);
static BIG_SITE: Mutex<Option<(String, usize)>> = Mutex::new(None);

fn note_big(size: usize) {
    if !ARMED.load(Relaxed) {
        return;
    }
    let reent = IN_NOTE.with(|g| g.replace(true));
    if reent {
        return;
    }
    let already = BIG_SITE.lock().map(|g| g.is_some()).unwrap_or(true);
    if !already || size >= REFUSE {
        let site = site_from_backtrace();
        if let Ok(mut g) = BIG_SITE.lock() {
            if g.is_none() {
                *g = Some((site.clone(), size));
            }
        }
        if size >= REFUSE {
            // the request is about to be refused; if the caller cannot cope the process aborts — tell the parent first
            let line = format!("{}\n", json!({"t": "big", "size": size, "site": site}));
            raw_write(MSG_FD.load(Relaxed), line.as_bytes());
        }
    }
    IN_NOTE.with(|g| g.set(false));
}

unsafe impl GlobalAlloc for SiteAlloc {
    unsafe fn alloc(&self, l: ALayout) -> *mut u8 {
        if l.size() >= BIG {
            note_big(l.size());
        }
        unsafe { valloc::Counting.alloc(l) }
    }
    unsafe fn alloc_zeroed(&self, l: ALayout) -> *mut u8 {
        if l.size() >= BIG {
            note_big(l.size());
        }
        unsafe { valloc::Counting.alloc_zeroed(l) }
    }
    unsafe fn dealloc(&self, p: *mut u8, l: ALayout) {
        unsafe { valloc::Counting.dealloc(p, l) }
    }
    unsafe fn realloc(&self, p: *mut u8, l: ALayout, n: usize) -> *mut u8 {
        if n >= BIG {
            note_big(n);
        }
        unsafe { valloc::Counting.realloc(p, l, n) }
    }
}

fn clean_sym(sym: &str) -> String {
    // same normalisation as vh_common's panic trap, so that a site named by a panic and a site named by
    // an allocation are spelled identically
    let mut s = sym.to_string();
    if let Some(pos) = s.rfind("::h") {
        if s.len() - pos == 19 && s[pos + 3..].chars().all(|c| c.is_ascii_hexdigit()) {
            s.truncate(pos);
        }
    }
    let s = s.replace("::{{closure}}", "").replace("{{closure}}", "");
    let s = if s.starts_with('<') { s } else { s.split('<').next().unwrap_or(&s).to_string() };
    let mut out = String::new();
    let mut it = s.chars();
    while let Some(ch) = it.next() {
        if ch == '{' {
            let mut word = String::new();
            for c2 in it.by_ref() {
                if c2 == '}' {
                    break;
                }
                word.push(c2);
            }
            let w = word.split('#').next().unwrap_or("");
            out.push('{');
            out.push_str(w);
            out.push('}');
        } else {
            out.push(ch);
        }
    }
    out
}

/// "<crate>/<file under src>:<function>" of the innermost frame whose source lies in the tree under test.
pub fn site_from_backtrace() -> String {
    let bt = std::backtrace::Backtrace::force_capture().to_string();
    let mut last_sym = String::new();
    for line in bt.lines() {
        let t = line.trim_start();
        if let Some(rest) = t.strip_prefix("at ") {
            let in_tree = ["/file-formats/", "/ffi/storm-ffi/", "/warcraft-rs/src/"].iter().filter_map(|m| rest.find(m)).min();
            if let Some(pos) = in_tree.filter(|_| !rest.contains("/registry/src/") && !rest.starts_with("/rustc/")) {
                let rel = &rest[pos + 1..];
                let file = rel.split(':').next().unwrap_or(rel);
                let short = file.rsplit("/src/").next().unwrap_or(file);
                let krate = file.split("/src/").next().unwrap_or("").rsplit('/').next().unwrap_or("");
                return format!("{krate}/{short}:{}", clean_sym(&last_sym));
            }
        } else if let Some((n, rest)) = t.split_once(": ") {
            if n.chars().all(|c| c.is_ascii_digit()) {
                last_sym = rest.trim().to_string();
            }
        }
    }
    "?".to_string()
}

// ------------------------------------------------------------ seeds ----

/// Where the "interesting" fields of a seed live (mutation class 2 and 3).
#[derive(Clone, Debug)]
pub enum Layout {
    /// Fixed-position structures: (start, len) regions holding headers / tables / counts / offsets.
    Fixed { regions: Vec<(usize, usize)> },
    /// IFF-style chunk stream starting at `start`: 4-byte magic, u32 LE size, payload.
    /// `nested`: container chunks — (magic as stored in the file, length of the fixed header that precedes the sub-chunks).
    /// `payload_scan`: how many payload bytes of every chunk are treated as count/offset region.
    Chunked { start: usize, nested: Vec<([u8; 4], usize)>, payload_scan: usize },
}

/// An encrypted region: field mutations inside it are applied to the plaintext and re-encrypted.
#[derive(Clone, Debug)]
pub struct CryptRegion {
    pub start: usize,
    pub len: usize,
    pub key: u32,
}

#[derive(Clone, Debug)]
pub struct Seed {
    /// Stable label (no random content): e.g. "m2/wotlk-rich".
    pub label: String,
    pub bytes: Vec<u8>,
    pub layout: Layout,
    /// Format-private tag (e.g. index of the DBC schema that matches this seed).
    pub aux: usize,
    /// Offsets of 64-bit fields worth boundary values of their own.
    pub wide_fields: Vec<usize>,
    /// Offsets of 32-bit fields that sit at unaligned positions (e.g. inside an RLE literal run).
    pub u32_fields: Vec<usize>,
    pub crypt: Vec<CryptRegion>,
}

impl Seed {
    pub fn new(label: impl Into<String>, bytes: Vec<u8>, layout: Layout) -> Seed {
        Seed { label: label.into(), bytes, layout, aux: 0, wide_fields: vec![], u32_fields: vec![], crypt: vec![] }
    }
    pub fn fixed(label: impl Into<String>, bytes: Vec<u8>, header_len: usize) -> Seed {
        let n = header_len.min(bytes.len());
        Seed::new(label, bytes, Layout::Fixed { regions: vec![(0, n)] })
    }
    pub fn chunked(label: impl Into<String>, bytes: Vec<u8>) -> Seed {
        Seed::new(label, bytes, Layout::Chunked { start: 0, nested: vec![], payload_scan: 128 })
    }
    pub fn with_aux(mut self, aux: usize) -> Seed {
        self.aux = aux;
        self
    }
}

/// Block cipher hooks for `CryptRegion`s (MPQ tables); identity for every other format.
#[derive(Clone, Copy)]
pub struct Cipher {
    pub encrypt: fn(&mut [u32], u32),
    pub decrypt: fn(&mut [u32], u32),
}

pub struct FormatDef {
    pub name: &'static str,
    /// Name used in signatures; several FormatDefs that feed the same parsers (wmo-root / wmo-group) share one family.
    pub family: &'static str,
    /// Every entry point name that `drive` passes to `Probe::call` (static so that counters live in shared memory).
    pub entries: &'static [&'static str],
    pub seeds: fn(&SeedCtx) -> Vec<Seed>,
    pub drive: fn(&Seed, &[u8], &mut Probe),
    pub cipher: Option<Cipher>,
    /// Relative weight of the havoc budget (1.0 = the tier's default per format).
    pub havoc_scale: f64,
    /// Cap on distinct field offsets per seed for mutation class 2 (quick, thorough).
    pub max_field_offsets: (usize, usize),
}

pub struct SeedCtx {
    pub scratch: PathBuf,
    pub seeds_dir: Option<PathBuf>,
    pub thorough: bool,
}

// ------------------------------------------------------ chunk walker ----

#[derive(Clone, Debug)]
pub struct Chunk {
    pub off: usize,
    pub magic: [u8; 4],
    pub size: u32,
    pub depth: u8,
    /// payload start (for nested containers: start of the fixed header)
    pub body: usize,
}

/// Independent IFF walker: does not use any of the crates' chunk readers.
pub fn walk_chunks(data: &[u8], start: usize, end: usize, nested: &[([u8; 4], usize)], depth: u8, out: &mut Vec<Chunk>) {
    let mut p = start;
    while p + 8 <= end && p + 8 <= data.len() {
        let mut magic = [0u8; 4];
        magic.copy_from_slice(&data[p..p + 4]);
        let size = u32::from_le_bytes([data[p + 4], data[p + 5], data[p + 6], data[p + 7]]);
        let body = p + 8;
        let stop = body.saturating_add(size as usize);
        out.push(Chunk { off: p, magic, size, depth, body });
        if stop > end {
            break;
        }
        if depth < 3 {
            if let Some((_, hl)) = nested.iter().find(|(m, _)| *m == magic) {
                if body + hl <= stop {
                    walk_chunks(data, body + hl, stop, nested, depth + 1, out);
                }
            }
        }
        p = stop;
    }
}

// ---------------------------------------------------------- mutations ----

#[derive(Clone, Debug)]
pub enum Mut {
    Identity,
    Prefix(usize),
    /// overwrite `width` bytes at `off` with `val` (LE); `tag` names the boundary value
    Field { off: usize, width: u8, val: u64, tag: &'static str },
    /// chunk surgery on the chunk starting at file offset `off` (and `other` for pairwise ops)
    Chunk { op: &'static str, off: usize, other: usize },
    /// n-th seeded havoc mutant
    Havoc(u64),
    /// An input produced outside the mutation engine (coverage-guided fuzzing stage, DESIGN.md §6 C05 "stage F"):
    /// payload followed by one selector byte (= `Seed::aux` for the drivers that take a schema / block count).
    Blob { name: String, bytes: std::sync::Arc<Vec<u8>> },
}

/// (payload, aux) of a fuzz-stage input: the last byte selects the auxiliary parameter.
pub fn blob_split(b: &[u8]) -> (&[u8], usize) {
    match b.split_last() {
        Some((sel, payload)) => (payload, (*sel % 8) as usize),
        None => (b, 0),
    }
}

impl Mut {
    pub fn kind(&self) -> &'static str {
        match self {
            Mut::Identity => "identity",
            Mut::Prefix(_) => "prefix",
            Mut::Field { .. } => "field",
            Mut::Chunk { .. } => "chunk",
            Mut::Havoc(_) => "havoc",
            Mut::Blob { .. } => "fuzz",
        }
    }
    pub fn describe(&self) -> Value {
        match self {
            Mut::Identity => json!({"kind": "identity"}),
            Mut::Prefix(n) => json!({"kind": "prefix", "len": n}),
            Mut::Field { off, width, val, tag } => json!({"kind": "field", "offset": off, "width": width, "value": val, "value_tag": tag}),
            Mut::Chunk { op, off, other } => json!({"kind": "chunk", "op": op, "chunk_offset": off, "other_offset": other}),
            Mut::Havoc(n) => json!({"kind": "havoc", "n": n}),
            Mut::Blob { name, bytes } => json!({"kind": "blob", "name": name, "len": bytes.len(), "hex": vh_common::hex(bytes)}),
        }
    }
}

const CHUNK_OPS: &[&str] = &["delete", "duplicate", "swap", "to-end", "to-front", "size+1", "size-1", "size=max", "size=0", "size=rest+1", "size=2^31", "truncate-payload", "empty-payload", "magic-flip", "unknown+size=2^31", "unknown+size=-8", "unknown+size=-1", "unknown+size=-here", "size=-8"];

impl Mut {
    /// Inverse of `describe` (witness files name a mutant by what it does, not by its position in the plan).
    pub fn from_json(v: &Value) -> Option<Mut> {
        let us = |k: &str| v[k].as_u64().map(|x| x as usize);
        match v["kind"].as_str()? {
            "identity" => Some(Mut::Identity),
            "prefix" => Some(Mut::Prefix(us("len")?)),
            "field" => Some(Mut::Field { off: us("offset")?, width: us("width")? as u8, val: v["value"].as_u64()?, tag: "witness" }),
            "chunk" => {
                let op = v["op"].as_str()?;
                let op = CHUNK_OPS.iter().find(|o| **o == op)?;
                Some(Mut::Chunk { op, off: us("chunk_offset")?, other: us("other_offset").unwrap_or(0) })
            }
            "havoc" => Some(Mut::Havoc(v["n"].as_u64()?)),
            "blob" => Some(Mut::Blob { name: v["name"].as_str().unwrap_or("witness").to_string(), bytes: std::sync::Arc::new(vh_common::unhex(v["hex"].as_str()?)) }),
            _ => None,
        }
    }
}

fn stable_hash(s: &str) -> u64 {
    vh_common::fnv64(s.as_bytes())
}

fn put(data: &mut [u8], off: usize, width: usize, val: u64) {
    for i in 0..width {
        if off + i < data.len() {
            data[off + i] = (val >> (8 * i)) as u8;
        }
    }
}

fn get(data: &[u8], off: usize, width: usize) -> u64 {
    let mut v = 0u64;
    for i in 0..width {
        if off + i < data.len() {
            v |= (data[off + i] as u64) << (8 * i);
        }
    }
    v
}

fn with_plain(seed: &Seed, cipher: Option<Cipher>, data: &mut [u8], off: usize, width: usize, f: impl FnOnce(&mut [u8])) {
    // if [off, off+width) lies in an encrypted region, run f on the decrypted image and re-encrypt
    if let (Some(ci), Some(r)) = (cipher, seed.crypt.iter().find(|r| off >= r.start && off + width <= r.start + r.len)) {
        if r.start + r.len <= data.len() {
            let n = r.len / 4;
            let mut words: Vec<u32> = (0..n).map(|i| get(data, r.start + 4 * i, 4) as u32).collect();
            (ci.decrypt)(&mut words, r.key);
            for (i, w) in words.iter().enumerate() {
                put(data, r.start + 4 * i, 4, *w as u64);
            }
            f(data);
            let mut words: Vec<u32> = (0..n).map(|i| get(data, r.start + 4 * i, 4) as u32).collect();
            (ci.encrypt)(&mut words, r.key);
            for (i, w) in words.iter().enumerate() {
                put(data, r.start + 4 * i, 4, *w as u64);
            }
            return;
        }
    }
    f(data)
}

const INTERESTING32: &[u32] = &[0, 1, 0x7FFF_FFFF, 0x8000_0000, 0xFFFF_FFFF, 0xFFFF, 0x8000, 0x100, 0x7F, 0x80, 0xFF, 0x10000];

fn havoc(seed: &Seed, verif_seed: u64, fmt: &str, n: u64) -> Vec<u8> {
    let mut rng = Rng::for_case(verif_seed, stable_hash(fmt) ^ stable_hash(&seed.label).rotate_left(17), n);
    let mut d = seed.bytes.clone();
    let ops = 1 + rng.usize(4);
    for _ in 0..ops {
        if d.is_empty() {
            d.push(0);
        }
        let len = d.len();
        // bias towards the first KiB (headers, tables)
        let pos = |rng: &mut Rng| -> usize { if rng.chance(1, 2) { rng.usize(len.min(1024)) } else { rng.usize(len) } };
        match rng.below(10) {
            0 => {
                let p = pos(&mut rng);
                d[p] ^= 1 << rng.below(8);
            }
            1 => {
                let p = pos(&mut rng);
                d[p] = rng.next_u32() as u8;
            }
            2 => {
                let p = pos(&mut rng);
                d[p] = *rng.pick(&[0u8, 0xFF, 0x7F, 0x80, 1]);
            }
            3 => {
                let p = pos(&mut rng);
                let v = *rng.pick(INTERESTING32);
                let w = *rng.pick(&[2usize, 4, 4, 4]);
                put(&mut d, p, w, v as u64);
            }
            4 => {
                // block copy
                let l = 1 + rng.usize(64.min(len));
                let s = rng.usize(len - l + 1);
                let t = rng.usize(len - l + 1);
                let blk = d[s..s + l].to_vec();
                d[t..t + l].copy_from_slice(&blk);
            }
            5 => {
                let l = 1 + rng.usize(64.min(len));
                let s = rng.usize(len - l + 1);
                let fill = *rng.pick(&[0u8, 0, 0xFF]);
                for b in &mut d[s..s + l] {
                    *b = fill;
                }
            }
            6 => {
                // truncation + garbage
                let cut = pos(&mut rng);
                d.truncate(cut);
                let g = rng.usize(64);
                d.extend(rng.bytes(g));
            }
            7 => {
                // insert bytes
                let p = pos(&mut rng);
                let g = 1 + rng.usize(16);
                let ins = rng.bytes(g);
                let tail = d.split_off(p);
                d.extend(ins);
                d.extend(tail);
            }
            8 => {
                // delete bytes
                let l = 1 + rng.usize(16.min(len));
                let s = rng.usize(len - l + 1);
                d.drain(s..s + l);
            }
            _ => {
                // add/subtract a small delta to a u32 (length / offset drift)
                let p = pos(&mut rng) & !1;
                let v = get(&d, p, 4) as u32;
                let delta = 1 + rng.below(16) as u32;
                let nv = if rng.bool() { v.wrapping_add(delta) } else { v.wrapping_sub(delta) };
                put(&mut d, p, 4, nv as u64);
            }
        }
    }
    d.truncate(MAX_INPUT);
    d
}

/// Materialise a mutant. Deterministic in (seed bytes, mutation, VERIF_SEED).
pub fn apply(fmt: &FormatDef, seed: &Seed, m: &Mut, verif_seed: u64) -> Vec<u8> {
    let src = &seed.bytes;
    match m {
        Mut::Identity => src.clone(),
        Mut::Prefix(n) => src[..(*n).min(src.len())].to_vec(),
        Mut::Field { off, width, val, .. } => {
            let mut d = src.clone();
            with_plain(seed, fmt.cipher, &mut d, *off, *width as usize, |d| put(d, *off, *width as usize, *val));
            d
        }
        Mut::Chunk { op, off, other } => chunk_op(seed, op, *off, *other),
        Mut::Havoc(n) => havoc(seed, verif_seed, fmt.name, *n),
        Mut::Blob { bytes, .. } => {
            let mut d = blob_split(bytes).0.to_vec();
            d.truncate(MAX_INPUT);
            d
        }
    }
}

fn chunk_span(data: &[u8], off: usize) -> (usize, usize) {
    let size = get(data, off + 4, 4) as usize;
    (off, (off + 8).saturating_add(size).min(data.len()))
}

fn chunk_op(seed: &Seed, op: &str, off: usize, other: usize) -> Vec<u8> {
    let d = &seed.bytes;
    if off + 8 > d.len() {
        return d.clone();
    }
    let (a, b) = chunk_span(d, off);
    let size = get(d, off + 4, 4);
    let mut out = d.clone();
    match op {
        "delete" => {
            out.drain(a..b);
        }
        "duplicate" => {
            let blk = d[a..b].to_vec();
            out.splice(b..b, blk);
        }
        "swap" => {
            // swap with the chunk at `other` (other > off, non-overlapping)
            if other + 8 <= d.len() && other >= b {
                let (c, e) = chunk_span(d, other);
                let mut v = Vec::with_capacity(d.len());
                v.extend_from_slice(&d[..a]);
                v.extend_from_slice(&d[c..e]);
                v.extend_from_slice(&d[b..c]);
                v.extend_from_slice(&d[a..b]);
                v.extend_from_slice(&d[e..]);
                out = v;
            }
        }
        "to-end" => {
            let blk: Vec<u8> = out.drain(a..b).collect();
            out.extend(blk);
        }
        "to-front" => {
            let blk: Vec<u8> = out.drain(a..b).collect();
            out.splice(0..0, blk);
        }
        "size+1" => put(&mut out, off + 4, 4, size.wrapping_add(1) & 0xFFFF_FFFF),
        "size-1" => put(&mut out, off + 4, 4, size.wrapping_sub(1) & 0xFFFF_FFFF),
        "size=max" => put(&mut out, off + 4, 4, 0xFFFF_FFFF),
        "size=0" => put(&mut out, off + 4, 4, 0),
        "size=rest+1" => put(&mut out, off + 4, 4, (d.len() - (off + 8) + 1) as u64),
        "size=2^31" => put(&mut out, off + 4, 4, 0x8000_0000),
        "truncate-payload" => {
            // keep the header and half of the payload, drop everything after
            out.truncate(a + 8 + (b - a - 8) / 2);
        }
        "empty-payload" => {
            // payload removed, size field says 0
            out.drain(a + 8..b);
            put(&mut out, off + 4, 4, 0);
        }
        "magic-flip" => {
            let blk: Vec<u8> = d[a..a + 4].iter().rev().copied().collect();
            out[a..a + 4].copy_from_slice(&blk);
        }
        // a chunk no reader knows ("skip unknown chunk" paths) whose size, read as a signed 32-bit value, is negative:
        // a skip that honours the sign walks backwards (onto this header again: -8; to the start of the file: -here)
        o if o.starts_with("unknown+size=") || o == "size=-8" => {
            if o != "size=-8" {
                out[a..a + 4].copy_from_slice(b"ZZQX");
            }
            let v: u64 = match o.rsplit('=').next().unwrap_or("") {
                "2^31" => 0x8000_0000,
                "-8" => 0xFFFF_FFF8,
                "-1" => 0xFFFF_FFFF,
                _ => (0x1_0000_0000u64 - (off as u64 + 8).min(0x7FFF_FFFF)) & 0xFFFF_FFFF,
            };
            put(&mut out, off + 4, 4, v);
        }
        _ => {}
    }
    out.truncate(MAX_INPUT);
    out
}

fn subsample<T: Clone>(xs: &[T], max: usize) -> Vec<T> {
    if xs.len() <= max || max == 0 {
        return xs.to_vec();
    }
    (0..max).map(|i| xs[i * xs.len() / max].clone()).collect()
}

/// Offsets (2-byte aligned) that carry header / table / chunk-header / count / offset fields.
pub fn field_offsets(seed: &Seed, max_offsets: usize, beyond_samples: usize) -> Vec<usize> {
    let len = seed.bytes.len();
    let mut must: BTreeSet<usize> = BTreeSet::new(); // chunk headers & declared regions
    let mut small: BTreeSet<usize> = BTreeSet::new(); // offsets of short declared tables (always kept)
    let mut more: BTreeSet<usize> = BTreeSet::new();
    match &seed.layout {
        Layout::Fixed { regions } => {
            for (s, l) in regions {
                let mut o = *s & !1;
                while o < (s + l).min(len) {
                    must.insert(o);
                    // short tables behind the header (a view record, a two-entry table) are count/offset records through and
                    // through: they are never thinned out by the per-seed cap
                    if *l <= 128 && *s > 0 {
                        small.insert(o);
                    }
                    o += 2;
                }
            }
        }
        Layout::Chunked { start, nested, payload_scan } => {
            let mut chunks = Vec::new();
            walk_chunks(&seed.bytes, *start, len, nested, 0, &mut chunks);
            let mut o = 0;
            while o < (*start).min(len) {
                must.insert(o);
                o += 2;
            }
            for c in &chunks {
                for k in [0usize, 2, 4, 6] {
                    must.insert(c.off + k);
                }
                let hl = nested.iter().find(|(m, _)| *m == c.magic).map(|x| x.1).unwrap_or(0);
                let scan = (*payload_scan).max(hl).min(c.size as usize);
                let mut o = c.body;
                while o < (c.body + scan).min(len) {
                    if c.depth == 0 || hl > 0 || o < c.body + 32 {
                        more.insert(o);
                    }
                    o += 2;
                }
            }
        }
    }
    // "plus a sample beyond": evenly spread aligned offsets over the whole file, independent of the run seed
    if beyond_samples > 0 && len > 8 {
        for i in 0..beyond_samples {
            more.insert((i * (len - 4) / beyond_samples) & !3);
        }
    }
    let must: Vec<usize> = must.into_iter().filter(|o| *o < len).collect();
    let more: Vec<usize> = more.into_iter().filter(|o| *o < len && must.binary_search(o).is_err()).collect();
    let mut out = if must.len() >= max_offsets {
        let keep: Vec<usize> = small.iter().copied().filter(|o| *o < len).collect();
        let rest: Vec<usize> = must.iter().copied().filter(|o| !small.contains(o)).collect();
        let mut v = subsample(&rest, max_offsets.saturating_sub(keep.len()).max(max_offsets / 2));
        v.extend(keep);
        v
    } else {
        must.clone()
    };
    if out.len() < max_offsets {
        out.extend(subsample(&more, max_offsets - out.len()));
    }
    out.sort_unstable();
    out.dedup();
    out
}

pub fn field_mutants(seed: &Seed, offsets: &[usize]) -> Vec<Mut> {
    let fs = seed.bytes.len() as u64;
    let v32: [(u64, &'static str); 10] = [
        (0, "0"),
        (1, "1"),
        (0x7FFF_FFFF, "2^31-1"),
        (0x8000_0000, "2^31"),
        (0xFFFF_FFFF, "2^32-1"),
        (fs.wrapping_sub(1) & 0xFFFF_FFFF, "filesize-1"),
        (fs & 0xFFFF_FFFF, "filesize"),
        ((fs + 1) & 0xFFFF_FFFF, "filesize+1"),
        (0xFFFF, "0xFFFF"),
        (0x8000, "0x8000"),
    ];
    let v16: [(u64, &'static str); 8] = [
        (0, "0"),
        (1, "1"),
        (0x7FFF, "2^15-1"),
        (0x8000, "0x8000"),
        (0xFFFF, "0xFFFF"),
        (fs.wrapping_sub(1) & 0xFFFF, "filesize-1"),
        (fs & 0xFFFF, "filesize"),
        ((fs + 1) & 0xFFFF, "filesize+1"),
    ];
    let mut out = Vec::new();
    for &o in offsets {
        if o % 4 == 0 && o + 4 <= seed.bytes.len() {
            let cur = get(&seed.bytes, o, 4);
            for (v, t) in v32 {
                if v != cur {
                    out.push(Mut::Field { off: o, width: 4, val: v, tag: t });
                }
            }
        }
        if o + 2 <= seed.bytes.len() {
            let cur = get(&seed.bytes, o, 2);
            for (v, t) in v16 {
                if v != cur && !(fs > 0xFFFF && t.starts_with("filesize")) {
                    out.push(Mut::Field { off: o, width: 2, val: v, tag: t });
                }
            }
        }
    }
    for &o in &seed.u32_fields {
        if o + 4 <= seed.bytes.len() && !(o % 4 == 0 && offsets.binary_search(&o).is_ok()) {
            let cur = get(&seed.bytes, o, 4);
            for (v, t) in v32 {
                if v != cur {
                    out.push(Mut::Field { off: o, width: 4, val: v, tag: t });
                }
            }
        }
    }
    for &o in &seed.wide_fields {
        if o + 8 <= seed.bytes.len() {
            for (v, t) in [(1u64 << 32, "2^32"), (1 << 63, "2^63"), (u64::MAX, "2^64-1"), (fs, "filesize"), (fs + 1, "filesize+1"), ((1 << 63) - 1, "2^63-1"), (0xFFFF_FFFF, "2^32-1")] {
                out.push(Mut::Field { off: o, width: 8, val: v, tag: t });
            }
        }
    }
    out
}

pub fn prefix_mutants(seed: &Seed) -> Vec<Mut> {
    let len = seed.bytes.len();
    let mut out = vec![Mut::Identity];
    if len <= 4096 {
        out.extend((0..len).map(Mut::Prefix));
    } else {
        out.extend((0..512).map(Mut::Prefix));
        let mut extra: BTreeSet<usize> = BTreeSet::new();
        for i in 0..256usize {
            extra.insert(512 + i * (len - 512) / 256);
        }
        // ends of chunks are the interesting cut points of chunked files
        if let Layout::Chunked { start, nested, .. } = &seed.layout {
            let mut chunks = Vec::new();
            walk_chunks(&seed.bytes, *start, len, nested, 0, &mut chunks);
            for c in subsample(&chunks, 96) {
                for p in [c.off, c.off + 4, c.off + 7, c.off + 8, c.off + 9] {
                    if p < len && p >= 512 {
                        extra.insert(p);
                    }
                }
            }
        }
        extra.insert(len - 1);
        out.extend(extra.into_iter().map(Mut::Prefix));
    }
    out
}

pub fn chunk_mutants(seed: &Seed) -> Vec<Mut> {
    let Layout::Chunked { start, nested, .. } = &seed.layout else { return vec![] };
    let mut chunks = Vec::new();
    walk_chunks(&seed.bytes, *start, seed.bytes.len(), nested, 0, &mut chunks);
    // keep every distinct magic (first two instances) + a spread of the repeated ones
    let mut seen: BTreeMap<[u8; 4], usize> = BTreeMap::new();
    let mut pick: Vec<Chunk> = Vec::new();
    let mut rest: Vec<Chunk> = Vec::new();
    for c in &chunks {
        let n = seen.entry(c.magic).or_insert(0);
        *n += 1;
        if *n <= 2 { pick.push(c.clone()) } else { rest.push(c.clone()) }
    }
    pick.extend(subsample(&rest, 12));
    pick.sort_by_key(|c| c.off);
    let mut out = Vec::new();
    for (i, c) in pick.iter().enumerate() {
        for op in ["delete", "duplicate", "to-end", "to-front", "size+1", "size-1", "size=max", "size=0", "size=rest+1", "size=2^31", "truncate-payload", "empty-payload", "magic-flip",
                   "unknown+size=2^31", "unknown+size=-8", "unknown+size=-1", "unknown+size=-here", "size=-8"] {
            out.push(Mut::Chunk { op, off: c.off, other: 0 });
        }
        // reorder: swap with the next sibling and with the last picked chunk of the same depth
        let (_, end) = chunk_span(&seed.bytes, c.off);
        if let Some(n) = pick.iter().skip(i + 1).find(|n| n.depth == c.depth && n.off >= end) {
            out.push(Mut::Chunk { op: "swap", off: c.off, other: n.off });
        }
        if let Some(n) = pick.iter().rev().find(|n| n.depth == c.depth && n.off >= end) {
            out.push(Mut::Chunk { op: "swap", off: c.off, other: n.off });
        }
    }
    out
}

// -------------------------------------------------------- shared memory ----

const SHM_WORDS: usize = 1024;
const S_K: usize = 0;
const S_ENTRY: usize = 1;
const S_SEQ: usize = 2;
const S_DONE: usize = 3;
const S_MAXREQ: usize = 4;
const S_INCALL: usize = 5;
const S_BASE: usize = 16;
const OUTCOMES: &[&str] = &["calls", "ok", "err", "panic", "alloc", "slow"];
const O_CALLS: usize = 0;
const O_OK: usize = 1;
const O_ERR: usize = 2;
const O_PANIC: usize = 3;
const O_ALLOC: usize = 4;
const O_SLOW: usize = 5;
const O_STRIDE: usize = 8;

pub struct Shm {
    w: &'static [AtomicU64],
}

impl Shm {
    pub fn new() -> Shm {
        let p = unsafe { sys::mmap(std::ptr::null_mut(), SHM_WORDS * 8, sys::PROT_RW, sys::MAP_SHARED_ANON, -1, 0) };
        if p as isize == -1 || p.is_null() {
            eprintln!("mmap failed");
            std::process::exit(2);
        }
        let w = unsafe { std::slice::from_raw_parts(p as *const AtomicU64, SHM_WORDS) };
        Shm { w }
    }
    fn zero(&self) {
        for a in self.w {
            a.store(0, Relaxed);
        }
    }
    fn get(&self, i: usize) -> u64 {
        self.w[i].load(Relaxed)
    }
    fn set(&self, i: usize, v: u64) {
        self.w[i].store(v, Relaxed)
    }
    fn add(&self, i: usize, v: u64) {
        self.w[i].fetch_add(v, Relaxed);
    }
    fn outcome(&self, entry: usize, o: usize) {
        let i = S_BASE + entry * O_STRIDE + o;
        if i < SHM_WORDS {
            self.add(i, 1);
        }
    }
}

// ------------------------------------------------------------ signatures ----
// One signature per defect *site*: (kind | format family | in-repo site [+ normalised message]). The entry point through
// which a site was reached is recorded in the witness, not in the signature — the same unchecked `vec![0; n]` is reached
// through open, list and read_file alike, and a finding must not split (or look "new") because a different seed happened
// to reach it through another door. Only when no site is known does the entry point stand in for it.

fn site_or<'a>(site: &'a str, entry: &'a str) -> &'a str {
    if site.is_empty() || site == "?" { entry } else { site }
}
pub fn sig_alloc_single(family: &str, entry: &str, site: &str) -> String {
    format!("alloc|{family}|single-request>=256MiB|{}", site_or(site, entry))
}
pub fn sig_alloc_growth(family: &str, entry: &str) -> String {
    format!("alloc|{family}|growth>=512MiB|{entry}")
}
pub fn sig_panic(family: &str, entry: &str, p: &vh_common::PanicInfo) -> String {
    if p.func.is_empty() { format!("panic|{family}|{entry}|{}", p.sig()) } else { format!("panic|{family}|{}", p.sig()) }
}
pub fn sig_crash(family: &str, entry: &str, kind: &str, site: &str) -> String {
    format!("crash|{kind}|{family}|{}", site_or(site, entry))
}
pub fn sig_hang(family: &str, entry: &str, site: &str) -> String {
    format!("hang|{family}|{}", site_or(site, entry))
}

// ---------------------------------------------------------------- probe ----

/// Handed to a format's `drive` function: wraps every entry-point call with the monitors.
pub struct Probe<'a> {
    fmt: &'static str,
    family: &'static str,
    entries: &'static [&'static str],
    shm: &'a Shm,
    fd: i32,
    k: usize,
    seed_label: String,
    mdesc: Value,
    case_idx: u64,
    variants_sent: BTreeSet<(usize, String)>,
    sigs_sent: BTreeSet<String>,
    /// Directory for files the driver must materialise (MPQ archives). Removed with the run's scratch.
    pub scratch: PathBuf,
    /// true when every call of the current mutant returned Ok
    pub all_ok: bool,
    /// the driver's own judgement "the seed did what a valid file does" (defaults to `all_ok`); set by drivers whose
    /// call list contains calls that fail by design on a valid file (negative lookups)
    pub seed_valid: Option<bool>,
}

impl<'a> Probe<'a> {
    /// A probe outside the forked batch engine (fuzz targets): same call wrappers, nothing is reported anywhere —
    /// the fuzzing stage only *generates* inputs, every input it keeps is judged later by the native worker.
    pub fn standalone(fmt: &FormatDef, shm: &'a Shm, scratch: PathBuf) -> Probe<'a> {
        Probe {
            fmt: fmt.name, family: fmt.family, entries: fmt.entries, shm, fd: -1, k: 0, seed_label: String::from("fuzz"), mdesc: Value::Null,
            case_idx: 0, variants_sent: BTreeSet::new(), sigs_sent: BTreeSet::new(), scratch, all_ok: true, seed_valid: None,
        }
    }
    fn send(&self, v: &Value) {
        let line = format!("{}\n", v);
        raw_write(self.fd, line.as_bytes());
    }
    fn entry_index(&self, entry: &str) -> usize {
        self.entries.iter().position(|e| *e == entry).unwrap_or_else(|| {
            self.send(&json!({"t": "harness", "msg": format!("entry point {entry} missing from the format's entry list")}));
            self.entries.len()
        })
    }
    fn violate(&mut self, ei: usize, sig: String, what: String, extra: Value) {
        if !self.sigs_sent.insert(sig.clone()) {
            return;
        }
        let entry = self.entries.get(ei).copied().unwrap_or("?");
        let detail = json!({"format": self.fmt, "entry": entry, "seed": self.seed_label, "mutation": self.mdesc, "case": self.case_idx, "mutant": self.k, "info": extra});
        self.send(&json!({"t": "viol", "sig": sig, "what": what, "detail": detail}));
    }

    /// Call a fallible entry point. Returns the value on Ok so the driver can go on ("driven to completion").
    pub fn call<T, E: std::fmt::Debug>(&mut self, entry: &'static str, f: impl FnOnce() -> Result<T, E>) -> Option<T> {
        match self.guarded(entry, f) {
            Some((Ok(v), _)) => Some(v),
            Some((Err(e), ei)) => {
                self.all_ok = false;
                self.shm.outcome(ei, O_ERR);
                let dbg = format!("{e:?}");
                let var: String = dbg.chars().take_while(|c| c.is_ascii_alphanumeric() || *c == '_' || *c == ':').take(48).collect();
                let var = if var.is_empty() { "<unnamed>".to_string() } else { var };
                if self.variants_sent.insert((ei, var.clone())) {
                    self.send(&json!({"t": "var", "entry": entry, "v": var}));
                }
                None
            }
            None => None,
        }
    }

    /// Call an infallible entry point (returns a plain value).
    pub fn call_plain<T>(&mut self, entry: &'static str, f: impl FnOnce() -> T) -> Option<T> {
        self.guarded(entry, || Ok::<T, ()>(f())).and_then(|(r, _)| r.ok())
    }

    fn guarded<T, E>(&mut self, entry: &'static str, f: impl FnOnce() -> Result<T, E>) -> Option<(Result<T, E>, usize)> {
        let ei = self.entry_index(entry);
        self.shm.set(S_K, self.k as u64);
        self.shm.set(S_ENTRY, ei as u64);
        self.shm.add(S_SEQ, 1);
        self.shm.outcome(ei, O_CALLS);
        if let Ok(mut g) = BIG_SITE.lock() {
            *g = None;
        }
        let base = valloc::reset();
        self.shm.set(S_INCALL, 1);
        ARMED.store(true, Relaxed);
        let t0 = Instant::now();
        let r = trap(f);
        let dt = t0.elapsed();
        ARMED.store(false, Relaxed);
        self.shm.set(S_INCALL, 0);
        let snap = valloc::snapshot();
        let refused = valloc::was_refused();
        if (snap.max_req as u64) > self.shm.get(S_MAXREQ) {
            self.shm.set(S_MAXREQ, snap.max_req as u64);
        }
        let mut out = None;
        let mut alloc_flagged = false;
        match r {
            Ok(Ok(v)) => {
                self.shm.outcome(ei, O_OK);
                out = Some((Ok(v), ei));
            }
            Ok(Err(e)) => out = Some((Err(e), ei)),
            Err(p) => {
                self.all_ok = false;
                if p.msg.contains("capacity overflow") {
                    // Vec/RawVec asked for more than isize::MAX bytes: a memory request out of proportion, reported
                    // under the allocation clause with the same site spelling as a refused request
                    alloc_flagged = true;
                    self.shm.outcome(ei, O_ALLOC);
                    self.violate(ei, sig_alloc_single(self.family, entry, &p.func),
                                 format!("{entry}: capacity overflow (request > isize::MAX bytes) at {}", p.func), json!({"panic": p.msg, "file": p.file}));
                } else {
                    self.shm.outcome(ei, O_PANIC);
                    self.violate(ei, sig_panic(self.family, entry, &p),
                                 format!("{entry} panicked: {} ({})", p.msg.chars().take(200).collect::<String>(), p.func), json!({"file": p.file, "func": p.func}));
                }
            }
        }
        if snap.max_req >= BIG && !alloc_flagged {
            self.all_ok = false;
            let site = BIG_SITE.lock().ok().and_then(|g| g.clone()).map(|x| x.0).unwrap_or_else(|| "?".into());
            self.shm.outcome(ei, O_ALLOC);
            self.violate(ei, sig_alloc_single(self.family, entry, &site),
                         format!("{entry}: single heap request of {} bytes for an input of <= 4 MiB (at {site})", snap.max_req),
                         json!({"max_request": snap.max_req, "refused_by_monitor": refused, "aborted": false}));
        }
        let growth = snap.peak.saturating_sub(base.live);
        if growth >= GROWTH {
            self.all_ok = false;
            self.shm.outcome(ei, O_ALLOC);
            self.violate(ei, sig_alloc_growth(self.family, entry),
                         format!("{entry}: live heap grew by {growth} bytes during the call (input <= 4 MiB)"), json!({"growth": growth, "requests": snap.n_alloc}));
        }
        if dt > SOFT_BUDGET {
            self.shm.outcome(ei, O_SLOW);
            self.send(&json!({"t": "slow", "entry": entry, "ms": dt.as_millis() as u64, "seed": self.seed_label, "mutation": self.mdesc}));
        }
        out
    }
}

// ----------------------------------------------------------- batch run ----

#[derive(Default)]
pub struct FormatTotals {
    pub variants: BTreeMap<String, BTreeSet<String>>, // entry -> error variants
    pub max_req: u64,
    pub slow: Vec<Value>,
    pub confirmed_hangs: BTreeSet<String>,
    /// hang violations recorded for this format in this worker process (see the cut-offs in `run_batch`)
    pub hang_violations: u32,
}

/// A tree in which a reader loops forever makes *every* mutant that reaches the loop cost the hard budget plus a stack
/// dump. Once the verdict is established the remaining mutants add nothing but hours: a batch ends after this many hang
/// violations of its own, ...
const HANGS_PER_BATCH: u32 = 3;
/// ... and after this many in the worker process the format's later batches are not started (reported as inconclusive
/// `stopped-after-confirmed-hangs`, next to the violations, never instead of them). No hang violation, no cut-off.
const HANGS_PER_PROCESS: u32 = 9;

enum SliceEnd {
    Finished,
    Died { status: i32, k: usize, entry: usize, in_call: bool },
    Hung { k: usize, entry: usize, site: String },
}

struct SliceOut {
    end: SliceEnd,
    msgs: Vec<Value>,
    stderr: String,
}

fn decode_status(status: i32) -> (Option<i32>, Option<i32>) {
    let low = status & 0x7f;
    if low == 0 { (Some((status >> 8) & 0xff), None) } else { (None, Some(low)) }
}

/// Name the abort class from the wait status and the child's stderr banner (mirrors sup.classify_exit).
fn classify_death(status: i32, stderr: &str) -> String {
    let (code, sig) = decode_status(status);
    if let Some(c) = code {
        return format!("exit-{c}");
    }
    let t = stderr;
    if t.contains("stack overflow") || t.contains("overflowed its stack") {
        return "stack-overflow".into();
    }
    if t.contains("memory allocation of") {
        return "alloc-abort".into();
    }
    if t.contains("capacity overflow") {
        return "capacity-overflow-abort".into();
    }
    if t.contains("cannot unwind") || t.contains("panic in a destructor") {
        return "abort-nounwind-panic".into();
    }
    match sig.unwrap_or(0) {
        11 => "SIGSEGV".into(),
        6 => "SIGABRT".into(),
        7 => "SIGBUS".into(),
        4 => "SIGILL".into(),
        8 => "SIGFPE".into(),
        9 => "SIGKILL".into(),
        s => format!("SIG{s}"),
    }
}

/// Where is the hung child? First frame (innermost) whose source file belongs to the tree under test, spelled like the
/// panic / allocation sites: "<crate>/<file under src>:<function>". Empty string if gdb is unavailable.
fn gdb_site(pid: i32) -> String {
    let out = std::process::Command::new("timeout")
        .args(["20", "gdb", "-p", &pid.to_string(), "-batch", "-ex", "set filename-display absolute", "-ex", "bt 60"])
        .stdin(std::process::Stdio::null())
        .stderr(std::process::Stdio::null())
        .output();
    let Ok(out) = out else { return "?".into() };
    let text = String::from_utf8_lossy(&out.stdout);
    for l in text.lines() {
        if !l.starts_with('#') {
            continue;
        }
        let Some((head, path)) = l.rsplit_once(" at ") else { continue };
        let in_tree = ["/file-formats/", "/ffi/storm-ffi/"].iter().filter_map(|m| path.find(m)).min();
        if let Some(pos) = in_tree.filter(|_| !path.contains("/registry/src/")) {
            let rel = &path[pos + 1..];
            let file = rel.split(':').next().unwrap_or(rel);
            let short = file.rsplit("/src/").next().unwrap_or(file);
            let krate = file.split("/src/").next().unwrap_or("").rsplit('/').next().unwrap_or("");
            // "#5  0x... in func<...> (args) " or "#5  func (args)"
            let h = head.split_once(" in ").map(|x| x.1).unwrap_or_else(|| head.splitn(2, "  ").nth(1).unwrap_or(head));
            let func = h.trim().split(" (").next().unwrap_or("").trim();
            return format!("{krate}/{short}:{}", clean_sym(func));
        }
    }
    "?".into()
}

#[allow(clippy::too_many_arguments)]
fn run_slice(fmt: &FormatDef, seed: &Seed, muts: &[(usize, &Mut)], verif_seed: u64, case_idx: u64, shm: &Shm, scratch: &PathBuf, budget: Duration) -> SliceOut {
    let mut fds = [0i32; 2];
    if unsafe { sys::pipe(fds.as_mut_ptr()) } != 0 {
        eprintln!("pipe failed");
        std::process::exit(2);
    }
    let errpath = scratch.join("c05-child-stderr.txt");
    let _ = std::fs::write(&errpath, b"");
    shm.set(S_INCALL, 0);
    let pid = unsafe { sys::fork() };
    if pid < 0 {
        eprintln!("fork failed");
        std::process::exit(2);
    }
    if pid == 0 {
        // ---- child
        unsafe {
            sys::prctl(sys::PR_SET_PDEATHSIG, sys::SIGKILL as u64);
            sys::close(fds[0]);
        }
        if let Ok(f) = std::fs::OpenOptions::new().append(true).open(&errpath) {
            use std::os::fd::IntoRawFd;
            let fd = f.into_raw_fd();
            unsafe { sys::dup2(fd, 2) };
        }
        MSG_FD.store(fds[1], Relaxed);
        valloc::set_refuse_at(REFUSE);
        let r = trap(|| {
            let mut p = Probe {
                fmt: fmt.name, family: fmt.family, entries: fmt.entries, shm, fd: fds[1], k: 0, seed_label: seed.label.clone(), mdesc: Value::Null,
                case_idx, variants_sent: BTreeSet::new(), sigs_sent: BTreeSet::new(), scratch: scratch.clone(), all_ok: true, seed_valid: None,
            };
            for (k, m) in muts {
                let bytes = apply(fmt, seed, m, verif_seed);
                let blob_seed;
                let seed = match m {
                    Mut::Blob { bytes: b, .. } => {
                        blob_seed = Seed::new(seed.label.clone(), Vec::new(), Layout::Fixed { regions: vec![] }).with_aux(blob_split(b).1);
                        &blob_seed
                    }
                    _ => seed,
                };
                p.k = *k;
                p.mdesc = m.describe();
                p.all_ok = true;
                p.seed_valid = None;
                shm.set(S_K, *k as u64);
                (fmt.drive)(seed, &bytes, &mut p);
                shm.add(S_DONE, 1);
                if matches!(m, Mut::Identity) {
                    p.send(&json!({"t": "identity", "ok": p.seed_valid.unwrap_or(p.all_ok)}));
                }
            }
        });
        let code = match r {
            Ok(()) => 0,
            Err(pi) => {
                let line = format!("{}\n", json!({"t": "harness", "msg": format!("harness panic in child: {} @ {}", pi.msg, pi.func)}));
                raw_write(fds[1], line.as_bytes());
                3
            }
        };
        unsafe { sys::_exit(code) }
    }
    // ---- parent
    unsafe { sys::close(fds[1]) };
    let mut buf: Vec<u8> = Vec::new();
    let mut tmp = [0u8; 65536];
    let mut last_seq = shm.get(S_SEQ);
    let mut last_change = Instant::now();
    let mut status = 0i32;
    let mut eof = false;
    let end;
    loop {
        if !eof {
            let mut pfd = sys::PollFd { fd: fds[0], events: sys::POLLIN, revents: 0 };
            let pr = unsafe { sys::poll(&mut pfd, 1, 20) };
            if pr > 0 {
                let n = unsafe { sys::read(fds[0], tmp.as_mut_ptr() as *mut _, tmp.len()) };
                if n > 0 {
                    buf.extend_from_slice(&tmp[..n as usize]);
                    continue;
                } else if n == 0 {
                    eof = true;
                }
            }
        } else {
            std::thread::sleep(Duration::from_millis(2));
        }
        let w = unsafe { sys::waitpid(pid, &mut status, sys::WNOHANG) };
        if w == pid {
            // drain what is left in the pipe
            loop {
                let n = unsafe { sys::read(fds[0], tmp.as_mut_ptr() as *mut _, tmp.len()) };
                if n > 0 { buf.extend_from_slice(&tmp[..n as usize]) } else { break }
            }
            let (code, _) = decode_status(status);
            end = if code == Some(0) {
                SliceEnd::Finished
            } else {
                SliceEnd::Died { status, k: shm.get(S_K) as usize, entry: shm.get(S_ENTRY) as usize, in_call: shm.get(S_INCALL) == 1 }
            };
            break;
        }
        let seq = shm.get(S_SEQ) + shm.get(S_DONE);
        if seq != last_seq {
            last_seq = seq;
            last_change = Instant::now();
        } else if last_change.elapsed() > budget {
            let hang_site = gdb_site(pid);
            unsafe {
                sys::kill(pid, sys::SIGKILL);
                sys::waitpid(pid, &mut status, 0);
            }
            end = SliceEnd::Hung { k: shm.get(S_K) as usize, entry: shm.get(S_ENTRY) as usize, site: hang_site };
            break;
        }
    }
    unsafe { sys::close(fds[0]) };
    let msgs = String::from_utf8_lossy(&buf).lines().filter_map(|l| serde_json::from_str::<Value>(l).ok()).collect();
    let stderr = std::fs::read(&errpath).map(|b| String::from_utf8_lossy(&b).into_owned()).unwrap_or_default();
    // keep the banner (first lines) and the end; enough to classify and to show in a witness
    let stderr = if stderr.len() > 1600 {
        let head: String = stderr.chars().take(600).collect();
        let tail: String = stderr.chars().rev().take(900).collect::<Vec<_>>().into_iter().rev().collect();
        format!("{head}\n[...]\n{tail}")
    } else {
        stderr
    };
    SliceOut { end, msgs, stderr }
}

/// Execute `muts` (already restricted by --mutant if replaying) of one (format, seed, kind) batch inside run.case.
pub fn run_batch(c: &mut Case, fmt: &FormatDef, seed: &Seed, muts: &[(usize, &Mut)], verif_seed: u64, shm: &Shm, scratch: &PathBuf, totals: &mut FormatTotals) {
    shm.zero();
    let f = fmt.name;
    let fam = fmt.family;
    let mut pos = 0usize;
    let mut restarts = 0u32;
    let mut batch_hangs = 0u32;
    if totals.hang_violations >= HANGS_PER_PROCESS {
        c.count(&format!("{f}|mutants_not_run_after_hang_storm"), muts.len() as u64);
        c.inconclusive("stopped-after-confirmed-hangs");
        return;
    }
    while pos < muts.len() {
        if batch_hangs >= HANGS_PER_BATCH || totals.hang_violations >= HANGS_PER_PROCESS {
            c.count(&format!("{f}|mutants_not_run_after_hang_storm"), (muts.len() - pos) as u64);
            c.note(json!({"stopped_after_confirmed_hangs": {"batch_hangs": batch_hangs, "process_hangs": totals.hang_violations, "mutants_not_run": muts.len() - pos}}));
            break;
        }
        let so = run_slice(fmt, seed, &muts[pos..], verif_seed, c.idx, shm, scratch, HARD_BUDGET);
        let mut big: Option<(String, u64)> = None;
        for m in &so.msgs {
            match m["t"].as_str().unwrap_or("") {
                "viol" => c.violate(m["sig"].as_str().unwrap_or("?"), m["what"].as_str().unwrap_or(""), m["detail"].clone()),
                "var" => {
                    totals.variants.entry(m["entry"].as_str().unwrap_or("?").to_string()).or_default().insert(m["v"].as_str().unwrap_or("?").to_string());
                }
                "big" => big = Some((m["site"].as_str().unwrap_or("?").to_string(), m["size"].as_u64().unwrap_or(0))),
                "slow" => {
                    c.count(&format!("{f}|slow_calls"), 1);
                    if totals.slow.len() < 8 {
                        totals.slow.push(m.clone());
                    }
                    c.note(json!({"slow": m}));
                }
                "identity" => {
                    c.count(&format!("{f}|seeds_identity_run"), 1);
                    if m["ok"].as_bool() == Some(true) {
                        c.count(&format!("{f}|seeds_identity_all_ok"), 1);
                    } else {
                        c.note(json!({"seed_not_fully_ok": seed.label}));
                    }
                }
                "harness" => {
                    c.note(json!({"harness": m["msg"]}));
                    c.inconclusive(format!("harness-problem:{}", m["msg"].as_str().unwrap_or("?").chars().take(80).collect::<String>()));
                }
                _ => {}
            }
        }
        let locate = |k: usize| muts.iter().position(|(kk, _)| *kk == k);
        match so.end {
            SliceEnd::Finished => break,
            SliceEnd::Died { status, k, entry, in_call } => {
                let kind = classify_death(status, &so.stderr);
                let ename = fmt.entries.get(entry).copied().unwrap_or("?");
                let mpos = locate(k).unwrap_or(pos);
                let mdesc = muts[mpos].1.describe();
                let detail = json!({"format": f, "entry": ename, "seed": seed.label, "mutation": mdesc, "case": c.idx, "mutant": k, "death": kind, "stderr": so.stderr, "in_library_call": in_call});
                c.count(&format!("{f}|outcome|child-died"), 1);
                if kind == "exit-3" || !in_call {
                    // died outside a library call: the harness's own problem, never a verdict about the code under test
                    c.inconclusive(format!("harness-child-died-outside-call:{kind}"));
                    c.note(detail);
                } else if kind == "alloc-abort" || (kind == "SIGABRT" && big.is_some()) {
                    let (site, size) = big.clone().unwrap_or(("?".into(), 0));
                    c.count(&format!("{f}|outcome|alloc"), 1);
                    c.violate(sig_alloc_single(fam, ename, &site),
                              format!("{ename}: single heap request of {size} bytes for an input of <= 4 MiB (at {site}); the request was refused by the monitor and the process aborted"),
                              json!({"max_request": size, "aborted": true, "d": detail}));
                    if size > totals.max_req {
                        totals.max_req = size;
                    }
                } else {
                    // find a panic location in the banner, if any (abort in no-unwind context prints one)
                    let site = so.stderr.lines().rev().find(|l| l.contains("panicked at")).map(|l| {
                        let loc = l.split("panicked at").nth(1).unwrap_or("").trim().trim_end_matches(':');
                        let loc = loc.rsplitn(3, ':').last().unwrap_or(loc);
                        let loc = ["/file-formats/", "/ffi/", "/registry/src/"].iter().filter_map(|m| loc.find(m).map(|p| &loc[p + 1..])).next().unwrap_or(loc);
                        loc.to_string()
                    }).unwrap_or_default();
                    c.violate(sig_crash(fam, ename, &kind, &site),
                              format!("{ename}: process died ({kind}) while parsing a mutant of {}", seed.label), detail);
                }
                pos = mpos + 1;
            }
            SliceEnd::Hung { k, entry, site } => {
                let ename = fmt.entries.get(entry).copied().unwrap_or("?");
                let mpos = locate(k).unwrap_or(pos);
                let mdesc = muts[mpos].1.describe();
                let sig = sig_hang(fam, ename, &site);
                if totals.confirmed_hangs.contains(&sig) {
                    // the same loop at the same site has already been confirmed with the 4x budget in this process
                    c.count(&format!("{f}|outcome|hang"), 1);
                    batch_hangs += 1;
                    totals.hang_violations += 1;
                    c.violate(sig, format!("{ename} did not return within {} s at {site} (site already confirmed as non-terminating in this run)", HARD_BUDGET.as_secs()),
                              json!({"format": f, "entry": ename, "seed": seed.label, "mutation": mdesc, "case": c.idx, "mutant": k, "reconfirmed": false}));
                } else {
                    // confirmation: the single mutant alone, 4x budget
                    let again = run_slice(fmt, seed, &muts[mpos..mpos + 1], verif_seed, c.idx, shm, scratch, HARD_BUDGET * 4);
                    match again.end {
                        SliceEnd::Hung { site: site2, .. } => {
                            let sig = sig_hang(fam, ename, &site2);
                            c.count(&format!("{f}|outcome|hang"), 1);
                            batch_hangs += 1;
                            totals.hang_violations += 1;
                            totals.confirmed_hangs.insert(sig.clone());
                            c.violate(sig, format!("{ename} did not return within {} s at {site2} (confirmed alone with a 4x budget)", HARD_BUDGET.as_secs() * 4),
                                      json!({"format": f, "entry": ename, "seed": seed.label, "mutation": mdesc, "case": c.idx, "mutant": k, "reconfirmed": true}));
                        }
                        _ => {
                            c.count(&format!("{f}|watchdog_fired_once"), 1);
                            c.inconclusive("watchdog-fired-once");
                            c.note(json!({"watchdog_fired_once": {"seed": seed.label, "mutation": mdesc, "entry": ename, "site": site}}));
                        }
                    }
                }
                pos = mpos + 1;
            }
        }
        restarts += 1;
        if restarts > 2000 {
            c.inconclusive("too-many-child-restarts");
            break;
        }
    }
    // counters from shared memory
    let done = shm.get(S_DONE);
    c.count(&format!("{f}|mutants_executed"), done);
    c.count("mutants_executed", done);
    let mut kinds: BTreeMap<&'static str, u64> = BTreeMap::new();
    for (_, m) in muts {
        *kinds.entry(m.kind()).or_insert(0) += 1;
    }
    for (k, n) in kinds {
        c.count(&format!("{f}|mutants|{k}"), n);
    }
    for (ei, e) in fmt.entries.iter().enumerate() {
        for (oi, o) in OUTCOMES.iter().enumerate() {
            let v = shm.get(S_BASE + ei * O_STRIDE + oi);
            if v > 0 {
                if oi == O_CALLS {
                    c.count(&format!("{f}|calls|{e}"), v);
                    c.count("entry_point_calls", v);
                } else {
                    c.count(&format!("{f}|outcome|{o}"), v);
                }
            }
        }
    }
    totals.max_req = totals.max_req.max(shm.get(S_MAXREQ));
    if restarts > 0 {
        c.count(&format!("{f}|child_restarts"), restarts as u64);
    }
}

// ------------------------------------------------------------ the plan ----

pub struct Batch {
    pub fmt: usize,
    pub seed: usize,
    pub kind: &'static str,
    pub first: usize,
    pub muts: Vec<Mut>,
}

pub const BATCH: usize = 400;

/// The whole case space of a worker: deterministic in (tier); only havoc *content* depends on VERIF_SEED.
pub fn plan(formats: &[FormatDef], seeds: &[Vec<Seed>], thorough: bool, havoc_quick: u64, havoc_thorough: u64) -> Vec<Batch> {
    plan_with_blobs(formats, seeds, thorough, havoc_quick, havoc_thorough, &[], false)
}

/// `blobs[fi]` = inputs of the fuzzing stage for format `fi` (file name, bytes incl. selector byte). With `blobs_only` the plan
/// consists of nothing else (the supervisor runs the fuzz stage as a pass of its own, after the deterministic plan).
pub fn plan_with_blobs(formats: &[FormatDef], seeds: &[Vec<Seed>], thorough: bool, havoc_quick: u64, havoc_thorough: u64, blobs: &[Vec<(String, Vec<u8>)>], blobs_only: bool) -> Vec<Batch> {
    let mut out = Vec::new();
    for (fi, _) in formats.iter().enumerate() {
        let (Some(bl), Some(ss)) = (blobs.get(fi), seeds.get(fi)) else { continue };
        if ss.is_empty() {
            continue;
        }
        let mut first = 0;
        for ch in bl.chunks(BATCH) {
            out.push(Batch { fmt: fi, seed: 0, kind: "fuzz", first, muts: ch.iter().map(|(n, b)| Mut::Blob { name: n.clone(), bytes: std::sync::Arc::new(b.clone()) }).collect() });
            first += ch.len();
        }
    }
    if blobs_only {
        return out;
    }
    for (fi, f) in formats.iter().enumerate() {
        let ss = &seeds[fi];
        if ss.is_empty() {
            continue;
        }
        for (si, s) in ss.iter().enumerate() {
            let maxo = if thorough { f.max_field_offsets.1 } else { f.max_field_offsets.0 };
            let offs = field_offsets(s, maxo, if thorough { 512 } else { 64 });
            for (kind, list) in [("prefix", prefix_mutants(s)), ("field", field_mutants(s, &offs)), ("chunk", chunk_mutants(s))] {
                let mut first = 0;
                for ch in list.chunks(BATCH) {
                    out.push(Batch { fmt: fi, seed: si, kind, first, muts: ch.to_vec() });
                    first += ch.len();
                }
            }
        }
        let total = ((if thorough { havoc_thorough } else { havoc_quick }) as f64 * f.havoc_scale) as u64;
        let per_seed = total.div_ceil(ss.len() as u64);
        for (si, _) in ss.iter().enumerate() {
            let mut n = 0u64;
            while n < per_seed {
                let cnt = (per_seed - n).min(BATCH as u64);
                out.push(Batch { fmt: fi, seed: si, kind: "havoc", first: n as usize, muts: (n..n + cnt).map(Mut::Havoc).collect() });
                n += cnt;
            }
        }
    }
    out
}

// ------------------------------------------------- seeds, out of process ----

fn seed_to_json(s: &Seed) -> Value {
    let layout = match &s.layout {
        Layout::Fixed { regions } => json!({"fixed": regions}),
        Layout::Chunked { start, nested, payload_scan } => json!({"chunked": {"start": start, "scan": payload_scan, "nested": nested.iter().map(|(m, l)| json!([m.to_vec(), l])).collect::<Vec<_>>()}}),
    };
    json!({"label": s.label, "bytes": vh_common::hex(&s.bytes), "layout": layout, "aux": s.aux, "wide": s.wide_fields, "u32f": s.u32_fields,
           "crypt": s.crypt.iter().map(|c| json!([c.start, c.len, c.key])).collect::<Vec<_>>()})
}

fn seed_from_json(v: &Value) -> Option<Seed> {
    let us = |x: &Value| x.as_u64().unwrap_or(0) as usize;
    let layout = if let Some(r) = v["layout"]["fixed"].as_array() {
        Layout::Fixed { regions: r.iter().map(|p| (us(&p[0]), us(&p[1]))).collect() }
    } else {
        let c = &v["layout"]["chunked"];
        let nested = c["nested"].as_array().map(|a| {
            a.iter().map(|e| {
                let mut m = [0u8; 4];
                for (i, b) in e[0].as_array().into_iter().flatten().take(4).enumerate() {
                    m[i] = b.as_u64().unwrap_or(0) as u8;
                }
                (m, us(&e[1]))
            }).collect()
        }).unwrap_or_default();
        Layout::Chunked { start: us(&c["start"]), nested, payload_scan: us(&c["scan"]) }
    };
    Some(Seed {
        label: v["label"].as_str()?.to_string(),
        bytes: vh_common::unhex(v["bytes"].as_str()?),
        layout,
        aux: us(&v["aux"]),
        wide_fields: v["wide"].as_array().map(|a| a.iter().map(us).collect()).unwrap_or_default(),
        u32_fields: v["u32f"].as_array().map(|a| a.iter().map(us).collect()).unwrap_or_default(),
        crypt: v["crypt"].as_array().map(|a| a.iter().map(|c| CryptRegion { start: us(&c[0]), len: us(&c[1]), key: c[2].as_u64().unwrap_or(0) as u32 }).collect()).unwrap_or_default(),
    })
}

/// Seeds are produced by the library's own writers, some of which start thread pools (rayon inside the image / DXT
/// codecs). A process that has threads must not fork workers (the children would wait forever for pool threads that
/// do not exist in them), so the writers run in a child of their own and only the bytes come back.
fn seeds_in_child(f: &FormatDef, ctx: &SeedCtx) -> Result<Vec<Seed>, String> {
    let mut fds = [0i32; 2];
    if unsafe { sys::pipe(fds.as_mut_ptr()) } != 0 {
        return Err("pipe failed".into());
    }
    let pid = unsafe { sys::fork() };
    if pid < 0 {
        return Err("fork failed".into());
    }
    if pid == 0 {
        unsafe {
            sys::prctl(sys::PR_SET_PDEATHSIG, sys::SIGKILL as u64);
            sys::close(fds[0]);
        }
        let out = match trap(|| (f.seeds)(ctx)) {
            Ok(v) => json!({"ok": v.iter().map(seed_to_json).collect::<Vec<_>>()}),
            Err(p) => json!({"err": format!("seed writer panicked: {} @ {}", p.msg, p.func)}),
        };
        raw_write(fds[1], out.to_string().as_bytes());
        unsafe { sys::_exit(0) }
    }
    unsafe { sys::close(fds[1]) };
    let mut buf = Vec::new();
    let mut tmp = [0u8; 65536];
    loop {
        let n = unsafe { sys::read(fds[0], tmp.as_mut_ptr() as *mut _, tmp.len()) };
        if n > 0 { buf.extend_from_slice(&tmp[..n as usize]) } else { break }
    }
    let mut status = 0i32;
    unsafe {
        sys::close(fds[0]);
        sys::waitpid(pid, &mut status, 0);
    }
    let v: Value = serde_json::from_slice(&buf).map_err(|e| format!("seed child died (status {status}): {e}"))?;
    if let Some(e) = v["err"].as_str() {
        return Err(e.to_string());
    }
    Ok(v["ok"].as_array().map(|a| a.iter().filter_map(seed_from_json).collect()).unwrap_or_default())
}

/// Standard main loop of a C05 worker.
pub fn worker_main(formats: Vec<FormatDef>, havoc_quick: u64, havoc_thorough: u64) {
    // no default-hook / OOM-handler backtraces in the children (the banner line is what classifies a death)
    unsafe { std::env::set_var("RUST_BACKTRACE", "0") };
    let mut run = Run::new();
    // load the symbol tables once in the parent: forked children inherit the cache
    let _ = site_from_backtrace();
    let thorough = run.args.thorough();
    let scratch = PathBuf::from(&run.args.scratch);
    let _ = std::fs::create_dir_all(&scratch);
    let ctx = SeedCtx { scratch: scratch.clone(), seeds_dir: run.args.get("seeds-dir").map(PathBuf::from), thorough };
    let only_fmt = run.args.get("format").map(|s| s.to_string());
    let formats: Vec<FormatDef> = formats.into_iter().filter(|f| only_fmt.as_deref().map(|o| o == f.name).unwrap_or(true)).collect();
    // seeds are produced by the library's own writers: a writer that panics is a harness-visible event, not a C05 verdict
    let mut seeds: Vec<Vec<Seed>> = Vec::new();
    let mut seed_problems: Vec<String> = Vec::new();
    for f in &formats {
        match seeds_in_child(f, &ctx) {
            Ok(mut v) => {
                for s in &mut v {
                    s.bytes.truncate(MAX_INPUT);
                }
                v.retain(|s| !s.bytes.is_empty());
                // one sizeable variant per structure format: the same valid file followed by 1 MiB the format does not use (an
                // unknown trailing chunk / bytes behind the last array). Count and size fields of a file that really has a
                // megabyte behind them are where "bounded by what is left in the stream" pre-allocations stop being small.
                if matches!(f.name, "m2" | "skin" | "anim" | "adt" | "wmo-root" | "wmo-group" | "wdt" | "wdl") {
                    if let Some(base) = v.iter().find(|s| s.bytes.len() + (1 << 20) + 8 <= MAX_INPUT).cloned() {
                        let mut big = base;
                        let pad = (0..(1usize << 20)).map(|i| ((i * 7) % 251) as u8 | 1);
                        if matches!(big.layout, Layout::Chunked { .. }) {
                            big.bytes.extend_from_slice(b"ZZPD");
                            big.bytes.extend_from_slice(&(1u32 << 20).to_le_bytes());
                            big.label.push_str("+1MiB-unknown-tail-chunk");
                        } else {
                            big.label.push_str("+1MiB-tail");
                        }
                        big.bytes.extend(pad);
                        v.push(big);
                    }
                }
                seeds.push(v)
            }
            Err(why) => {
                seed_problems.push(format!("{}: {}", f.name, why));
                seeds.push(vec![]);
            }
        }
    }
    // `--dump-seeds <dir>`: write every seed as <dir>/<format>/<nn>-<label> (+ selector byte) — the initial corpus of the
    // fuzzing stage — and stop
    if let Some(dir) = run.args.get("dump-seeds") {
        for (fi, f) in formats.iter().enumerate() {
            let d = PathBuf::from(dir).join(f.name);
            let _ = std::fs::create_dir_all(&d);
            for (si, s) in seeds[fi].iter().enumerate() {
                let mut b = s.bytes.clone();
                b.push((s.aux % 8) as u8);
                let label: String = s.label.chars().map(|c| if c.is_ascii_alphanumeric() || c == '-' || c == '.' { c } else { '_' }).collect();
                let _ = std::fs::write(d.join(format!("{si:02}-{label}")), &b);
            }
        }
        return;
    }
    // `--blobs-dir <dir>`: inputs kept by the fuzzing stage, <dir>/<format>/*; `--blobs-only` drops the deterministic plan
    let mut blobs: Vec<Vec<(String, Vec<u8>)>> = Vec::new();
    if let Some(dir) = run.args.get("blobs-dir") {
        for f in &formats {
            let mut v: Vec<(String, Vec<u8>)> = Vec::new();
            if let Ok(rd) = std::fs::read_dir(PathBuf::from(dir).join(f.name)) {
                let mut names: Vec<PathBuf> = rd.filter_map(|e| e.ok().map(|e| e.path())).filter(|p| p.is_file()).collect();
                names.sort();
                for p in names {
                    if let Ok(b) = std::fs::read(&p) {
                        if b.len() <= MAX_INPUT + 1 {
                            v.push((p.file_name().map(|n| n.to_string_lossy().to_string()).unwrap_or_default(), b));
                        }
                    }
                }
            }
            blobs.push(v);
        }
    }
    let blobs_only = run.args.get("blobs-only").is_some();
    let mut batches = plan_with_blobs(&formats, &seeds, thorough, havoc_quick, havoc_thorough, &blobs, blobs_only);
    // witness replay: `--wseed <label> --wmut <json as printed in a witness>` runs exactly that mutant as case 0,
    // independent of the position the mutant has in the current plan
    // (`--wmut-file <path>` carries the same JSON in a file: a fuzz-stage input does not fit into one argv string)
    let wmut_text: Option<String> = run.args.get("wmut").map(|s| s.to_string()).or_else(|| run.args.get("wmut-file").and_then(|p| std::fs::read_to_string(p).ok()));
    if let (Some(label), Some(mj)) = (run.args.get("wseed"), wmut_text.as_deref()) {
        let m = serde_json::from_str::<Value>(mj).ok().and_then(|v| Mut::from_json(&v));
        let loc = seeds.iter().enumerate().find_map(|(fi, ss)| ss.iter().position(|s| s.label == label).map(|si| (fi, si)));
        batches = match (m, loc) {
            (Some(m), Some((fi, si))) => vec![Batch { fmt: fi, seed: si, kind: "witness", first: 0, muts: vec![m] }],
            _ => {
                eprintln!("c05: witness seed {label:?} or mutation {mj:?} not understood");
                vec![]
            }
        };
    }
    let only_mutant: Option<usize> = run.args.get("mutant").and_then(|s| s.parse().ok());
    let shm = Shm::new();
    let verif_seed = run.args.seed;
    let mut totals: Vec<FormatTotals> = formats.iter().map(|_| FormatTotals::default()).collect();
    if run.args.shard == 0 && run.args.only.is_none() {
        for (fi, f) in formats.iter().enumerate() {
            run.extra(&format!("seeds|{}", f.name), json!(seeds[fi].iter().map(|s| format!("{} ({} bytes)", s.label, s.bytes.len())).collect::<Vec<_>>()));
        }
        run.extra("planned_batches", json!(batches.len()));
        if !seed_problems.is_empty() {
            run.extra("seed_problems", json!(seed_problems));
        }
    }
    for (i, b) in batches.iter().enumerate() {
        let idx = i as u64;
        if !run.want(idx) {
            continue;
        }
        let f = &formats[b.fmt];
        let s = &seeds[b.fmt][b.seed];
        let class = format!("{}|{}|{}", f.name, s.label, b.kind);
        let desc = json!({"format": f.name, "seed": s.label, "seed_len": s.bytes.len(), "kind": b.kind, "first_mutant": b.first, "mutants": b.muts.len(),
                          "example": b.muts.get(b.muts.len() / 2).map(|m| m.describe())});
        let muts: Vec<(usize, &Mut)> = b.muts.iter().enumerate().filter(|(k, _)| only_mutant.map(|o| o == *k).unwrap_or(true)).collect();
        let t = &mut totals[b.fmt];
        run.case(idx, &class, desc, |c| {
            run_batch(c, f, s, &muts, verif_seed, &shm, &scratch, t);
        });
    }
    for (fi, f) in formats.iter().enumerate() {
        let t = &totals[fi];
        for (e, vs) in &t.variants {
            run.extra(&format!("error_variants|{}|{}", f.name, e), json!(vs.iter().collect::<Vec<_>>()));
        }
        if t.max_req > 0 {
            run.extra(&format!("max_single_request|{}", f.name), json!(t.max_req));
        }
        if !t.slow.is_empty() {
            run.extra(&format!("slow_calls|{}", f.name), json!(t.slow));
        }
    }
    run.done();
}
