//! C05 seeds + drivers: WDT and WDL (library writers; every list populated so that every chunk handler is reached).

use crate::c05_common::*;
use std::io::Cursor;

// ------------------------------------------------------------------ WDL ----

fn wdl_file(version: wow_wdl::WdlVersion, tiles: &[(u32, u32)], rich: bool) -> Vec<u8> {
    use wow_wdl::types::*;
    let mut f = wow_wdl::WdlFile::with_version(version);
    for (i, &(x, y)) in tiles.iter().enumerate() {
        let mut t = HeightMapTile::new();
        for (j, v) in t.outer_values.iter_mut().enumerate() {
            *v = ((i * 31 + j * 7) % 2000) as i16 - 1000;
        }
        for (j, v) in t.inner_values.iter_mut().enumerate() {
            *v = ((i * 17 + j * 3) % 500) as i16;
        }
        f.heightmap_tiles.insert((x, y), t);
        if version.has_maho_chunk() {
            let mut h = HolesData::new();
            h.set_hole(i % 16, (i * 3) % 16, true);
            f.holes_data.insert((x, y), h);
        }
    }
    if rich && version.has_wmo_chunks() {
        f.wmo_filenames = vec!["World\\wmo\\Azeroth\\Buildings\\Stormwind\\Stormwind.wmo".into(), "world/wmo/a.wmo".into()];
        f.wmo_indices = vec![0, 52];
        for i in 0..3u32 {
            f.wmo_placements.push(ModelPlacement {
                id: i,
                wmo_id: i % 2,
                position: Vec3d::new(1.0 + i as f32, 2.0, 3.0),
                rotation: Vec3d::new(0.0, 0.5, 0.0),
                bounds: BoundingBox::new(Vec3d::new(-1.0, -1.0, -1.0), Vec3d::new(1.0, 1.0, 1.0)),
                flags: 1,
                doodad_set: 0,
                name_set: 0,
                padding: 0,
            });
        }
    }
    if rich && version.has_ml_chunks() {
        for i in 0..3u32 {
            let p = M2Placement { id: i, m2_id: 1000 + i, position: Vec3d::new(1.0, 2.0, 3.0), rotation: Vec3d::new(0.0, 0.0, 0.0), scale: 1.0, flags: 0 };
            f.m2_placements.push(p.clone());
            f.wmo_legion_placements.push(p);
            let v = M2VisibilityInfo { bounds: BoundingBox::new(Vec3d::new(-1.0, -1.0, -1.0), Vec3d::new(1.0, 1.0, 1.0)), radius: 3.5 };
            f.m2_visibility.push(v.clone());
            f.wmo_legion_visibility.push(v);
        }
    }
    let mut cur = Cursor::new(Vec::new());
    let parser = wow_wdl::parser::WdlParser::with_version(version);
    parser.write(&mut cur, &f).expect("WDL writer failed on a valid object");
    cur.into_inner()
}

fn wdl_seeds(_ctx: &SeedCtx) -> Vec<Seed> {
    use wow_wdl::WdlVersion as V;
    let few: Vec<(u32, u32)> = vec![(0, 0), (31, 32), (63, 63)];
    let many: Vec<(u32, u32)> = (0..12).map(|i| (i * 5 % 64, i * 11 % 64)).collect();
    vec![
        Seed::chunked("wdl/vanilla-3tiles-wmo", wdl_file(V::Vanilla, &few, true)),
        Seed::chunked("wdl/wotlk-3tiles-holes-wmo", wdl_file(V::Wotlk, &few, true)),
        Seed::chunked("wdl/cata-12tiles", wdl_file(V::Cataclysm, &many, true)),
        Seed::chunked("wdl/legion-3tiles-ml", wdl_file(V::Legion, &few, true)),
        Seed::chunked("wdl/empty", wdl_file(V::Wotlk, &[], false)),
    ]
}

fn wdl_drive(_s: &Seed, data: &[u8], p: &mut Probe) {
    // default parser (version auto-detected) and an explicitly pinned one: the same public entry point, two configurations
    let f = p.call("WdlParser::parse", || wow_wdl::parser::WdlParser::new().parse(&mut Cursor::new(data)));
    if let Some(f) = f {
        p.call("WdlFile::validate", || f.validate());
    }
    p.call("WdlParser::parse", || wow_wdl::parser::WdlParser::with_version(wow_wdl::WdlVersion::Legion).parse(&mut Cursor::new(data)));
    p.seed_valid = Some(p.all_ok);
    // every other version pin (the pin decides which chunks the parser expects), and what a caller does with a parsed file:
    // convert it and write it again
    for v in [wow_wdl::WdlVersion::Vanilla, wow_wdl::WdlVersion::Wotlk, wow_wdl::WdlVersion::Cataclysm, wow_wdl::WdlVersion::Mop, wow_wdl::WdlVersion::Wod] {
        if let Some(f) = p.call("WdlParser::parse", || wow_wdl::parser::WdlParser::with_version(v).parse(&mut Cursor::new(data))) {
            if v == wow_wdl::WdlVersion::Wotlk {
                p.call("WdlFile::validate", || f.validate());
                if let Some(cv) = p.call("convert_wdl_file", || wow_wdl::conversion::convert_wdl_file(&f, wow_wdl::WdlVersion::Legion)) {
                    p.call("WdlParser::write", || wow_wdl::parser::WdlParser::with_version(wow_wdl::WdlVersion::Legion).write(&mut Cursor::new(Vec::new()), &cv));
                }
                p.call("WdlParser::write", || wow_wdl::parser::WdlParser::with_version(v).write(&mut Cursor::new(Vec::new()), &f));
            }
        }
    }
}

// ------------------------------------------------------------------ WDT ----

fn wdt_bytes(w: &wow_wdt::WdtFile) -> Vec<u8> {
    let mut out = Vec::new();
    wow_wdt::WdtWriter::new(&mut out).write(w).expect("WDT writer failed on a valid object");
    out
}

fn wdt_terrain(version: wow_wdt::version::WowVersion, flags: u32, tiles: &[(usize, usize)], with_mwmo: bool, with_maid: bool) -> Vec<u8> {
    use wow_wdt::chunks::*;
    let mut w = wow_wdt::WdtFile::new(version);
    w.mphd.flags = wow_wdt::chunks::mphd::MphdFlags::from_bits_truncate(flags);
    for &(x, y) in tiles {
        if let Some(e) = w.main.get_mut(x, y) {
            e.set_has_adt(true);
        }
    }
    if with_mwmo {
        w.mwmo = Some(MwmoChunk::new());
    }
    if with_maid {
        let mut m = wow_wdt::chunks::maid::MaidChunk::new();
        for (i, &(x, y)) in tiles.iter().enumerate() {
            for s in wow_wdt::chunks::maid::MaidSection::all() {
                let _ = m.set(*s, x, y, 100_000 + (i as u32) * 10 + s.index() as u32);
            }
        }
        w.maid = Some(m);
    }
    wdt_bytes(&w)
}

fn wdt_wmo_only(version: wow_wdt::version::WowVersion) -> Vec<u8> {
    use wow_wdt::chunks::*;
    let mut w = wow_wdt::WdtFile::new(version);
    w.mphd.flags = wow_wdt::chunks::mphd::MphdFlags::from_bits_truncate(1);
    let mut m = MwmoChunk::new();
    m.add_filename("World\\wmo\\Dungeon\\KL_Orgrimmar\\Orgrimmar.wmo".to_string());
    w.mwmo = Some(m);
    let mut modf = ModfChunk::new();
    let mut e = ModfEntry::new();
    e.position = [1.0, 2.0, 3.0];
    e.upper_bounds = [10.0, 10.0, 10.0];
    e.scale = 1024;
    modf.add_entry(e);
    w.modf = Some(modf);
    wdt_bytes(&w)
}

fn wdt_seeds(_ctx: &SeedCtx) -> Vec<Seed> {
    use wow_wdt::version::WowVersion as V;
    let tiles: Vec<(usize, usize)> = vec![(0, 0), (31, 32), (32, 32), (63, 63), (5, 60)];
    vec![
        Seed::chunked("wdt/classic-terrain-mwmo", wdt_terrain(V::Classic, 0, &tiles, true, false)),
        Seed::chunked("wdt/wotlk-terrain-flags", wdt_terrain(V::WotLK, 0x0E, &tiles, true, false)),
        Seed::chunked("wdt/cata-terrain", wdt_terrain(V::Cataclysm, 0x04, &tiles, false, false)),
        Seed::chunked("wdt/bfa-terrain-maid", wdt_terrain(V::BfA, 0x0200, &tiles, false, true)),
        Seed::chunked("wdt/classic-wmo-only", wdt_wmo_only(V::Classic)),
        Seed::chunked("wdt/wotlk-wmo-only", wdt_wmo_only(V::WotLK)),
    ]
}

fn wdt_drive(_s: &Seed, data: &[u8], p: &mut Probe) {
    use wow_wdt::version::WowVersion as V;
    let f = p.call("WdtReader::read", || wow_wdt::WdtReader::new(Cursor::new(data), V::WotLK).read());
    if let Some(f) = f {
        // the accessors a caller uses right after read()
        p.call_plain("WdtFile::validate", || {
            let _ = f.validate();
            let _ = f.count_existing_tiles();
            let _ = f.get_tile(0, 0);
            let _ = f.get_tile(63, 63);
        });
    }
    p.call("WdtReader::read", || wow_wdt::WdtReader::new(Cursor::new(data), V::BfA).read());
    p.seed_valid = Some(p.all_ok);
    // the remaining version pins, and what a caller does with a parsed file: convert it, write it again
    for v in [V::Classic, V::TBC, V::Cataclysm, V::MoP, V::WoD, V::Legion, V::Shadowlands, V::Dragonflight] {
        if let Some(mut f) = p.call("WdtReader::read", || wow_wdt::WdtReader::new(Cursor::new(data), v).read()) {
            if v == V::Cataclysm {
                p.call_plain("WdtFile::validate", || {
                    let _ = f.validate();
                    let _ = f.count_existing_tiles();
                    let _ = f.is_wmo_only();
                });
                p.call("WdtWriter::write", || wow_wdt::WdtWriter::new(&mut Vec::new()).write(&f));
                if p.call("convert_wdt", || wow_wdt::conversion::convert_wdt(&mut f, V::Cataclysm, V::BfA)).is_some() {
                    p.call("WdtWriter::write", || wow_wdt::WdtWriter::new(&mut Vec::new()).write(&f));
                }
            }
        }
    }
}

pub fn formats() -> Vec<FormatDef> {
    vec![
        FormatDef {
            name: "wdl",
            family: "wdl",
            entries: &["WdlParser::parse", "WdlFile::validate", "convert_wdl_file", "WdlParser::write"],
            seeds: wdl_seeds,
            drive: wdl_drive,
            cipher: None,
            havoc_scale: 1.0,
            max_field_offsets: (700, 3000),
        },
        FormatDef {
            name: "wdt",
            family: "wdt",
            entries: &["WdtReader::read", "WdtFile::validate", "WdtWriter::write", "convert_wdt"],
            seeds: wdt_seeds,
            drive: wdt_drive,
            cipher: None,
            havoc_scale: 1.0,
            max_field_offsets: (700, 3000),
        },
    ]
}
