//! C14 — ADT terrain: build → serialise → parse, stable re-serialisation, chunk framing and offset tables.
//! DESIGN.md §6 C14.  Model = the builder input; independent chunk walker written from the ADT v18 format
//! (4-byte magic reversed on disk, u32 size, payload; MHDR offsets relative to the MHDR data start; MCIN
//! (offset,size) pairs; MCNK = 128-byte header + sub-chunks located by header offsets relative to the chunk start).

use serde_json::{Value, json};
use std::collections::{BTreeMap, BTreeSet};
use std::io::Cursor;
use vh_common::{Case, Rng, Run, hex, trap};
use wow_adt::chunks::blend_mesh::{MbbbChunk, MbbbEntry, MbmhChunk, MbmhEntry, MbmiChunk, MbnvChunk, MbnvVertex};
use wow_adt::chunks::mcnk::{
    BlendBatch, LiquidVertex, McalChunk, McbbChunk, MccvChunk, MclqChunk, MclvChunk, MclyChunk, MclyLayer, McnkChunk, McnrChunk, McrfChunk,
    McseChunk, McshChunk, McvtChunk, SoundEmitter, VertexColor, VertexNormal,
};
use wow_adt::chunks::mh2o::{
    DepthOnlyVertex, HeightDepthVertex, HeightUvDepthVertex, HeightUvVertex, Mh2oAttributes, Mh2oChunk, Mh2oEntry, Mh2oInstance, VertexDataArray,
};
use wow_adt::chunks::{DoodadPlacement, MampChunk, MfboChunk, MtxfChunk, MtxpChunk, TextureHeightParams, WmoPlacement};
use wow_adt::{AdtBuilder, AdtVersion, BuiltAdt, ParsedAdt, RootAdt, parse_adt};

// =====================================================================================================
// 1. Independent byte-level reader / writer (no repo types)
// =====================================================================================================

fn rd32(b: &[u8], o: usize) -> Option<u32> {
    b.get(o..o + 4).map(|s| u32::from_le_bytes([s[0], s[1], s[2], s[3]]))
}

/// magic as readable text ("MVER"); on disk the four bytes are reversed ("REVM").
fn magic_at(b: &[u8], o: usize) -> Option<String> {
    b.get(o..o + 4).map(|s| s.iter().rev().map(|&c| if c.is_ascii_graphic() { c as char } else { '?' }).collect())
}

fn put_chunk(out: &mut Vec<u8>, magic: &str, payload: &[u8]) {
    out.extend(magic.bytes().rev());
    out.extend((payload.len() as u32).to_le_bytes());
    out.extend_from_slice(payload);
}

#[derive(Clone, Debug)]
struct Frame {
    magic: String,
    off: usize,  // offset of the 8-byte chunk header
    size: usize, // payload size
}

const TOP_MAGICS: &[&str] = &[
    "MVER", "MHDR", "MCIN", "MTEX", "MMDX", "MMID", "MWMO", "MWID", "MDDF", "MODF", "MH2O", "MCNK", "MFBO", "MTXF", "MAMP", "MTXP", "MBMH", "MBBB", "MBNV", "MBMI",
];
const SUB_MAGICS: &[&str] = &["MCVT", "MCNR", "MCLY", "MCRF", "MCRD", "MCRW", "MCAL", "MCSH", "MCSE", "MCLQ", "MCCV", "MCLV", "MCMT", "MCDD", "MCBB"];

/// (name, byte offset inside the MHDR payload) of every offset slot of MHDR.
const MHDR_SLOTS: &[(&str, usize)] = &[
    ("MCIN", 4), ("MTEX", 8), ("MMDX", 12), ("MMID", 16), ("MWMO", 20), ("MWID", 24), ("MDDF", 28), ("MODF", 32), ("MFBO", 36), ("MH2O", 40), ("MTXF", 44),
];
/// (sub-chunk name(s) accepted, byte offset of the slot inside the 128-byte MCNK header)
const MCNK_SLOTS: &[(&str, usize)] = &[
    ("MCVT", 0x14), ("MCNR", 0x18), ("MCLY", 0x1C), ("MCRF", 0x20), ("MCAL", 0x24), ("MCSH", 0x2C), ("MCSE", 0x58), ("MCLQ", 0x60), ("MCCV", 0x74), ("MCLV", 0x78),
];

/// What the walker saw in one file.
#[derive(Default, Debug)]
struct Walk {
    frames: Vec<Frame>,
    problems: Vec<(String, String)>, // (signature stem without version, human text)
    bytes_by_kind: BTreeMap<String, usize>, // "MTEX" / "MCNK/hdr" / "MCNK/MCVT" -> total bytes incl. 8-byte headers
    n_mhdr: u64,
    n_mcin: u64,
    n_mcnk_ofs: u64,
    n_sub: u64,
    n_null_pad: u64,
    mcin_conv_payload: u64,
    mcin_conv_whole: u64,
    /// magic of the sub-chunk that ends the file (last sub-chunk of the last MCNK), if the file ends with an MCNK
    file_ends_with_sub: Option<String>,
    /// per name-offset table ("MMID" / "MWID"): what each entry resolves to in its string block (None = not the start of a string)
    name_tables: BTreeMap<&'static str, Vec<Option<String>>>,
    n_name_ofs: u64,
}

/// (offset table, string block it indexes): every u32 of the table is a byte offset into the block's payload and must be the start of a name
const NAME_TABLES: &[(&str, &str)] = &[("MMID", "MMDX"), ("MWID", "MWMO")];

fn walk_file(b: &[u8]) -> Walk {
    let mut w = Walk::default();
    // ---- top-level framing must tile the file exactly
    let mut pos = 0usize;
    let mut tiling_ok = true;
    while pos < b.len() {
        let (Some(m), Some(sz)) = (magic_at(b, pos), rd32(b, pos + 4)) else {
            w.problems.push(("framing-not-tiling|top".into(), format!("{} trailing bytes at {pos} are too short for a chunk header", b.len() - pos)));
            tiling_ok = false;
            break;
        };
        let end = pos + 8 + sz as usize;
        if end > b.len() {
            w.problems.push(("framing-not-tiling|top".into(), format!("chunk {m} at {pos} claims {sz} bytes and overruns the file end {}", b.len())));
            tiling_ok = false;
            break;
        }
        if !TOP_MAGICS.contains(&m.as_str()) {
            w.problems.push(("framing-unknown-chunk|top".into(), format!("chunk at {pos} has magic {m:?}, which is no ADT root chunk")));
        }
        *w.bytes_by_kind.entry(m.clone()).or_insert(0) += 8 + sz as usize;
        w.frames.push(Frame { magic: m, off: pos, size: sz as usize });
        pos = end;
    }
    let at: BTreeMap<usize, usize> = w.frames.iter().enumerate().map(|(i, f)| (f.off, i)).collect();
    let present: BTreeSet<&str> = w.frames.iter().map(|f| f.magic.as_str()).collect();
    // ---- MHDR: every offset slot (relative to the MHDR payload start) points at a chunk of the named type
    match w.frames.iter().find(|f| f.magic == "MHDR").cloned() {
        None => {
            if tiling_ok {
                w.problems.push(("mhdr-missing".into(), "no MHDR chunk in the file".into()));
            }
        }
        Some(h) => {
            if h.size < 64 {
                w.problems.push(("mhdr-too-short".into(), format!("MHDR payload is {} bytes", h.size)));
            } else {
                let base = h.off + 8;
                for &(name, slot) in MHDR_SLOTS {
                    let v = rd32(b, base + slot).unwrap_or(0) as usize;
                    w.n_mhdr += 1;
                    if v == 0 {
                        if present.contains(name) {
                            w.problems.push((format!("mhdr-offset-missing|{name}"), format!("file contains a {name} chunk but the MHDR slot for it is 0")));
                        }
                        continue;
                    }
                    let target = base + v;
                    match at.get(&target) {
                        Some(&i) if w.frames[i].magic == name => {}
                        Some(&i) => w.problems.push((format!("mhdr-offset-wrong-type|{name}"), format!("MHDR.{name} = {v} (-> file offset {target}) points at a {} chunk", w.frames[i].magic))),
                        None => w.problems.push((
                            format!("mhdr-offset-wrong-type|{name}"),
                            format!("MHDR.{name} = {v} (-> file offset {target}) is not the start of any chunk (bytes there: {:?})", magic_at(b, target)),
                        )),
                    }
                }
            }
        }
    }
    // ---- MCIN: every used (offset,size) pair points at an MCNK chunk whose size agrees
    let mcnks: Vec<Frame> = w.frames.iter().filter(|f| f.magic == "MCNK").cloned().collect();
    if let Some(ci) = w.frames.iter().find(|f| f.magic == "MCIN").cloned() {
        if ci.size != 4096 {
            w.problems.push(("mcin-entry|table-size".into(), format!("MCIN payload is {} bytes, expected 256 x 16", ci.size)));
        } else {
            let mut seen = BTreeSet::new();
            let mut used = 0usize;
            for i in 0..256 {
                let e = ci.off + 8 + 16 * i;
                let (o, s) = (rd32(b, e).unwrap_or(0) as usize, rd32(b, e + 4).unwrap_or(0) as usize);
                w.n_mcin += 1;
                if o == 0 && s == 0 {
                    continue;
                }
                used += 1;
                match at.get(&o) {
                    Some(&fi) if w.frames[fi].magic == "MCNK" => {
                        let p = w.frames[fi].size;
                        if s == p {
                            w.mcin_conv_payload += 1;
                        } else if s == p + 8 {
                            w.mcin_conv_whole += 1;
                        } else {
                            w.problems.push(("mcin-entry|size-disagrees".into(), format!("MCIN[{i}] = (offset {o}, size {s}) but the MCNK there has a {p}-byte payload ({} with header)", p + 8)));
                        }
                        if !seen.insert(o) {
                            w.problems.push(("mcin-entry|duplicate-target".into(), format!("MCIN[{i}] points at offset {o}, which an earlier entry already uses")));
                        }
                    }
                    Some(&fi) => w.problems.push(("mcin-entry|offset-not-mcnk".into(), format!("MCIN[{i}].offset = {o} points at a {} chunk", w.frames[fi].magic))),
                    None => w.problems.push(("mcin-entry|offset-not-mcnk".into(), format!("MCIN[{i}].offset = {o} is not the start of any chunk (bytes there: {:?})", magic_at(b, o)))),
                }
            }
            if w.mcin_conv_payload > 0 && w.mcin_conv_whole > 0 {
                w.problems.push(("mcin-entry|mixed-size-convention".into(), "some MCIN sizes include the 8-byte chunk header and some do not".into()));
            }
            if used != mcnks.len() && tiling_ok {
                w.problems.push(("mcin-entry|unreferenced-mcnk".into(), format!("{} MCNK chunks in the file but {} used MCIN entries", mcnks.len(), used)));
            }
        }
    } else if !mcnks.is_empty() && tiling_ok {
        w.problems.push(("mcin-entry|table-missing".into(), "MCNK chunks present but no MCIN".into()));
    }
    // ---- MMID / MWID: every entry is the byte offset of the start of a NUL-terminated name inside MMDX / MWMO
    for &(tab, blk) in NAME_TABLES {
        let Some(t) = w.frames.iter().find(|f| f.magic == tab).cloned() else { continue };
        let blob: &[u8] = w.frames.iter().find(|f| f.magic == blk).map_or(&[], |f| &b[f.off + 8..f.off + 8 + f.size]);
        if t.size % 4 != 0 {
            w.problems.push((format!("name-table-offset|{tab}|table-size"), format!("{tab} payload of {} bytes is not a whole number of u32 offsets", t.size)));
        }
        let mut resolved = Vec::with_capacity(t.size / 4);
        let mut reported = 0;
        for i in 0..t.size / 4 {
            let o = rd32(b, t.off + 8 + 4 * i).unwrap_or(0) as usize;
            w.n_name_ofs += 1;
            // structural trigger predicate: is there a multi-byte (non-ASCII) name in front of the addressed position
            let pre = if blob[..o.min(blob.len())].iter().any(|&x| x >= 0x80) { "multibyte-name-before" } else { "ascii-names-before" };
            let bad = if o >= blob.len() {
                Some(("outside-block", format!("{tab}[{i}] = {o} lies outside the {}-byte {blk} block", blob.len())))
            } else if o > 0 && blob[o - 1] != 0 {
                let s = blob[..o].iter().rposition(|&x| x == 0).map_or(0, |p| p + 1);
                Some(("not-string-start", format!("{tab}[{i}] = {o} points {} bytes into the name that starts at {s} in {blk}, not at the start of a name", o - s)))
            } else {
                None
            };
            match bad {
                Some((kind, text)) => {
                    if reported < 3 {
                        w.problems.push((format!("name-table-offset|{tab}|{kind}|{pre}"), text));
                        reported += 1;
                    }
                    resolved.push(None);
                }
                None => {
                    let e = blob[o..].iter().position(|&x| x == 0).map_or(blob.len(), |p| o + p);
                    resolved.push(Some(String::from_utf8_lossy(&blob[o..e]).into_owned()));
                }
            }
        }
        w.name_tables.insert(tab, resolved);
    }
    // ---- every MCNK: header offsets -> named sub-chunk; sub-chunk framing tiles the MCNK payload
    for (k, f) in mcnks.iter().enumerate() {
        let last_sub = walk_mcnk(b, k, f, &mut w);
        if f.off + 8 + f.size == b.len() {
            w.file_ends_with_sub = last_sub;
        }
    }
    w
}

fn walk_mcnk(b: &[u8], k: usize, f: &Frame, w: &mut Walk) -> Option<String> {
    let start = f.off;
    let end = f.off + 8 + f.size;
    if f.size < 128 {
        w.problems.push(("framing-not-tiling|mcnk".into(), format!("MCNK #{k} payload of {} bytes is shorter than its 128-byte header", f.size)));
        return None;
    }
    *w.bytes_by_kind.entry("MCNK/hdr".into()).or_insert(0) += 8 + 128;
    // sequential walk of the sub-chunks behind the header
    let mut subs: Vec<Frame> = Vec::new();
    let mut pos = start + 8 + 128;
    let size_liquid = rd32(b, start + 8 + 0x64).unwrap_or(0) as usize;
    while pos < end {
        let (Some(m), Some(mut sz)) = (magic_at(b, pos), rd32(b, pos + 4).map(|x| x as usize)) else {
            w.problems.push(("framing-not-tiling|mcnk".into(), format!("MCNK #{k}: {} trailing bytes at +{} are too short for a sub-chunk header", end - pos, pos - start)));
            return None;
        };
        if pos + 8 > end {
            w.problems.push(("framing-not-tiling|mcnk".into(), format!("MCNK #{k}: {} trailing bytes at +{}", end - pos, pos - start)));
            return None;
        }
        if b[pos..pos + 8].iter().all(|&x| x == 0) {
            // an all-zero 8-byte record frames correctly (empty magic, size 0); tallied, never a sub-chunk
            w.n_null_pad += 1;
            *w.bytes_by_kind.entry("MCNK/pad".into()).or_insert(0) += 8;
            pos += 8;
            continue;
        }
        if m == "MCLQ" && sz == 0 && size_liquid >= 8 {
            sz = size_liquid - 8; // original client files leave the MCLQ size field 0 and carry the size in the MCNK header
        }
        if pos + 8 + sz > end {
            w.problems.push(("framing-not-tiling|mcnk".into(), format!("MCNK #{k}: sub-chunk {m} at +{} claims {sz} bytes and overruns the MCNK end", pos - start)));
            return None;
        }
        if !SUB_MAGICS.contains(&m.as_str()) {
            w.problems.push(("framing-unknown-chunk|mcnk".into(), format!("MCNK #{k}: record at +{} has magic {m:?}, which is no MCNK sub-chunk", pos - start)));
        }
        *w.bytes_by_kind.entry(format!("MCNK/{m}")).or_insert(0) += 8 + sz;
        w.n_sub += 1;
        subs.push(Frame { magic: m, off: pos, size: sz });
        pos += 8 + sz;
    }
    let hdr = start + 8;
    let high_res_holes = rd32(b, hdr).unwrap_or(0) & 0x10000 != 0; // then 0x14/0x18 hold the hole mask, not offsets
    for &(name, slot) in MCNK_SLOTS {
        if high_res_holes && (slot == 0x14 || slot == 0x18) {
            continue;
        }
        let v = rd32(b, hdr + slot).unwrap_or(0) as usize;
        w.n_mcnk_ofs += 1;
        let accepted: &[&str] = if name == "MCRF" { &["MCRF", "MCRD", "MCRW"] } else { std::slice::from_ref(&name) };
        if v == 0 {
            if subs.iter().any(|s| s.magic == name) {
                w.problems.push((format!("mcnk-offset-missing|{name}"), format!("MCNK #{k} contains a {name} sub-chunk but the header slot for it is 0")));
            }
            continue;
        }
        let target = start + v; // relative to the chunk start, i.e. including the 8-byte chunk header
        match subs.iter().find(|s| s.off == target) {
            Some(s) if accepted.contains(&s.magic.as_str()) => {}
            Some(s) => w.problems.push((format!("mcnk-offset-wrong-type|{name}"), format!("MCNK #{k}: header offset for {name} = {v} points at a {} sub-chunk", s.magic))),
            None => w.problems.push((
                format!("mcnk-offset-wrong-type|{name}"),
                format!("MCNK #{k}: header offset for {name} = {v} is not the start of any sub-chunk (bytes there: {:?})", magic_at(b, target)),
            )),
        }
    }
    subs.last().map(|s| s.magic.clone())
}

// =====================================================================================================
// 2. Seed file written by the harness's own encoder (client layout: 128-byte MCNK header, MCIN size incl. header);
//    parsed once with the library to obtain prototype objects of the repo types that have no `Default`.
// =====================================================================================================

fn seed_file(with_mamp: bool, with_mtxp: bool) -> Vec<u8> {
    let mut f = Vec::new();
    put_chunk(&mut f, "MVER", &18u32.to_le_bytes());
    let mhdr_at = f.len();
    put_chunk(&mut f, "MHDR", &[0u8; 64]);
    let base = mhdr_at + 8;
    let mut slots: Vec<(usize, usize)> = Vec::new(); // (slot, absolute chunk offset)
    let mcin_at = f.len();
    slots.push((4, mcin_at));
    put_chunk(&mut f, "MCIN", &vec![0u8; 4096]);
    slots.push((8, f.len()));
    put_chunk(&mut f, "MTEX", b"seed/ground.blp\0");
    slots.push((12, f.len()));
    put_chunk(&mut f, "MMDX", b"seed/bush.m2\0");
    slots.push((16, f.len()));
    put_chunk(&mut f, "MMID", &0u32.to_le_bytes());
    slots.push((20, f.len()));
    put_chunk(&mut f, "MWMO", b"seed/hut.wmo\0");
    slots.push((24, f.len()));
    put_chunk(&mut f, "MWID", &0u32.to_le_bytes());
    // MDDF: nameId, uniqueId, pos[3], rot[3], scale u16, flags u16 = 36 bytes
    let mut d = Vec::new();
    d.extend(0u32.to_le_bytes());
    d.extend(7u32.to_le_bytes());
    for v in [1.0f32, 2.0, 3.0, 0.0, 90.0, 0.0] {
        d.extend(v.to_le_bytes());
    }
    d.extend(1024u16.to_le_bytes());
    d.extend(0u16.to_le_bytes());
    slots.push((28, f.len()));
    put_chunk(&mut f, "MDDF", &d);
    // MODF: nameId, uniqueId, pos[3], rot[3], lower[3], upper[3], flags, doodadSet, nameSet, scale = 64 bytes
    let mut o = Vec::new();
    o.extend(0u32.to_le_bytes());
    o.extend(8u32.to_le_bytes());
    for v in [4.0f32, 5.0, 6.0, 0.0, 0.0, 0.0, -1.0, -1.0, -1.0, 1.0, 1.0, 1.0] {
        o.extend(v.to_le_bytes());
    }
    for v in [0u16, 0, 0, 1024] {
        o.extend(v.to_le_bytes());
    }
    slots.push((32, f.len()));
    put_chunk(&mut f, "MODF", &o);
    slots.push((36, f.len()));
    put_chunk(&mut f, "MFBO", &[0u8; 36]);
    slots.push((44, f.len()));
    put_chunk(&mut f, "MTXF", &0u32.to_le_bytes());
    if with_mamp {
        put_chunk(&mut f, "MAMP", &1u32.to_le_bytes());
    }
    if with_mtxp {
        let mut tp = Vec::new();
        tp.extend(0u32.to_le_bytes());
        tp.extend(1.0f32.to_le_bytes());
        tp.extend(0.5f32.to_le_bytes());
        tp.extend(0u32.to_le_bytes());
        put_chunk(&mut f, "MTXP", &tp);
    }
    // one MCNK: 128-byte header, then MCVT MCNR MCLY MCLQ MCCV
    let mcnk_at = f.len();
    let mut m = vec![0u8; 128];
    let put = |m: &mut Vec<u8>, slot: usize, v: u32| m[slot..slot + 4].copy_from_slice(&v.to_le_bytes());
    let here = |m: &Vec<u8>| (m.len() + 8) as u32;
    put(&mut m, 0, 0x40 | 0x04); // has_mccv | river
    put(&mut m, 0x0C, 1); // nLayers
    let ofs = here(&m);
    put(&mut m, 0x14, ofs);
    let hv: Vec<u8> = (0..145).flat_map(|i| (i as f32).to_le_bytes()).collect();
    put_chunk(&mut m, "MCVT", &hv);
    let ofs = here(&m);
    put(&mut m, 0x18, ofs);
    let mut nr: Vec<u8> = (0..145).flat_map(|_| [0u8, 0, 127]).collect();
    nr.extend([0u8; 13]);
    put_chunk(&mut m, "MCNR", &nr);
    let ofs = here(&m);
    put(&mut m, 0x1C, ofs);
    put_chunk(&mut m, "MCLY", &[0u8; 16]);
    let ofs = here(&m);
    put(&mut m, 0x60, ofs);
    put(&mut m, 0x64, 8 + 720);
    let mut lq = Vec::new();
    lq.extend(0.0f32.to_le_bytes());
    lq.extend(1.0f32.to_le_bytes());
    for _ in 0..81 {
        lq.extend([1u8, 2, 3, 4]);
        lq.extend(0.5f32.to_le_bytes());
    }
    lq.extend([0u8; 64]);
    put_chunk(&mut m, "MCLQ", &lq);
    let ofs = here(&m);
    put(&mut m, 0x74, ofs);
    let cv: Vec<u8> = (0..145).flat_map(|_| [0x7Fu8, 0x7F, 0x7F, 0xFF]).collect();
    put_chunk(&mut m, "MCCV", &cv);
    put_chunk(&mut f, "MCNK", &m);
    // back-patch MHDR and MCIN[0]
    for (slot, abs) in slots {
        let v = (abs - base) as u32;
        f[base + slot..base + slot + 4].copy_from_slice(&v.to_le_bytes());
    }
    f[base..base + 4].copy_from_slice(&1u32.to_le_bytes()); // flags: MFBO present
    let e = mcin_at + 8;
    f[e..e + 4].copy_from_slice(&(mcnk_at as u32).to_le_bytes());
    f[e + 4..e + 8].copy_from_slice(&((m.len() + 8) as u32).to_le_bytes());
    f
}

struct Protos {
    mcnk: McnkChunk,
    normal: VertexNormal,
    liqv: LiquidVertex,
    doodad: DoodadPlacement,
    wmo: WmoPlacement,
    mtxf: MtxfChunk,
    mamp: MampChunk,
    mtxp: MtxpChunk,
    thp: TextureHeightParams,
}

fn protos() -> Result<Protos, String> {
    // Three seed variants (both markers / MTXP only / MAMP only): each prototype is taken from the first variant that yields it, so that
    // the harness does not depend on one particular outcome of the library's version detection.
    let (mut mcnk, mut normal, mut liqv, mut doodad, mut wmo, mut mtxf, mut mamp, mut mtxp, mut thp) = (None, None, None, None, None, None, None, None, None);
    let mut errors: Vec<String> = Vec::new();
    for (with_mamp, with_mtxp) in [(true, true), (false, true), (true, false)] {
        let seed = seed_file(with_mamp, with_mtxp);
        let w = walk_file(&seed);
        if !w.problems.is_empty() {
            return Err(format!("harness bug: the seed file fails the harness's own walker: {:?}", w.problems));
        }
        let root = match trap(|| parse_adt(&mut Cursor::new(&seed))) {
            Err(p) => {
                errors.push(format!("parse_adt(seed) panicked: {}", p.msg));
                continue;
            }
            Ok(Err(e)) => {
                errors.push(format!("parse_adt(seed) failed: {e}"));
                continue;
            }
            Ok(Ok(ParsedAdt::Root(r))) => r,
            Ok(Ok(_)) => {
                errors.push("seed parsed as a non-root file".into());
                continue;
            }
        };
        if let Some(m) = root.mcnk_chunks.first() {
            normal = normal.or(m.normals.as_ref().and_then(|n| n.normals.first().copied()));
            liqv = liqv.or(m.liquid.as_ref().and_then(|l| l.vertices.first().copied()));
            mcnk = mcnk.or(Some(m.clone()));
        }
        doodad = doodad.or(root.doodad_placements.first().copied());
        wmo = wmo.or(root.wmo_placements.first().copied());
        mtxf = mtxf.or(root.texture_flags.clone());
        mamp = mamp.or(root.texture_amplifier);
        thp = thp.or(root.texture_params.as_ref().and_then(|t| t.entries.first().copied()));
        mtxp = mtxp.or(root.texture_params.clone());
    }
    let miss = |what: &str| format!("seed: {what} not obtained from any seed variant ({})", errors.join("; "));
    Ok(Protos {
        mcnk: mcnk.ok_or_else(|| miss("MCNK"))?,
        normal: normal.ok_or_else(|| miss("MCNR"))?,
        liqv: liqv.ok_or_else(|| miss("MCLQ"))?,
        doodad: doodad.ok_or_else(|| miss("MDDF"))?,
        wmo: wmo.ok_or_else(|| miss("MODF"))?,
        mtxf: mtxf.ok_or_else(|| miss("MTXF"))?,
        mamp: mamp.ok_or_else(|| miss("MAMP"))?,
        mtxp: mtxp.ok_or_else(|| miss("MTXP"))?,
        thp: thp.ok_or_else(|| miss("MTXP entry"))?,
    })
}

// =====================================================================================================
// 3. Builder-input generator
// =====================================================================================================

const VERSIONS: &[(AdtVersion, &str)] = &[
    (AdtVersion::VanillaEarly, "VanillaEarly"),
    (AdtVersion::VanillaLate, "VanillaLate"),
    (AdtVersion::TBC, "TBC"),
    (AdtVersion::WotLK, "WotLK"),
    (AdtVersion::Cataclysm, "Cataclysm"),
    (AdtVersion::MoP, "MoP"),
];

fn vname(v: AdtVersion) -> &'static str {
    VERSIONS.iter().find(|x| x.0 == v).map(|x| x.1).unwrap_or("?")
}

/// optional MCNK sub-chunks toggled per terrain chunk (bit index = position here)
const SUBS: &[&str] = &["MCVT", "MCNR", "MCLY", "MCRF", "MCAL", "MCSH", "MCLQ", "MCCV", "MCSE", "MCLV", "MCBB"];
/// optional root chunks toggled per tile
const TOPS: &[&str] = &["MFBO", "MH2O", "MTXF", "MAMP", "MTXP", "BLEND"];

fn top_min_version(t: &str) -> AdtVersion {
    match t {
        "MFBO" => AdtVersion::TBC,
        "MH2O" | "MTXF" => AdtVersion::WotLK,
        "MAMP" => AdtVersion::Cataclysm,
        _ => AdtVersion::MoP,
    }
}

const INVALID_KINDS: &[&str] = &[
    "no-texture", "texture-bad-ext", "texture-backslash", "texture-empty", "model-bad-ext", "wmo-bad-ext", "dangling-doodad", "dangling-wmo", "doodad-scale-0",
    "mcnk-257", "incompatible-MFBO", "incompatible-MH2O", "incompatible-MTXF", "incompatible-MAMP", "incompatible-MTXP", "incompatible-BLEND", "blend-partial",
    "blend-count-mismatch",
];

#[derive(Clone)]
struct Blend {
    h: Option<MbmhChunk>,
    b: Option<MbbbChunk>,
    v: Option<MbnvChunk>,
    i: Option<MbmiChunk>,
}

#[derive(Clone)]
struct Input {
    version: AdtVersion,
    textures: Vec<String>,
    models: Vec<String>,
    wmos: Vec<String>,
    doodads: Vec<DoodadPlacement>,
    wmops: Vec<WmoPlacement>,
    mcnks: Vec<McnkChunk>,
    sub_patterns: Vec<u32>,
    mfbo: Option<MfboChunk>,
    mh2o: Option<Mh2oChunk>,
    water_chunks: Vec<usize>,
    mtxf: Option<MtxfChunk>,
    mamp: Option<MampChunk>,
    mtxp: Option<MtxpChunk>,
    blend: Blend,
    invalid: Option<&'static str>,
    top_bits: u32,
    edit: EditPlan,
    extra: ExtraPlan,
}

/// Choices of the legs added in round 8, drawn from their own rng lane (the builder input itself is unchanged by them).
#[derive(Clone)]
struct ExtraPlan {
    /// target versions (indices into VERSIONS) of the cross-version rebuild from_root_adt(parsed, Some(target))
    xver_targets: Vec<usize>,
    /// 0: add_texture name by name, 1: one add_textures call, 2: the first name with add_texture and the rest in one add_textures call
    texture_entry: u8,
    /// run the parse -> modify -> save stage through AdtBuilder::from_parsed(..).build() as well
    edit_from_parsed: bool,
    root_edits: RootEdits,
}

/// Edits of the root-level content of the parsed tile, made through the RootAdt::*_mut accessors (the documented load -> edit -> save route).
#[derive(Clone)]
struct RootEdits {
    rename_texture: Option<(u64, String)>,
    push_texture: Option<String>,
    push_model: Option<String>,
    push_wmo: Option<String>,
    /// 0 nothing, 1 replace one, 2 append one, 3 remove one
    doodad_mode: u8,
    doodad_sel: u64,
    doodad_new: DoodadPlacement,
    wmop_mode: u8,
    wmop_sel: u64,
    wmop_new: WmoPlacement,
    /// 0 nothing, 1 new levels and liquid type on the first instance of the first wet chunk, 2 the first wet chunk becomes dry
    water_mode: u8,
    water_levels: [f32; 2],
    water_type: u16,
    mfbo: Option<([i16; 9], [i16; 9])>,
    mtxf: Option<u32>,
    mamp: Option<u32>,
    mtxp: Option<(u32, f32, f32)>,
}

fn gen_extra(rng: &mut Rng, p: &Protos, spec: &Spec, thorough: bool) -> ExtraPlan {
    let iso = spec.label.is_some();
    let xver_targets: Vec<usize> = if iso {
        (0..VERSIONS.len()).collect()
    } else {
        let mut all: Vec<usize> = (0..VERSIONS.len()).collect();
        rng.shuffle(&mut all);
        all.truncate(if thorough { 3 } else { 2 });
        all.sort();
        all
    };
    let texture_entry = rng.below(3) as u8;
    let edit_from_parsed = iso || rng.bool();
    let mut doodad_new = p.doodad;
    doodad_new.name_id = rng.next_u32();
    doodad_new.unique_id = rng.next_u32();
    doodad_new.position = f3(rng);
    doodad_new.rotation = f3(rng);
    doodad_new.scale = 1 + rng.below(65535) as u16;
    doodad_new.flags = rng.next_u32() as u16 & !0x40;
    let mut wmop_new = p.wmo;
    wmop_new.name_id = rng.next_u32();
    wmop_new.unique_id = rng.next_u32();
    wmop_new.position = f3(rng);
    wmop_new.rotation = f3(rng);
    wmop_new.extents_min = f3(rng);
    wmop_new.extents_max = f3(rng);
    wmop_new.flags = rng.next_u32() as u16 & !0x8;
    wmop_new.doodad_set = rng.next_u32() as u16;
    wmop_new.name_set = rng.next_u32() as u16;
    wmop_new.scale = rng.next_u32() as u16;
    let mut planes = ([0i16; 9], [0i16; 9]);
    for k in 0..9 {
        planes.0[k] = rng.next_u32() as i16;
        planes.1[k] = rng.next_u32() as i16;
    }
    let root_edits = RootEdits {
        rename_texture: rng.bool().then(|| (rng.next_u64(), gen_names(rng, 1, "tex", "blp").remove(0))),
        push_texture: rng.chance(1, 3).then(|| gen_names(rng, 1, "tex", "blp").remove(0)),
        push_model: rng.chance(1, 3).then(|| gen_names(rng, 1, "mdl", "m2").remove(0)),
        push_wmo: rng.chance(1, 3).then(|| gen_names(rng, 1, "wmo", "wmo").remove(0)),
        doodad_mode: rng.below(4) as u8,
        doodad_sel: rng.next_u64(),
        doodad_new,
        wmop_mode: rng.below(4) as u8,
        wmop_sel: rng.next_u64(),
        wmop_new,
        water_mode: rng.below(3) as u8,
        water_levels: [rng.f32_any(), rng.f32_any()],
        water_type: rng.below(20) as u16,
        mfbo: rng.bool().then_some(planes),
        mtxf: rng.bool().then(|| rng.next_u32()),
        mamp: rng.bool().then(|| rng.next_u32()),
        mtxp: rng.bool().then(|| (rng.next_u32(), rng.f32_any(), rng.f32_any())),
    };
    ExtraPlan { xver_targets, texture_entry, edit_from_parsed, root_edits }
}

/// Edits applied to the *parsed* tile before one extra rebuild (parse -> modify -> from_root_adt -> to_bytes -> parse): a deterministic
/// function of the case rng; which parsed chunk a pick lands on and what "drop one present sub-chunk" means is resolved against the parsed tile.
#[derive(Clone)]
struct EditPick {
    /// parsed chunk index = sel % number of parsed chunks
    sel: u64,
    /// 0 drop one present sub-chunk, 1 add one absent, 2 new random pattern, 3 same pattern with new contents, 4 drop sub-chunk number `r` (isolated cases)
    mode: u8,
    r: u32,
    /// a freshly generated chunk carrying every sub-chunk the version allows: donor for added / replaced sub-chunks
    fresh: McnkChunk,
}

#[derive(Clone)]
struct EditPlan {
    picks: Vec<EditPick>,
    /// sub-chunk kinds the target version can carry
    allowed: u32,
    /// root-optional chunks (bit index into TOPS) removed from the parsed tile if present
    top_drop: u32,
}

/// One row of the case table.
#[derive(Clone)]
struct Spec {
    /// [version, nmcnk class, names class, placement class, 6 root toggles]
    point: Vec<usize>,
    invalid: Option<&'static str>,
    /// isolated-feature cases: force this sub-chunk pattern on every supplied MCNK / this root-optional pattern
    sub: Option<u32>,
    top: Option<u32>,
    label: Option<String>,
}

/// Greedy t-wise covering array over axes given by their sizes. Deterministic for a given rng.
fn covering_array(sizes: &[usize], t: usize, rng: &mut Rng) -> Vec<Vec<usize>> {
    let k = sizes.len();
    let mut subsets: Vec<Vec<usize>> = Vec::new();
    fn rec(start: usize, k: usize, t: usize, cur: &mut Vec<usize>, out: &mut Vec<Vec<usize>>) {
        if cur.len() == t {
            out.push(cur.clone());
            return;
        }
        for i in start..k {
            cur.push(i);
            rec(i + 1, k, t, cur, out);
            cur.pop();
        }
    }
    rec(0, k, t, &mut vec![], &mut subsets);
    let mut uncovered: BTreeSet<(usize, Vec<usize>)> = BTreeSet::new();
    for (si, s) in subsets.iter().enumerate() {
        let total: usize = s.iter().map(|&a| sizes[a]).product();
        for mut n in 0..total {
            let mut vals = Vec::with_capacity(t);
            for &a in s {
                vals.push(n % sizes[a]);
                n /= sizes[a];
            }
            uncovered.insert((si, vals));
        }
    }
    let mut rows: Vec<Vec<usize>> = Vec::new();
    while !uncovered.is_empty() {
        let mut best: Option<(usize, Vec<usize>)> = None;
        for cand in 0..30 {
            let mut row: Vec<usize> = sizes.iter().map(|&s| rng.usize(s)).collect();
            if cand == 0 {
                let (si, vals) = uncovered.iter().next().cloned().unwrap();
                for (j, &a) in subsets[si].iter().enumerate() {
                    row[a] = vals[j];
                }
            }
            let gain = subsets.iter().enumerate().filter(|(si, s)| uncovered.contains(&(*si, s.iter().map(|&a| row[a]).collect()))).count();
            if best.as_ref().map_or(true, |b| gain > b.0) {
                best = Some((gain, row));
            }
        }
        let row = best.unwrap().1;
        for (si, s) in subsets.iter().enumerate() {
            uncovered.remove(&(si, s.iter().map(|&a| row[a]).collect()));
        }
        rows.push(row);
    }
    rows
}

fn gen_names(rng: &mut Rng, n: usize, dir: &str, ext: &str) -> Vec<String> {
    // shared prefixes: few directories, stems that are prefixes of one another, mixed-case extensions, non-ASCII, long
    let dirs = ["tileset/elwynn", "tileset/elwynn/sub", "tileset/Elwynn", "world/generic/human"];
    let mut out: Vec<String> = Vec::new();
    for k in 0..n {
        let d = if rng.chance(1, 6) { dir.to_string() } else { rng.pick(&dirs).to_string() };
        let stem = match rng.below(10) {
            0 => "a".to_string(),
            1 => "a".repeat(2 + k % 5),
            2 => format!("grass{k}"),
            3 => format!("grass{k}_s"),
            4 => format!("gr\u{e4}s {k}"),                  // 2-byte UTF-8
            5 => "x".repeat(180 + rng.usize(120)),
            6 => format!("\u{8349}\u{5730}{k}"),           // 3-byte UTF-8
            7 => format!("tr\u{1F332}\u{e9}{k}"),          // 4-byte + 2-byte UTF-8
            _ => format!("{dir}_{:x}", rng.next_u32()),
        };
        let e = if rng.chance(1, 5) { ext.to_uppercase() } else { ext.to_string() };
        // duplicates are legal content (the same name listed twice)
        if rng.chance(1, 12) && !out.is_empty() {
            let dup: String = out[rng.usize(out.len())].clone();
            out.push(dup);
        } else {
            out.push(format!("{d}/{stem}.{e}"));
        }
    }
    out
}

fn f3(rng: &mut Rng) -> [f32; 3] {
    [rng.f32_any(), rng.f32_any(), rng.f32_any()]
}

fn gen_mcnk(rng: &mut Rng, p: &Protos, idx: usize, pat: u32, ntex: usize) -> McnkChunk {
    let has = |name: &str| pat & (1 << SUBS.iter().position(|s| *s == name).unwrap()) != 0;
    let mut m = p.mcnk.clone();
    // ---- header: content fields chosen here; offset/size/count fields are the serializer's business (set to junk-free 0)
    let mut flags = 0u32;
    if rng.chance(1, 4) {
        flags |= 0x02;
    }
    flags |= *rng.pick(&[0u32, 0, 0x04, 0x08, 0x10, 0x20]);
    if rng.chance(1, 5) {
        flags |= 0x8000;
    }
    if has("MCSH") {
        flags |= 0x01;
    }
    if has("MCCV") {
        flags |= 0x40;
    }
    m.header.flags.value = flags;
    m.header.index_x = (idx % 16) as u32;
    m.header.index_y = (idx / 16) as u32;
    m.header.area_id = rng.next_u32();
    m.header.holes_low_res = rng.next_u32() as u16;
    m.header.unknown_but_used = if rng.bool() { 1 } else { rng.next_u32() as u16 };
    m.header.pred_tex.copy_from_slice(&rng.bytes(8));
    m.header.no_effect_doodad.copy_from_slice(&rng.bytes(8));
    m.header.unknown_8bytes.copy_from_slice(&rng.bytes(8));
    m.header.position = f3(rng);
    m.header.n_layers = 0;
    m.header.n_doodad_refs = 0;
    m.header.n_map_obj_refs = 0;
    m.header.multipurpose_field = [0; 8];
    m.header.ofs_layer = 0;
    m.header.ofs_refs = 0;
    m.header.ofs_alpha = 0;
    m.header.size_alpha = 0;
    m.header.ofs_shadow = 0;
    m.header.size_shadow = 0;
    m.header.ofs_snd_emitters = 0;
    m.header.n_snd_emitters = 0;
    m.header.ofs_liquid = 0;
    m.header.size_liquid = 0;
    m.header.ofs_mccv = 0;
    m.header.ofs_mclv = 0;
    m.header.unused = 0;
    m.header._padding = [0; 8]; // the prototype was parsed from a 128-byte client header: these 8 bytes were the next sub-chunk's header
    // ---- sub-chunks
    m.heights = has("MCVT").then(|| {
        let mut c = McvtChunk::default();
        c.heights = (0..145).map(|_| rng.f32_any()).collect();
        c
    });
    m.normals = has("MCNR").then(|| {
        let mut c = McnrChunk::default();
        c.normals = (0..145)
            .map(|_| {
                let mut n = p.normal;
                n.x = rng.next_u32() as i8;
                n.y = rng.next_u32() as i8;
                n.z = rng.next_u32() as i8;
                n
            })
            .collect();
        c
    });
    let nlayers = if has("MCLY") { 1 + rng.usize(4) } else { 0 };
    m.layers = has("MCLY").then(|| {
        let mut c = MclyChunk::default();
        for l in 0..nlayers {
            let mut y = MclyLayer::default();
            y.texture_id = rng.usize(ntex.max(1)) as u32;
            y.flags.value = (rng.next_u32() & 0x7FF) | if l > 0 { 0x100 } else { 0 };
            y.offset_in_mcal = if l == 0 { 0 } else { ((l - 1) * 2048) as u32 };
            y.effect_id = if rng.bool() { 0xFFFF_FFFF } else { rng.next_u32() };
            c.layers.push(y);
        }
        c
    });
    m.refs = has("MCRF").then(|| {
        let (d, w) = (rng.usize(4), rng.usize(3));
        let (d, w) = if d + w == 0 { (1, 0) } else { (d, w) };
        let mut c = McrfChunk::default();
        c.references = (0..d + w).map(|_| rng.below(50) as u32).collect();
        m.header.n_doodad_refs = d as u32;
        m.header.n_map_obj_refs = w as u32;
        c
    });
    m.alpha = has("MCAL").then(|| {
        let len = match rng.below(5) {
            0 => 2048 * nlayers.saturating_sub(1).max(1),
            1 => 4096,
            2 => 1 + rng.usize(64),
            3 => 2048,
            _ => 4 * (1 + rng.usize(300)),
        };
        McalChunk::new(rng.bytes(len))
    });
    m.shadow = has("MCSH").then(|| {
        let mut c = McshChunk::default();
        c.shadow_map = rng.bytes(512);
        c
    });
    m.liquid = has("MCLQ").then(|| {
        let mut c = MclqChunk::default();
        // height range classes: sloped (min < max), perfectly level surface (min == max), sea level 0/0, the widest range the reader accepts
        let a = (rng.below(20000) as f32 - 10000.0) / 2.0;
        let b = (rng.below(20000) as f32 - 10000.0) / 2.0;
        let (lo, hi) = match rng.below(8) {
            0 | 1 => (a, a),
            2 => (0.0, 0.0),
            3 => (-10000.0, 10000.0),
            _ => (a.min(b), a.max(b)),
        };
        c.min_height = lo;
        c.max_height = hi;
        c.vertices = (0..81)
            .map(|_| {
                let mut v = p.liqv;
                v.union_data.copy_from_slice(&rng.bytes(4));
                v.height = rng.f32_any();
                v
            })
            .collect();
        c.tile_flags.copy_from_slice(&rng.bytes(64));
        c
    });
    m.vertex_colors = has("MCCV").then(|| {
        let mut c = MccvChunk::default();
        c.colors = (0..145)
            .map(|_| {
                let b = rng.bytes(4);
                VertexColor::from_rgba(b[0], b[1], b[2], b[3])
            })
            .collect();
        c
    });
    m.sound_emitters = has("MCSE").then(|| {
        let mut c = McseChunk::default();
        for _ in 0..1 + rng.usize(3) {
            let mut e = SoundEmitter::default();
            e.sound_entry_id = rng.next_u32();
            e.position = f3(rng);
            e.size_min = f3(rng);
            c.emitters.push(e);
        }
        c
    });
    m.vertex_lighting = has("MCLV").then(|| {
        let mut c = MclvChunk::default();
        c.colors = (0..145).map(|_| rng.next_u32()).collect();
        c
    });
    m.blend_batches = has("MCBB").then(|| {
        let mut c = McbbChunk::default();
        for _ in 0..1 + rng.usize(3) {
            let mut b = BlendBatch::default();
            b.mbmh_index = rng.below(4) as u32;
            b.index_count = rng.below(100) as u32;
            b.index_first = rng.below(100) as u32;
            b.vertex_count = rng.below(100) as u32;
            b.vertex_first = rng.below(100) as u32;
            c.batches.push(b);
        }
        c
    });
    // never generated (see EXCLUSIONS): split-file-only / post-MoP sub-chunks
    m.materials = None;
    m.doodad_refs = None;
    m.wmo_refs = None;
    m.doodad_disable = None;
    // one in four chunks with references carries them as the two lists of the Cataclysm+ layout (MCRD, then MCRW) instead of
    // the single MCRF list - the builder writes and the parser reads both layouts (after C14-r3m3): 1..3 doodad
    // references followed by 0, 1 or 2 WMO references
    if m.refs.is_some() && rng.chance(1, 4) {
        let (d, w) = (1 + rng.usize(3), rng.usize(3));
        let mut dr = wow_adt::chunks::mcnk::McrdChunk::default();
        dr.doodad_refs = (0..d).map(|_| rng.below(50) as u32).collect();
        m.doodad_refs = Some(dr);
        if w > 0 {
            let mut wr = wow_adt::chunks::mcnk::McrwChunk::default();
            wr.wmo_refs = (0..w).map(|_| rng.below(50) as u32).collect();
            m.wmo_refs = Some(wr);
        }
        m.refs = None;
        m.header.n_doodad_refs = d as u32;
        m.header.n_map_obj_refs = w as u32;
    }
    m
}

fn gen_water(rng: &mut Rng, chunks: &[usize]) -> Mh2oChunk {
    let mut w = Mh2oChunk::new();
    // sometimes hand over a shorter entry list (the serializer pads to 256)
    if rng.chance(1, 4) {
        let keep = chunks.iter().max().map_or(0, |m| m + 1);
        w.entries.truncate(keep);
    }
    for &ci in chunks {
        let mut e = Mh2oEntry::default();
        for _ in 0..1 + rng.usize(3) {
            let mut ins = Mh2oInstance::default();
            ins.liquid_type = rng.below(20) as u16;
            let lvf = rng.below(6);
            ins.liquid_object_or_lvf = if lvf < 4 { lvf as u16 } else { 42 + rng.below(10) as u16 };
            ins.min_height_level = rng.f32_any();
            ins.max_height_level = rng.f32_any();
            ins.width = 1 + rng.below(8) as u8;
            ins.height = 1 + rng.below(8) as u8;
            ins.x_offset = rng.below(9 - ins.width as u64) as u8;
            ins.y_offset = rng.below(9 - ins.height as u64) as u8;
            let tiles = ins.width as u32 * ins.height as u32;
            let bitmap = rng.bool().then(|| if tiles >= 64 { rng.next_u64() } else { rng.next_u64() & ((1u64 << tiles) - 1) });
            let vd = if lvf < 4 && rng.chance(3, 4) {
                let cells: Vec<usize> = (ins.y_offset as usize..=(ins.y_offset + ins.height) as usize)
                    .flat_map(|z| (ins.x_offset as usize..=(ins.x_offset + ins.width) as usize).map(move |x| z * 9 + x))
                    .collect();
                Some(match lvf {
                    0 => {
                        let mut g: [Option<HeightDepthVertex>; 81] = [None; 81];
                        for &i in &cells {
                            let mut v = HeightDepthVertex::default();
                            v.height = rng.f32_any();
                            v.depth = rng.next_u32() as u8;
                            g[i] = Some(v);
                        }
                        VertexDataArray::HeightDepth(Box::new(g))
                    }
                    1 => {
                        let mut g: [Option<HeightUvVertex>; 81] = [None; 81];
                        for &i in &cells {
                            let mut v = HeightUvVertex::default();
                            v.height = rng.f32_any();
                            v.uv.u = rng.next_u32() as u16;
                            v.uv.v = rng.next_u32() as u16;
                            g[i] = Some(v);
                        }
                        VertexDataArray::HeightUv(Box::new(g))
                    }
                    2 => {
                        let mut g: [Option<DepthOnlyVertex>; 81] = [None; 81];
                        for &i in &cells {
                            let mut v = DepthOnlyVertex::default();
                            v.depth = rng.next_u32() as u8;
                            g[i] = Some(v);
                        }
                        VertexDataArray::DepthOnly(Box::new(g))
                    }
                    _ => {
                        let mut g: [Option<HeightUvDepthVertex>; 81] = [None; 81];
                        for &i in &cells {
                            let mut v = HeightUvDepthVertex::default();
                            v.height = rng.f32_any();
                            v.uv.u = rng.next_u32() as u16;
                            v.uv.v = rng.next_u32() as u16;
                            v.depth = rng.next_u32() as u8;
                            g[i] = Some(v);
                        }
                        VertexDataArray::HeightUvDepth(Box::new(g))
                    }
                })
            } else {
                None
            };
            e.instances.push(ins);
            e.exists_bitmaps.push(bitmap);
            e.vertex_data.push(vd);
        }
        e.header.layer_count = e.instances.len() as u32;
        if rng.bool() {
            let mut a = Mh2oAttributes::default();
            a.fishable = rng.next_u64();
            a.deep = rng.next_u64();
            e.attributes = Some(a);
        }
        while w.entries.len() <= ci {
            w.entries.push(Mh2oEntry::default());
        }
        w.entries[ci] = e;
    }
    w
}

fn gen_blend(rng: &mut Rng) -> Blend {
    let n = 1 + rng.usize(3);
    let mut h = MbmhChunk::default();
    let mut b = MbbbChunk::default();
    let (mut ti, mut tv) = (0u32, 0u32);
    for _ in 0..n {
        let mut e = MbmhEntry::default();
        e.map_object_id = rng.next_u32();
        e.texture_id = rng.below(8) as u32;
        e.unknown = rng.next_u32();
        e.mbmi_count = rng.below(7) as u32;
        e.mbnv_count = rng.below(5) as u32;
        e.mbmi_start = ti;
        e.mbnv_start = tv;
        ti += e.mbmi_count;
        tv += e.mbnv_count;
        h.entries.push(e);
        let mut bb = MbbbEntry::default();
        bb.map_object_id = e.map_object_id;
        bb.min = f3(rng);
        bb.max = f3(rng);
        b.entries.push(bb);
    }
    let mut v = MbnvChunk::default();
    for _ in 0..tv {
        let mut x = MbnvVertex::default();
        x.position = f3(rng);
        x.normal = f3(rng);
        x.uv = [rng.f32_any(), rng.f32_any()];
        for c in x.color.iter_mut() {
            c.copy_from_slice(&rng.bytes(4));
        }
        v.vertices.push(x);
    }
    let mut i = MbmiChunk::default();
    i.indices = (0..ti).map(|_| rng.next_u32() as u16).collect();
    Blend { h: Some(h), b: Some(b), v: Some(v), i: Some(i) }
}

/// The whole builder input of one case: a deterministic function of (point, rng).
/// point = [version, nmcnk class, names class, placement class, 6 root toggles]
fn gen_input(rng: &mut Rng, rng2: &mut Rng, p: &Protos, spec: &Spec, sub_rows: &[Vec<usize>], thorough: bool) -> Input {
    let (point, invalid) = (&spec.point, spec.invalid);
    let version = VERSIONS[point[0]].0;
    let nmcnk = match point[1] {
        0 => 0,
        1 => 1,
        2 => 17,
        3 => 256,
        _ => 2 + rng.usize(254),
    };
    let (nt, nm, nw) = match point[2] {
        0 => (1, 0, 0),
        1 => (1 + rng.usize(5), rng.usize(4), rng.usize(4)),
        3 => (4 + rng.usize(3), 4 + rng.usize(3), 4 + rng.usize(3)),
        _ => (8 + rng.usize(if thorough { 120 } else { 40 }), 1 + rng.usize(40), 1 + rng.usize(20)),
    };
    let mut textures = gen_names(rng, nt, "tex", "blp");
    let mut models = gen_names(rng, nm, "mdl", "m2");
    let mut wmos = gen_names(rng, nw, "wmo", "wmo");
    if point[2] == 3 {
        // names class 3: 2-, 3- and 4-byte UTF-8 names in front of ASCII ones in every list (byte length != character count)
        for (list, ext) in [(&mut textures, "blp"), (&mut models, "m2"), (&mut wmos, "wmo")] {
            list[0] = format!("world/\u{e9}t\u{e9}/h\u{fc}tte.{ext}");
            list[1] = format!("world/\u{8349}\u{5730}/\u{6728}.{ext}");
            list[2] = format!("world/\u{1F332}/tr\u{1F332}e.{ext}");
            list[3] = format!("world/plain/after.{ext}");
        }
    }
    let (nd, nwp) = match point[3] {
        0 => (0, 0),
        1 => (rng.usize(4), rng.usize(3)),
        _ => (20 + rng.usize(200), 5 + rng.usize(60)),
    };
    let mut doodads: Vec<DoodadPlacement> = Vec::new();
    if nm > 0 {
        for _ in 0..nd {
            let mut d = p.doodad;
            d.name_id = rng.usize(nm) as u32;
            d.unique_id = rng.next_u32();
            d.position = f3(rng);
            d.rotation = f3(rng);
            d.scale = 1 + rng.below(65535) as u16;
            d.flags = rng.next_u32() as u16 & !0x40;
            doodads.push(d);
        }
    }
    let mut wmops: Vec<WmoPlacement> = Vec::new();
    if nw > 0 {
        for _ in 0..nwp {
            let mut w = p.wmo;
            w.name_id = rng.usize(nw) as u32;
            w.unique_id = rng.next_u32();
            w.position = f3(rng);
            w.rotation = f3(rng);
            w.extents_min = f3(rng);
            w.extents_max = f3(rng);
            w.flags = rng.next_u32() as u16 & !0x8;
            w.doodad_set = rng.next_u32() as u16;
            w.name_set = rng.next_u32() as u16;
            w.scale = rng.next_u32() as u16;
            wmops.push(w);
        }
    }
    // root toggles, masked by what the target version can carry (the incompatible combinations are separate, explicit cases)
    let mut top_bits = 0u32;
    for (i, t) in TOPS.iter().enumerate() {
        if point[4 + i] == 1 && version >= top_min_version(t) {
            top_bits |= 1 << i;
        }
    }
    if let Some(t) = spec.top {
        top_bits = t;
    }
    if let Some(k) = invalid {
        if let Some(t) = k.strip_prefix("incompatible-") {
            top_bits |= 1 << TOPS.iter().position(|x| *x == t).unwrap();
        }
        if k.starts_with("blend-") {
            top_bits |= 1 << 5;
        }
    }
    let top = |t: &str| top_bits & (1 << TOPS.iter().position(|x| *x == t).unwrap()) != 0;
    // MCNK chunks with covering-array sub-chunk patterns
    let mut mcnks = Vec::with_capacity(nmcnk);
    let mut sub_patterns = Vec::with_capacity(nmcnk);
    let row0 = rng.usize(sub_rows.len());
    for i in 0..nmcnk {
        let mut pat = 0u32;
        if i < sub_rows.len() || rng.chance(2, 3) {
            for (b, &v) in sub_rows[(row0 + i) % sub_rows.len()].iter().enumerate() {
                pat |= (v as u32) << b;
            }
        } else {
            pat = rng.next_u32() & ((1 << SUBS.len()) - 1);
        }
        if let Some(f) = spec.sub {
            pat = f;
        }
        if version < AdtVersion::Cataclysm {
            pat &= !(1 << 9);
        }
        if version < AdtVersion::MoP {
            pat &= !(1 << 10);
        }
        // De-masking: a file that ends with an MCLQ sub-chunk is rejected by parse_adt (known finding mclq-size-liquid), which ends the case
        // before anything else is compared. Outside the isolated-feature cases, 3 of 4 such tiles get an MCCV behind the MCLQ of their last chunk.
        if spec.sub.is_none() && i + 1 == nmcnk && pat & (1 << 6) != 0 && pat >> 7 == 0 && rng.chance(3, 4) {
            pat |= 1 << 7;
        }
        sub_patterns.push(pat);
        mcnks.push(gen_mcnk(rng, p, i, pat, nt));
    }
    let mfbo = top("MFBO").then(|| {
        let mut m = MfboChunk::default();
        for k in 0..9 {
            m.max_plane[k] = rng.next_u32() as i16;
            m.min_plane[k] = rng.next_u32() as i16;
        }
        m
    });
    let mut water_chunks: Vec<usize> = Vec::new();
    let mh2o = top("MH2O").then(|| {
        // (4: a water table that is dry on every chunk - handed over as 256 empty entries or as an empty list; after C14-r7m3)
        let n = match rng.below(5) {
            0 => 1,
            1 => 2 + rng.usize(6),
            2 => 30 + rng.usize(100),
            3 => 256,
            _ => 0,
        };
        let mut all: Vec<usize> = (0..256).collect();
        rng.shuffle(&mut all);
        water_chunks = all[..n].to_vec();
        water_chunks.sort();
        gen_water(rng, &water_chunks)
    });
    let mtxf = top("MTXF").then(|| {
        let mut m = p.mtxf.clone();
        let n = if rng.chance(1, 6) { 1 + rng.usize(nt + 2) } else { nt };
        m.flags = (0..n).map(|_| if rng.chance(1, 3) { 0 } else { rng.next_u32() }).collect();
        m
    });
    let mamp = top("MAMP").then(|| {
        let mut m = p.mamp;
        m.amplifier = rng.next_u32();
        m
    });
    let mtxp = top("MTXP").then(|| {
        let mut m = p.mtxp.clone();
        m.entries = (0..nt)
            .map(|_| {
                let mut e = p.thp;
                e.flags = rng.next_u32();
                e.height_scale = rng.f32_any();
                e.height_offset = rng.f32_any();
                e.padding = if rng.bool() { 0 } else { rng.next_u32() };
                e
            })
            .collect();
        m
    });
    let mut blend = if top("BLEND") { gen_blend(rng) } else { Blend { h: None, b: None, v: None, i: None } };
    // ---- deliberately invalid inputs (expected to be rejected by the builder; if accepted they must round-trip like any other)
    match invalid {
        Some("no-texture") => textures.clear(),
        Some("texture-bad-ext") => textures.push("tileset/rock.png".into()),
        Some("texture-backslash") => textures.push("tileset\\rock.blp".into()),
        Some("texture-empty") => textures.push(String::new()),
        Some("model-bad-ext") => models.push("doodad/tree.mdx".into()),
        Some("wmo-bad-ext") => wmos.push("building/inn.m2".into()),
        Some("dangling-doodad") => {
            let mut d = p.doodad;
            d.name_id = models.len() as u32 + rng.below(3) as u32;
            d.scale = 1024;
            doodads.push(d);
        }
        Some("dangling-wmo") => {
            let mut w = p.wmo;
            w.name_id = wmos.len() as u32 + rng.below(3) as u32;
            wmops.push(w);
        }
        Some("doodad-scale-0") => {
            if models.is_empty() {
                models.push("doodad/rock.m2".into());
            }
            let mut d = p.doodad;
            d.name_id = 0;
            d.scale = 0;
            doodads.push(d);
        }
        Some("mcnk-257") => {
            while mcnks.len() < 257 {
                let i = mcnks.len();
                sub_patterns.push(0);
                mcnks.push(gen_mcnk(rng, p, i, 0, nt));
            }
        }
        Some("blend-partial") => match rng.below(4) {
            0 => blend.h = None,
            1 => blend.b = None,
            2 => blend.v = None,
            _ => blend.i = None,
        },
        Some("blend-count-mismatch") => {
            if let Some(i) = blend.i.as_mut() {
                i.indices.push(7);
            }
        }
        _ => {}
    }
    // ---- edit plan for the parse -> modify -> rebuild stage
    let mut allowed = (1u32 << SUBS.len()) - 1;
    if version < AdtVersion::Cataclysm {
        allowed &= !(1 << 9);
    }
    if version < AdtVersion::MoP {
        allowed &= !(1 << 10);
    }
    let iso_all = spec.label.as_deref() == Some("iso:everything");
    let npicks = if iso_all { SUBS.len() } else { 1 + rng.usize(6) };
    let picks = (0..npicks)
        .map(|k| {
            let (sel, mode, r) = if iso_all { (k as u64, 4u8, k as u32) } else { (rng.next_u64(), rng.below(4) as u8, rng.next_u32()) };
            EditPick { sel, mode, r, fresh: gen_mcnk(rng, p, 0, allowed, nt) }
        })
        .collect();
    let top_drop = if iso_all { 0 } else { (0..TOPS.len()).filter(|_| rng.chance(1, 3)).fold(0u32, |a, b| a | 1 << b) };
    let edit = EditPlan { picks, allowed, top_drop };
    let extra = gen_extra(rng2, p, spec, thorough);
    Input { version, textures, models, wmos, doodads, wmops, mcnks, sub_patterns, mfbo, mh2o, water_chunks, mtxf, mamp, mtxp, blend, invalid, top_bits, edit, extra }
}

impl Input {
    fn describe(&self) -> Value {
        let head = |v: &Vec<String>| v.iter().take(3).map(|s| if s.len() > 60 { format!("{}…({} bytes)", &s[..s.char_indices().nth(40).map_or(s.len(), |x| x.0)], s.len()) } else { s.clone() }).collect::<Vec<_>>();
        let tops: Vec<&str> = TOPS.iter().enumerate().filter(|(i, _)| self.top_bits & (1 << i) != 0).map(|(_, t)| *t).collect();
        let pats: BTreeSet<u32> = self.sub_patterns.iter().copied().collect();
        json!({
            "version": vname(self.version), "invalid": self.invalid,
            "textures": self.textures.len(), "models": self.models.len(), "wmos": self.wmos.len(),
            "names_head": {"tex": head(&self.textures), "m2": head(&self.models), "wmo": head(&self.wmos)},
            "doodad_placements": self.doodads.len(), "wmo_placements": self.wmops.len(),
            "mcnk_supplied": self.mcnks.len(), "root_optional": tops,
            "subchunk_bits": SUBS, "subchunk_patterns_first": self.sub_patterns.iter().take(20).map(|p| format!("{p:011b}")).collect::<Vec<_>>(),
            "distinct_subchunk_patterns": pats.len(),
            "water_on_chunks": if self.water_chunks.len() > 24 { json!(format!("{} chunks", self.water_chunks.len())) } else { json!(self.water_chunks) },
            "converted_to": self.extra.xver_targets.iter().map(|&t| VERSIONS[t].1).collect::<Vec<_>>(),
            "textures_entered_by": (["add_texture", "add_textures", "add_texture+add_textures"][self.extra.texture_entry as usize]),
        })
    }
    fn builder(&self) -> AdtBuilder {
        let mut b = AdtBuilder::new().with_version(self.version);
        match self.extra.texture_entry {
            1 => b = b.add_textures(self.textures.clone()),
            2 if !self.textures.is_empty() => {
                b = b.add_texture(self.textures[0].clone());
                b = b.add_textures(self.textures[1..].iter().map(|s| s.as_str()));
            }
            _ => {
                for t in &self.textures {
                    b = b.add_texture(t.clone());
                }
            }
        }
        for m in &self.models {
            b = b.add_model(m.clone());
        }
        for w in &self.wmos {
            b = b.add_wmo(w.clone());
        }
        for d in &self.doodads {
            b = b.add_doodad_placement(*d);
        }
        for w in &self.wmops {
            b = b.add_wmo_placement(*w);
        }
        for m in &self.mcnks {
            b = b.add_mcnk_chunk(m.clone());
        }
        if let Some(x) = &self.mfbo {
            b = b.add_flight_bounds(*x);
        }
        if let Some(x) = &self.mh2o {
            b = b.add_water_data(x.clone());
        }
        if let Some(x) = &self.mtxf {
            b = b.add_texture_flags(x.clone());
        }
        if let Some(x) = &self.mamp {
            b = b.add_texture_amplifier(*x);
        }
        if let Some(x) = &self.mtxp {
            b = b.add_texture_params(x.clone());
        }
        if let Some(x) = &self.blend.h {
            b = b.add_blend_mesh_headers(x.clone());
        }
        if let Some(x) = &self.blend.b {
            b = b.add_blend_mesh_bounds(x.clone());
        }
        if let Some(x) = &self.blend.v {
            b = b.add_blend_mesh_vertices(x.clone());
        }
        if let Some(x) = &self.blend.i {
            b = b.add_blend_mesh_indices(x.clone());
        }
        b
    }
}

// =====================================================================================================
// 4. Content projection (the same function is applied to the builder input and to parsed tiles).
//    Floats are compared by bit pattern; bulk arrays are rendered as hex of their little-endian bytes.
//    Left out on purpose (derived / framing, not content): every offset, size and count field the serializer
//    computes, MCNR's 13 trailing pad bytes, MCLQ.liquid_type (recomputed from header flags), MHDR/MCIN/MMID/MWID.
// =====================================================================================================

type Fields = BTreeMap<&'static str, Value>;

struct Content {
    top: Fields,
    mcnk: Vec<Fields>,
}

fn fhex(xs: &[f32]) -> String {
    let mut v = Vec::with_capacity(xs.len() * 4);
    for x in xs {
        v.extend(x.to_bits().to_le_bytes());
    }
    hex(&v)
}

fn proj_mcnk(m: &McnkChunk) -> Fields {
    let mut f = Fields::new();
    let h = &m.header;
    f.insert("mcnk.header.flags", json!(h.flags.value));
    f.insert("mcnk.header.index", json!([h.index_x, h.index_y]));
    f.insert("mcnk.header.area_id", json!(h.area_id));
    f.insert("mcnk.header.holes_low_res", json!(h.holes_low_res));
    f.insert("mcnk.header.unknown_but_used", json!(h.unknown_but_used));
    f.insert("mcnk.header.pred_tex", json!(hex(&h.pred_tex)));
    f.insert("mcnk.header.no_effect_doodad", json!(hex(&h.no_effect_doodad)));
    f.insert("mcnk.header.unknown_8bytes", json!(hex(&h.unknown_8bytes)));
    f.insert("mcnk.header.position", json!(fhex(&h.position)));
    f.insert("mcnk.header.ref_counts", json!([h.n_doodad_refs, h.n_map_obj_refs]));
    f.insert("mcnk.heights", m.heights.as_ref().map_or(Value::Null, |c| json!(fhex(&c.heights))));
    f.insert(
        "mcnk.normals",
        m.normals.as_ref().map_or(Value::Null, |c| {
            let v: Vec<u8> = c.normals.iter().flat_map(|n| [n.x as u8, n.y as u8, n.z as u8]).collect();
            json!(hex(&v))
        }),
    );
    // list-like sub-chunks: absent == empty list (zero elements carry no content)
    f.insert("mcnk.layers", json!(m.layers.as_ref().map_or(vec![], |c| c.layers.iter().map(|l| json!([l.texture_id, l.flags.value, l.offset_in_mcal, l.effect_id])).collect())));
    f.insert("mcnk.refs", json!(m.refs.as_ref().map_or(vec![], |c| c.references.clone())));
    f.insert("mcnk.doodad_refs", json!(m.doodad_refs.as_ref().map_or(vec![], |c| c.doodad_refs.clone())));
    f.insert("mcnk.wmo_refs", json!(m.wmo_refs.as_ref().map_or(vec![], |c| c.wmo_refs.clone())));
    f.insert("mcnk.alpha", json!(m.alpha.as_ref().map_or(String::new(), |c| hex(&c.data))));
    f.insert("mcnk.shadow", m.shadow.as_ref().map_or(Value::Null, |c| json!(hex(&c.shadow_map))));
    f.insert(
        "mcnk.vertex_colors",
        m.vertex_colors.as_ref().map_or(Value::Null, |c| {
            let v: Vec<u8> = c.colors.iter().flat_map(|x| [x.r, x.g, x.b, x.a]).collect();
            json!(hex(&v))
        }),
    );
    f.insert(
        "mcnk.vertex_lighting",
        m.vertex_lighting.as_ref().map_or(Value::Null, |c| {
            let v: Vec<u8> = c.colors.iter().flat_map(|x| x.to_le_bytes()).collect();
            json!(hex(&v))
        }),
    );
    f.insert(
        "mcnk.sound_emitters",
        json!(m.sound_emitters.as_ref().map_or(vec![], |c| c.emitters.iter().map(|e| json!([e.sound_entry_id, fhex(&e.position), fhex(&e.size_min)])).collect())),
    );
    f.insert(
        "mcnk.liquid",
        m.liquid.as_ref().map_or(Value::Null, |c| {
            let v: Vec<u8> = c.vertices.iter().flat_map(|x| x.union_data.iter().copied().chain(x.height.to_bits().to_le_bytes()).collect::<Vec<u8>>()).collect();
            json!({"range": fhex(&[c.min_height, c.max_height]), "vertices": hex(&v), "tile_flags": hex(&c.tile_flags)})
        }),
    );
    f.insert("mcnk.materials", m.materials.as_ref().map_or(Value::Null, |c| json!(hex(&c.material_ids))));
    f.insert("mcnk.doodad_disable", m.doodad_disable.as_ref().map_or(Value::Null, |c| json!(hex(&c.disable))));
    f.insert(
        "mcnk.blend_batches",
        json!(m.blend_batches.as_ref().map_or(vec![], |c| c.batches.iter().map(|b| json!([b.mbmh_index, b.index_count, b.index_first, b.vertex_count, b.vertex_first])).collect())),
    );
    f
}

fn proj_vertex_data(v: &VertexDataArray) -> Value {
    fn cells<T>(g: &[Option<T>; 81], f: impl Fn(&T) -> Value) -> Value {
        Value::Array(g.iter().map(|c| c.as_ref().map_or(Value::Null, &f)).collect())
    }
    match v {
        VertexDataArray::HeightDepth(g) => json!({"lvf": 0, "cells": cells(g, |x| json!([x.height.to_bits(), x.depth]))}),
        VertexDataArray::HeightUv(g) => json!({"lvf": 1, "cells": cells(g, |x| json!([x.height.to_bits(), x.uv.u, x.uv.v]))}),
        VertexDataArray::DepthOnly(g) => json!({"lvf": 2, "cells": cells(g, |x| json!([x.depth]))}),
        VertexDataArray::HeightUvDepth(g) => json!({"lvf": 3, "cells": cells(g, |x| json!([x.height.to_bits(), x.uv.u, x.uv.v, x.depth]))}),
    }
}

/// water: map chunk index -> entry, only for entries that carry at least one instance (an all-empty MH2O == no MH2O)
fn proj_water(w: Option<&Mh2oChunk>) -> Value {
    let mut out = serde_json::Map::new();
    if let Some(w) = w {
        for (i, e) in w.entries.iter().enumerate() {
            if e.instances.is_empty() {
                continue;
            }
            let inst: Vec<Value> = e
                .instances
                .iter()
                .enumerate()
                .map(|(k, x)| {
                    json!({
                        "type": x.liquid_type, "lvf": x.liquid_object_or_lvf, "levels": fhex(&[x.min_height_level, x.max_height_level]),
                        "rect": [x.x_offset, x.y_offset, x.width, x.height],
                        "bitmap": e.exists_bitmaps.get(k).copied().flatten(),
                        "vertices": e.vertex_data.get(k).and_then(|v| v.as_ref()).map_or(Value::Null, proj_vertex_data),
                    })
                })
                .collect();
            out.insert(format!("{i:03}"), json!({"instances": inst, "attributes": e.attributes.map(|a| json!([a.fishable, a.deep]))}));
        }
    }
    Value::Object(out)
}

#[allow(clippy::too_many_arguments)]
fn proj_top(
    textures: &[String], models: &[String], wmos: &[String], doodads: &[DoodadPlacement], wmops: &[WmoPlacement], mfbo: Option<&MfboChunk>, mh2o: Option<&Mh2oChunk>,
    mtxf: Option<&MtxfChunk>, mamp: Option<&MampChunk>, mtxp: Option<&MtxpChunk>, bh: Option<&MbmhChunk>, bb: Option<&MbbbChunk>, bv: Option<&MbnvChunk>, bi: Option<&MbmiChunk>,
) -> Fields {
    let mut f = Fields::new();
    f.insert("textures", json!(textures));
    f.insert("models", json!(models));
    f.insert("wmos", json!(wmos));
    f.insert(
        "doodad_placements",
        json!(doodads.iter().map(|d| json!([d.name_id, d.unique_id, fhex(&d.position), fhex(&d.rotation), d.scale, d.flags])).collect::<Vec<_>>()),
    );
    f.insert(
        "wmo_placements",
        json!(wmops
            .iter()
            .map(|w| json!([w.name_id, w.unique_id, fhex(&w.position), fhex(&w.rotation), fhex(&w.extents_min), fhex(&w.extents_max), w.flags, w.doodad_set, w.name_set, w.scale]))
            .collect::<Vec<_>>()),
    );
    f.insert("flight_bounds", mfbo.map_or(Value::Null, |m| json!([m.max_plane, m.min_plane])));
    f.insert("water", proj_water(mh2o));
    f.insert("texture_flags", mtxf.map_or(Value::Null, |m| json!(m.flags)));
    f.insert("texture_amplifier", mamp.map_or(Value::Null, |m| json!(m.amplifier)));
    f.insert(
        "texture_params",
        mtxp.map_or(Value::Null, |m| json!(m.entries.iter().map(|e| json!([e.flags, e.height_scale.to_bits(), e.height_offset.to_bits(), e.padding])).collect::<Vec<_>>())),
    );
    f.insert(
        "blend_mesh_headers",
        bh.map_or(Value::Null, |m| json!(m.entries.iter().map(|e| json!([e.map_object_id, e.texture_id, e.unknown, e.mbmi_count, e.mbnv_count, e.mbmi_start, e.mbnv_start])).collect::<Vec<_>>())),
    );
    f.insert("blend_mesh_bounds", bb.map_or(Value::Null, |m| json!(m.entries.iter().map(|e| json!([e.map_object_id, fhex(&e.min), fhex(&e.max)])).collect::<Vec<_>>())));
    f.insert(
        "blend_mesh_vertices",
        bv.map_or(Value::Null, |m| json!(m.vertices.iter().map(|v| json!([fhex(&v.position), fhex(&v.normal), fhex(&v.uv), hex(&v.color.concat())])).collect::<Vec<_>>())),
    );
    f.insert("blend_mesh_indices", bi.map_or(Value::Null, |m| json!(m.indices)));
    // list-like root chunks: a chunk with zero elements carries the same content as no chunk
    for k in ["texture_flags", "texture_params", "blend_mesh_headers", "blend_mesh_bounds", "blend_mesh_vertices", "blend_mesh_indices"] {
        if f.get(k).and_then(|v| v.as_array()).is_some_and(|a| a.is_empty()) {
            f.insert(k, Value::Null);
        }
    }
    f
}

fn content_of_input(i: &Input) -> Content {
    Content {
        top: proj_top(
            &i.textures, &i.models, &i.wmos, &i.doodads, &i.wmops, i.mfbo.as_ref(), i.mh2o.as_ref(), i.mtxf.as_ref(), i.mamp.as_ref(), i.mtxp.as_ref(), i.blend.h.as_ref(),
            i.blend.b.as_ref(), i.blend.v.as_ref(), i.blend.i.as_ref(),
        ),
        mcnk: i.mcnks.iter().map(proj_mcnk).collect(),
    }
}

fn content_of_root(r: &RootAdt) -> Content {
    Content {
        top: proj_top(
            &r.textures, &r.models, &r.wmos, &r.doodad_placements, &r.wmo_placements, r.flight_bounds.as_ref(), r.water_data.as_ref(), r.texture_flags.as_ref(),
            r.texture_amplifier.as_ref(), r.texture_params.as_ref(), r.blend_mesh_headers.as_ref(), r.blend_mesh_bounds.as_ref(), r.blend_mesh_vertices.as_ref(),
            r.blend_mesh_indices.as_ref(),
        ),
        mcnk: r.mcnk_chunks.iter().map(proj_mcnk).collect(),
    }
}

fn brief_value(v: &Value) -> String {
    let s = v.to_string();
    if s.len() > 160 { format!("{}…({} chars)", &s[..s.char_indices().nth(140).map_or(s.len(), |x| x.0)], s.len()) } else { s }
}

// =====================================================================================================
// 5. The oracle
// =====================================================================================================

const MAX_ROUNDS: usize = 4;
const ROUND_SIZE_CAP: usize = 48 << 20;

fn report_walk(c: &mut Case, w: &Walk, ver: &str, stage: &str) {
    c.count("files_walked", 1);
    c.count("top_chunks_walked", w.frames.len() as u64);
    c.count("mhdr_entries_checked", w.n_mhdr);
    c.count("mcin_entries_checked", w.n_mcin);
    c.count("mcnk_header_offsets_checked", w.n_mcnk_ofs);
    c.count("mcnk_subchunks_walked", w.n_sub);
    c.count("mcnk_null_pad_records", w.n_null_pad);
    c.count("mcin_size_is_payload", w.mcin_conv_payload);
    c.count("mcin_size_is_payload_plus_header", w.mcin_conv_whole);
    c.count("name_table_offsets_checked", w.n_name_ofs);
    for (stem, text) in &w.problems {
        c.violate(format!("{stem}|{ver}"), format!("[{stage}] {text}"), json!({"stage": stage, "version": ver}));
    }
}

/// MMID[i] / MWID[i] must address the i-th name of the list the file was written from (placements refer to names through these tables).
/// Entries that are not the start of a name at all were already reported by the walker.
fn check_name_tables(c: &mut Case, w: &Walk, ver: &str, stage: &str, models: &[String], wmos: &[String]) {
    for (tab, names) in [("MMID", models), ("MWID", wmos)] {
        let Some(res) = w.name_tables.get(tab) else { continue };
        let mut reported = false;
        for (i, r) in res.iter().enumerate() {
            let (Some(r), Some(want)) = (r, names.get(i)) else { continue };
            c.count("name_table_entries_resolved", 1);
            if r != want && !reported {
                reported = true;
                c.violate(
                    format!("name-table-offset|{tab}|resolves-to-other-name|{ver}"),
                    format!("[{stage}] {tab}[{i}] resolves to {r:?} but name {i} of the list is {want:?}"),
                    json!({"stage": stage, "entry": i, "resolves_to": r, "want": want}),
                );
            }
        }
    }
}

fn sub_present(m: &McnkChunk) -> u32 {
    let f = [
        m.heights.is_some(), m.normals.is_some(), m.layers.is_some(), m.refs.is_some(), m.alpha.is_some(), m.shadow.is_some(), m.liquid.is_some(),
        m.vertex_colors.is_some(), m.sound_emitters.is_some(), m.vertex_lighting.is_some(), m.blend_batches.is_some(),
    ];
    f.iter().enumerate().fold(0, |a, (b, on)| a | (*on as u32) << b)
}

/// Apply one pick of the edit plan to a parsed chunk. The parsed header (with the offsets, sizes and counts it was read with) stays in place:
/// those are the serializer's business. Content-bearing header fields the parser keys on are kept consistent (0x01 iff MCSH, 0x40 iff MCCV, ref counts iff MCRF).
fn apply_edit(ch: &mut McnkChunk, pick: &EditPick, allowed: u32) -> (u32, u32) {
    let old = sub_present(ch);
    let bits = |mask: u32| (0..SUBS.len()).filter(|b| mask & (1 << b) != 0).collect::<Vec<usize>>();
    let (present, absent) = (bits(old), bits(allowed & !old));
    let drop_one = |r: u32| old & !(1 << present[r as usize % present.len()]);
    let add_one = |r: u32| old | 1 << absent[r as usize % absent.len()];
    let new = match pick.mode {
        0 if !present.is_empty() => drop_one(pick.r),
        0 => add_one(pick.r),
        1 if !absent.is_empty() => add_one(pick.r),
        1 => drop_one(pick.r),
        2 => pick.r & allowed,
        3 => old,
        _ => old & !(1 << (pick.r as usize % SUBS.len())),
    };
    for b in 0..SUBS.len() {
        let (want, had) = (new & (1 << b) != 0, old & (1 << b) != 0);
        // a sub-chunk that stays is replaced by new contents in mode 3 and (by coin) in mode 2
        let take = want && (!had || ((pick.mode == 3 || pick.mode == 2) && (pick.r >> (b + 11)) & 1 == 1));
        macro_rules! ed {
            ($f:ident) => {
                if !want {
                    ch.$f = None
                } else if take {
                    ch.$f = pick.fresh.$f.clone()
                }
            };
        }
        match SUBS[b] {
            "MCVT" => ed!(heights),
            "MCNR" => ed!(normals),
            "MCLY" => ed!(layers),
            "MCRF" => {
                // the reference slot holds either MCRF or the MCRD / MCRW pair: edited as one
                ed!(refs);
                ed!(doodad_refs);
                ed!(wmo_refs);
                if !want {
                    (ch.header.n_doodad_refs, ch.header.n_map_obj_refs) = (0, 0);
                } else if take {
                    (ch.header.n_doodad_refs, ch.header.n_map_obj_refs) = (pick.fresh.header.n_doodad_refs, pick.fresh.header.n_map_obj_refs);
                }
            }
            "MCAL" => ed!(alpha),
            "MCSH" => ed!(shadow),
            "MCLQ" => ed!(liquid),
            "MCCV" => ed!(vertex_colors),
            "MCSE" => ed!(sound_emitters),
            "MCLV" => ed!(vertex_lighting),
            _ => ed!(blend_batches),
        }
    }
    let mut f = ch.header.flags.value & !0x41;
    if ch.shadow.is_some() {
        f |= 0x01;
    }
    if ch.vertex_colors.is_some() {
        f |= 0x40;
    }
    ch.header.flags.value = f;
    (old, new)
}

/// (e) parse -> modify -> from_root_adt -> to_bytes -> walk -> parse: the rebuilt file must carry exactly the modified content, and its
/// offset tables must describe the sub-chunks that are now there (not the ones the tile was parsed with).
fn edit_stage(c: &mut Case, input: &Input, root0: &RootAdt, ver: &str) {
    let stage = "edit";
    let mut edited = root0.clone();
    let n = edited.mcnk_chunks.len();
    let mut seen = BTreeSet::new();
    for pick in &input.edit.picks {
        if n == 0 {
            break;
        }
        let i = (pick.sel % n as u64) as usize;
        if !seen.insert(i) {
            continue;
        }
        let (old, new) = apply_edit(&mut edited.mcnk_chunks_mut()[i], pick, input.edit.allowed);
        c.count("edit_chunks_edited", 1);
        c.count("edit_via|mcnk_chunks_mut", 1);
        for (b, t) in SUBS.iter().enumerate() {
            match (old & (1 << b) != 0, new & (1 << b) != 0) {
                (true, false) => c.count(&format!("edit_subchunk_dropped|{t}"), 1),
                (false, true) => c.count(&format!("edit_subchunk_added|{t}"), 1),
                _ => {}
            }
        }
    }
    for (b, t) in TOPS.iter().enumerate() {
        if input.edit.top_drop & (1 << b) == 0 {
            continue;
        }
        let had = match *t {
            "MFBO" => edited.flight_bounds.take().is_some(),
            "MH2O" => edited.water_data.take().is_some(),
            "MTXF" => edited.texture_flags.take().is_some(),
            "MAMP" => edited.texture_amplifier.take().is_some(),
            "MTXP" => edited.texture_params.take().is_some(),
            _ => {
                let h = edited.blend_mesh_headers.take().is_some();
                edited.blend_mesh_bounds = None;
                edited.blend_mesh_vertices = None;
                edited.blend_mesh_indices = None;
                h
            }
        };
        if had {
            c.count(&format!("edit_root_optional_dropped|{t}"), 1);
        }
    }
    apply_root_edits(c, &mut edited, &input.extra.root_edits);
    let want = content_of_root(&edited);
    let xe = match trap(|| BuiltAdt::from_root_adt(edited.clone(), None).to_bytes()) {
        Err(p) => {
            c.violate(format!("edit-rebuild-panic|{}|{ver}", p.sig()), format!("[{stage}] from_root_adt/to_bytes panicked on a modified parsed tile: {}", p.msg), json!({}));
            return;
        }
        Ok(Err(e)) => {
            c.violate(format!("edit-rebuild-serialize-failed|{ver}"), format!("[{stage}] to_bytes failed on a modified parsed tile: {e}"), json!({}));
            return;
        }
        Ok(Ok(b)) => b,
    };
    c.count("edit_rebuilds", 1);
    // the documented load -> edit -> save route: AdtBuilder::from_parsed(edited).build() must write the modified tile as well
    if input.extra.edit_from_parsed {
        from_parsed_leg(c, &edited, &want, &xe, None, ver, "edit-from-parsed");
    }
    let we = walk_file(&xe);
    report_walk(c, &we, ver, stage);
    check_name_tables(c, &we, ver, stage, &edited.models, &edited.wmos);
    let Some(re) = parse_root(c, &xe, &we, ver, stage, "edit-rebuild-parse-failed") else { return };
    let got = content_of_root(&re);
    for (field, wv) in &want.top {
        let gv = got.top.get(field).cloned().unwrap_or(Value::Null);
        if *field == "texture_flags" && wv.is_null() && neutral_mtxf(&gv, edited.textures.len()) {
            c.count("default_mtxf_accepted", 1);
            c.count("fields_compared", 1);
            continue;
        }
        compare_field(c, format!("edit-content|{field}"), ver, "rebuilt tile != modified parsed tile", field, None, wv, &gv);
    }
    c.count("fields_compared", 1);
    if got.mcnk.len() != want.mcnk.len() {
        c.violate(format!("edit-content|mcnk.count|{ver}"), format!("[{stage}] {} MCNK chunks in the modified tile, {} after rebuild", want.mcnk.len(), got.mcnk.len()), json!({}));
    }
    for (i, wf) in want.mcnk.iter().enumerate() {
        let Some(gf) = got.mcnk.get(i) else { break };
        for (field, wv) in wf {
            compare_field(c, format!("edit-content|{field}"), ver, "rebuilt tile != modified parsed tile", field, Some(i), wv, gf.get(field).unwrap_or(&Value::Null));
        }
    }
}

/// Root-level edits of the parsed tile, every one made through the accessor the API offers for it. Only edits that keep the tile a valid
/// builder input are made (names are renamed / appended, never removed; placements refer to names that exist; doodad scale is not 0).
fn apply_root_edits(c: &mut Case, r: &mut RootAdt, e: &RootEdits) {
    if let Some((sel, name)) = &e.rename_texture {
        let t = r.textures_mut();
        if !t.is_empty() {
            let i = (*sel % t.len() as u64) as usize;
            t[i] = name.clone();
            c.count("edit_via|textures_mut", 1);
        }
    }
    if let Some(name) = &e.push_texture {
        r.textures_mut().push(name.clone());
        c.count("edit_via|textures_mut", 1);
    }
    if let Some(name) = &e.push_model {
        r.models_mut().push(name.clone());
        c.count("edit_via|models_mut", 1);
    }
    if let Some(name) = &e.push_wmo {
        r.wmos_mut().push(name.clone());
        c.count("edit_via|wmos_mut", 1);
    }
    let nm = r.models.len();
    let d = r.doodad_placements_mut();
    match e.doodad_mode {
        1 | 2 if nm > 0 => {
            let mut x = e.doodad_new;
            x.name_id %= nm as u32;
            if e.doodad_mode == 1 && !d.is_empty() {
                let i = (e.doodad_sel % d.len() as u64) as usize;
                d[i] = x;
            } else {
                d.push(x);
            }
            c.count("edit_via|doodad_placements_mut", 1);
        }
        3 if !d.is_empty() => {
            d.remove((e.doodad_sel % d.len() as u64) as usize);
            c.count("edit_via|doodad_placements_mut", 1);
        }
        _ => {}
    }
    let nw = r.wmos.len();
    let w = r.wmo_placements_mut();
    match e.wmop_mode {
        1 | 2 if nw > 0 => {
            let mut x = e.wmop_new;
            x.name_id %= nw as u32;
            if e.wmop_mode == 1 && !w.is_empty() {
                let i = (e.wmop_sel % w.len() as u64) as usize;
                w[i] = x;
            } else {
                w.push(x);
            }
            c.count("edit_via|wmo_placements_mut", 1);
        }
        3 if !w.is_empty() => {
            w.remove((e.wmop_sel % w.len() as u64) as usize);
            c.count("edit_via|wmo_placements_mut", 1);
        }
        _ => {}
    }
    if e.water_mode > 0 {
        if let Some(h) = r.water_data_mut() {
            if let Some(entry) = h.entries.iter_mut().find(|x| !x.instances.is_empty()) {
                if e.water_mode == 1 {
                    let ins = &mut entry.instances[0];
                    ins.min_height_level = e.water_levels[0];
                    ins.max_height_level = e.water_levels[1];
                    ins.liquid_type = e.water_type;
                } else {
                    *entry = Mh2oEntry::default();
                }
                c.count("edit_via|water_data_mut", 1);
            }
        }
    }
    if let (Some((hi, lo)), Some(m)) = (&e.mfbo, r.flight_bounds_mut()) {
        m.max_plane = *hi;
        m.min_plane = *lo;
        c.count("edit_via|flight_bounds_mut", 1);
    }
    if let (Some(v), Some(m)) = (e.mtxf, r.texture_flags_mut()) {
        match m.flags.first_mut() {
            Some(f) => *f = v,
            None => m.flags.push(v),
        }
        c.count("edit_via|texture_flags_mut", 1);
    }
    if let (Some(v), Some(m)) = (e.mamp, r.texture_amplifier_mut()) {
        m.amplifier = v;
        c.count("edit_via|texture_amplifier_mut", 1);
    }
    if let (Some((f, sc, of)), Some(m)) = (e.mtxp, r.texture_params_mut()) {
        if let Some(x) = m.entries.first_mut() {
            x.flags = f;
            x.height_scale = sc;
            x.height_offset = of;
            c.count("edit_via|texture_params_mut", 1);
        }
    }
}

/// The other way to serialise a parsed tile: AdtBuilder::from_parsed(root).build()?.to_bytes(). It must do what the statement asks of
/// re-serialisation: the bytes parse to the content of `root` (`want`), pass the walker, and (where `limit` is given) are not longer than the
/// file the tile was parsed from. `reference` = to_bytes(from_root_adt(root, None)), which the caller checks in full: when both routes write
/// the same bytes there is nothing left to examine; identical bytes are tallied, not demanded.
fn from_parsed_leg(c: &mut Case, root: &RootAdt, want: &Content, reference: &[u8], limit: Option<usize>, ver: &str, stage: &str) {
    c.count("from_parsed_builds", 1);
    let bytes = match trap(|| AdtBuilder::from_parsed(root.clone()).build().map(|b| b.to_bytes())) {
        Err(p) => {
            c.violate(format!("from-parsed-panic|{}|{ver}", p.sig()), format!("[{stage}] AdtBuilder::from_parsed(..).build()/to_bytes panicked on a parsed tile: {}", p.msg), json!({"stage": stage}));
            return;
        }
        Ok(Err(e)) => {
            let d = format!("{e:?}");
            let kind: String = d.chars().take_while(|ch| ch.is_alphanumeric()).collect();
            c.violate(format!("from-parsed-build-rejected|{kind}|{ver}"), format!("[{stage}] AdtBuilder::from_parsed(..).build() refuses a tile the library parsed from its own output: {e}"), json!({"stage": stage}));
            return;
        }
        Ok(Ok(Err(e))) => {
            c.violate(format!("from-parsed-serialize-failed|{ver}"), format!("[{stage}] to_bytes failed on AdtBuilder::from_parsed(..).build(): {e}"), json!({"stage": stage}));
            return;
        }
        Ok(Ok(Ok(b))) => b,
    };
    if bytes == reference {
        c.count("from_parsed_bytes_equal_from_root_adt", 1);
        return;
    }
    c.count("from_parsed_bytes_differ_from_from_root_adt", 1);
    let w = walk_file(&bytes);
    report_walk(c, &w, ver, stage);
    check_name_tables(c, &w, ver, stage, &root.models, &root.wmos);
    if limit.is_some_and(|l| bytes.len() > l) {
        c.violate(format!("from-parsed-grew|{ver}"), format!("[{stage}] the parsed tile came from {} bytes, AdtBuilder::from_parsed(..).build() serialises it to {}", limit.unwrap_or(0), bytes.len()), json!({"stage": stage}));
    }
    let Some(r) = parse_root(c, &bytes, &w, ver, stage, "from-parsed-parse-failed") else { return };
    let got = content_of_root(&r);
    for (field, wv) in &want.top {
        let gv = got.top.get(field).cloned().unwrap_or(Value::Null);
        if *field == "texture_flags" && wv.is_null() && neutral_mtxf(&gv, root.textures.len()) {
            c.count("fields_compared", 1);
            continue;
        }
        compare_field(c, format!("from-parsed-content|{field}"), ver, "tile written through AdtBuilder::from_parsed != the parsed tile", field, None, wv, &gv);
    }
    if got.mcnk.len() != want.mcnk.len() {
        c.violate(format!("from-parsed-content|mcnk.count|{ver}"), format!("[{stage}] {} MCNK chunks in the parsed tile, {} after AdtBuilder::from_parsed", want.mcnk.len(), got.mcnk.len()), json!({}));
    }
    for (i, wf) in want.mcnk.iter().enumerate() {
        let Some(gf) = got.mcnk.get(i) else { break };
        for (field, wv) in wf {
            compare_field(c, format!("from-parsed-content|{field}"), ver, "tile written through AdtBuilder::from_parsed != the parsed tile", field, Some(i), wv, gf.get(field).unwrap_or(&Value::Null));
        }
    }
}

/// oldest version that can carry a content field (None: every version)
fn field_min_version(field: &str) -> Option<AdtVersion> {
    match field {
        "flight_bounds" => Some(AdtVersion::TBC),
        "water" | "texture_flags" => Some(AdtVersion::WotLK),
        "texture_amplifier" | "mcnk.vertex_lighting" => Some(AdtVersion::Cataclysm),
        "texture_params" | "blend_mesh_headers" | "blend_mesh_bounds" | "blend_mesh_vertices" | "blend_mesh_indices" | "mcnk.blend_batches" => Some(AdtVersion::MoP),
        _ => None,
    }
}

/// (x) conversion: parse -> BuiltAdt::from_root_adt(parsed, Some(target)) -> to_bytes -> walk -> parse, for target versions old and new.
/// Every produced file must frame and index correctly, and must parse to the content of the source tile in every field the target version
/// can carry. Fields the target cannot carry are tallied (stripped / kept), nothing is demanded of them. Chunks a conversion adds on its own
/// with neutral values where the source has none (all-zero MFBO for TBC+, all-zero MTXF for WotLK+) are no content difference.
fn xver_stage(c: &mut Case, input: &Input, root0: &RootAdt, base: &Content) {
    for &t in &input.extra.xver_targets {
        let (target, tname) = VERSIONS[t];
        let stage = format!("convert-to-{tname}");
        let to = format!("to-{tname}");
        let xb = match trap(|| BuiltAdt::from_root_adt(root0.clone(), Some(target)).to_bytes()) {
            Err(p) => {
                c.violate(format!("xver-panic|{}|{to}", p.sig()), format!("[{stage}] from_root_adt(.., Some({tname}))/to_bytes panicked: {}", p.msg), json!({}));
                continue;
            }
            Ok(Err(e)) => {
                c.violate(format!("xver-serialize-failed|{to}"), format!("[{stage}] to_bytes failed on a converted tile: {e}"), json!({}));
                continue;
            }
            Ok(Ok(b)) => b,
        };
        c.count("xver_rebuilds", 1);
        c.count(&format!("xver_rebuilds|{}->{tname}", vname(root0.version)), 1);
        let w = walk_file(&xb);
        report_walk(c, &w, tname, &stage);
        check_name_tables(c, &w, tname, &stage, &root0.models, &root0.wmos);
        let Some(r) = parse_root(c, &xb, &w, tname, &stage, "xver-parse-failed") else { continue };
        c.count(&format!("xver_detected|{tname}->{}", vname(r.version)), 1);
        let got = content_of_root(&r);
        let cmp = |c: &mut Case, field: &'static str, chunk: Option<usize>, wv: &Value, gv: &Value| {
            if field_min_version(field).is_some_and(|m| target < m) {
                if !is_void(wv) {
                    c.count(if is_void(gv) { "xver_fields_not_carriable_stripped" } else { "xver_fields_not_carriable_kept" }, 1);
                }
                return;
            }
            if wv.is_null() && field == "texture_flags" && neutral_mtxf(gv, root0.textures.len()) {
                c.count("fields_compared", 1);
                return;
            }
            if wv.is_null() && field == "flight_bounds" && *gv == json!(([[0i16; 9], [0i16; 9]])) {
                c.count("xver_default_mfbo_accepted", 1);
                c.count("fields_compared", 1);
                return;
            }
            c.count("xver_fields_compared", 1);
            compare_field(c, format!("xver-content|{field}"), &to, "converted tile != source tile", field, chunk, wv, gv);
        };
        for (field, wv) in &base.top {
            cmp(c, *field, None, wv, got.top.get(field).unwrap_or(&Value::Null));
        }
        if got.mcnk.len() != base.mcnk.len() {
            c.violate(format!("xver-content|mcnk.count|{to}"), format!("[{stage}] {} MCNK chunks in the source tile, {} after conversion", base.mcnk.len(), got.mcnk.len()), json!({}));
        }
        for (i, wf) in base.mcnk.iter().enumerate() {
            let Some(gf) = got.mcnk.get(i) else { break };
            for (field, wv) in wf {
                cmp(c, *field, Some(i), wv, gf.get(field).unwrap_or(&Value::Null));
            }
        }
    }
}

/// parse_adt_with_metadata is the other parse entry point: the same tile, and metadata that describes the file the way the independent
/// walker sees it (root file, the version the tile carries, every top-level chunk with its offset and size).
fn metadata_stage(c: &mut Case, x0: &[u8], w0: &Walk, root0: &RootAdt, base: &Content) {
    c.count("parsed_with_metadata", 1);
    let (adt, md) = match trap(|| wow_adt::parse_adt_with_metadata(&mut Cursor::new(x0))) {
        Err(p) => {
            c.violate(format!("with-metadata|panic|{}", p.sig()), format!("parse_adt_with_metadata panicked: {}", p.msg), json!({}));
            return;
        }
        Ok(Err(e)) => {
            c.violate("with-metadata|fails-where-parse_adt-succeeds".to_string(), format!("parse_adt_with_metadata fails on bytes parse_adt reads: {e}"), json!({}));
            return;
        }
        Ok(Ok(x)) => x,
    };
    match adt {
        ParsedAdt::Root(r) => {
            let k = content_of_root(&r);
            if k.top != base.top || k.mcnk != base.mcnk || r.version != root0.version {
                c.violate("with-metadata|tile-differs-from-parse_adt".to_string(), "parse_adt_with_metadata yields another tile than parse_adt on the same bytes".to_string(), json!({}));
            }
            if md.version != r.version {
                c.violate("with-metadata|version-ne-tile-version".to_string(), format!("metadata.version = {:?}, the tile it came with says {:?}", md.version, r.version), json!({}));
            }
        }
        o => c.violate("with-metadata|not-root".to_string(), format!("parse_adt_with_metadata classifies the tile as {:?}", o.file_type()), json!({})),
    }
    if md.file_type != wow_adt::AdtFileType::Root {
        c.violate("with-metadata|file-type-not-root".to_string(), format!("metadata.file_type = {:?} for a root tile", md.file_type), json!({}));
    }
    // the walker's frames are the reference only where its own framing walk tiled the file
    let tiled = w0.frames.iter().map(|f| 8 + f.size).sum::<usize>() == x0.len();
    if tiled {
        if md.chunk_count != w0.frames.len() || md.discovery.total_chunks != w0.frames.len() {
            c.violate("with-metadata|chunk-count-ne-walker".to_string(), format!("metadata.chunk_count = {}, discovery.total_chunks = {}, the file has {} top-level chunks", md.chunk_count, md.discovery.total_chunks, w0.frames.len()), json!({}));
        }
        if md.discovery.file_size != x0.len() as u64 {
            c.violate("with-metadata|file-size".to_string(), format!("discovery.file_size = {}, the file has {} bytes", md.discovery.file_size, x0.len()), json!({}));
        }
        let mut bad = 0;
        for f in &w0.frames {
            let id = wow_adt::ChunkId([x0[f.off], x0[f.off + 1], x0[f.off + 2], x0[f.off + 3]]);
            let found = md.discovery.get_chunks(id).is_some_and(|v| v.iter().any(|l| l.offset == f.off as u64 && l.size as usize == f.size));
            c.count("metadata_chunk_locations_checked", 1);
            if !found {
                bad += 1;
                if bad == 1 {
                    c.violate("with-metadata|chunk-location-ne-walker".to_string(), format!("the file has a {} chunk of {} bytes at {}, the discovery record has no such entry", f.magic, f.size, f.off), json!({}));
                }
            }
        }
    }
}

/// a root chunk the serializer adds on its own with neutral values when none was supplied is not a content difference
fn neutral_mtxf(got: &Value, ntex: usize) -> bool {
    got.as_array().is_some_and(|a| a.len() == ntex && a.iter().all(|x| x == &json!(0)))
}

fn parse_root(c: &mut Case, bytes: &[u8], w: &Walk, ver: &str, stage: &str, sig_stem: &str) -> Option<RootAdt> {
    // structural trigger predicate for the signature: which sub-chunk ends the file
    let trig = match w.file_ends_with_sub.as_deref() {
        Some("MCLQ") => "file-ends-with-MCLQ",
        _ => "other-file-end",
    };
    match trap(|| parse_adt(&mut Cursor::new(bytes))) {
        Err(p) => {
            c.violate(format!("{sig_stem}|panic|{}|{ver}", p.sig()), format!("[{stage}] parse_adt panicked: {}", p.msg), json!({"len": bytes.len()}));
            None
        }
        Ok(Err(e)) => {
            let d = format!("{e:?}");
            let kind: String = d.chars().take_while(|ch| ch.is_alphanumeric()).collect();
            c.count("cases_cut_short_by_parse_failure", 1);
            c.violate(format!("{sig_stem}|{kind}|{trig}|{ver}"), format!("[{stage}] parse_adt rejected a file the library wrote itself ({trig}): {e}"), json!({"len": bytes.len(), "error": d.chars().take(300).collect::<String>()}));
            None
        }
        Ok(Ok(ParsedAdt::Root(r))) => Some(*r),
        Ok(Ok(other)) => {
            c.violate(format!("{sig_stem}|not-root|{ver}"), format!("[{stage}] the file was classified as {:?}, not as a root tile", other.file_type()), json!({"len": bytes.len()}));
            None
        }
    }
}

fn is_void(v: &Value) -> bool {
    v.is_null() || v.as_array().is_some_and(|a| a.is_empty()) || v.as_str().is_some_and(|s| s.is_empty()) || v.as_object().is_some_and(|o| o.is_empty())
}

/// Structural shape of a difference (part of the signature: separates "dropped" from "garbage appended" from "altered").
fn diff_shape(want: &Value, got: &Value) -> &'static str {
    if is_void(want) {
        return "phantom";
    }
    if is_void(got) {
        return "missing";
    }
    match (want, got) {
        (Value::Array(w), Value::Array(g)) if g.len() > w.len() && g[..w.len()] == w[..] => "extra-tail",
        (Value::Array(w), Value::Array(g)) if g.len() < w.len() && w[..g.len()] == g[..] => "truncated",
        (Value::String(w), Value::String(g)) if g.len() > w.len() && g.starts_with(w.as_str()) => "extra-tail",
        (Value::String(w), Value::String(g)) if g.len() < w.len() && w.starts_with(g.as_str()) => "truncated",
        _ => "differs",
    }
}

fn compare_field(c: &mut Case, sig_stem: String, ver: &str, what: &str, field: &str, chunk: Option<usize>, want: &Value, got: &Value) {
    c.count("fields_compared", 1);
    if want != got {
        let at = chunk.map_or(String::new(), |i| format!(" of MCNK #{i}"));
        let shape = diff_shape(want, got);
        c.violate(
            format!("{sig_stem}|{shape}|{ver}"),
            format!("{what}: {field}{at} {shape}: expected {} got {}", brief_value(want), brief_value(got)),
            json!({"field": field, "mcnk": chunk, "shape": shape, "want": brief_value(want), "got": brief_value(got)}),
        );
    }
}

fn check_case(c: &mut Case, input: &Input) {
    let ver = vname(input.version);
    // ---- build
    let built: BuiltAdt = match trap(|| input.builder().build()) {
        Err(p) => {
            let documented = ["Invalid texture filename", "Invalid model filename", "Invalid WMO filename", "Doodad placement scale must be"];
            if documented.iter().any(|d| p.msg.starts_with(d)) {
                c.count("rejected", 1);
                c.count(&format!("rejected|{}", input.invalid.unwrap_or("valid-input")), 1);
                if input.invalid.is_none() {
                    c.violate(format!("valid-input-rejected|panic|{ver}"), format!("the builder refused an input the generator believes valid: {}", p.msg), json!({}));
                }
                c.nontrivial = false;
            } else {
                c.violate(format!("build-panic|{}|{ver}", p.sig()), format!("AdtBuilder panicked: {}", p.msg), json!({}));
            }
            return;
        }
        Ok(Err(e)) => {
            c.count("rejected", 1);
            c.count(&format!("rejected|{}", input.invalid.unwrap_or("valid-input")), 1);
            c.note(json!({"rejected": format!("{e}")}));
            if input.invalid.is_none() {
                c.violate(format!("valid-input-rejected|err|{ver}"), format!("the builder refused an input the generator believes valid: {e}"), json!({}));
            }
            c.nontrivial = false;
            return;
        }
        Ok(Ok(b)) => b,
    };
    if let Some(k) = input.invalid {
        c.count(&format!("accepted_invalid|{k}"), 1);
    }
    c.count("tiles_built", 1);
    c.count(&format!("tiles_built|{ver}"), 1);
    c.count(["textures_entered_by|add_texture", "textures_entered_by|add_textures", "textures_entered_by|add_texture+add_textures"][input.extra.texture_entry as usize], 1);
    c.count("mcnk_supplied", input.mcnks.len() as u64);
    c.count("names_supplied", (input.textures.len() + input.models.len() + input.wmos.len()) as u64);
    c.count("placements_supplied", (input.doodads.len() + input.wmops.len()) as u64);
    for (b, t) in TOPS.iter().enumerate() {
        if input.top_bits & (1 << b) != 0 {
            c.count(&format!("root_optional_supplied|{t}"), 1);
        }
    }
    for pat in &input.sub_patterns {
        for (b, t) in SUBS.iter().enumerate() {
            if pat & (1 << b) != 0 {
                c.count(&format!("subchunk_supplied|{t}"), 1);
            }
        }
    }
    c.count("water_chunks_supplied", input.water_chunks.len() as u64);
    if let Some(w) = &input.mh2o {
        c.count("water_instances_supplied", w.entries.iter().map(|e| e.instances.len() as u64).sum());
        c.count("water_vertex_grids_supplied", w.entries.iter().map(|e| e.vertex_data.iter().filter(|v| v.is_some()).count() as u64).sum());
    }
    // ---- serialise
    let x0 = match trap(|| built.to_bytes()) {
        Err(p) => {
            c.violate(format!("serialize-panic|{}|{ver}", p.sig()), format!("to_bytes panicked: {}", p.msg), json!({}));
            return;
        }
        Ok(Err(e)) => {
            c.violate(format!("serialize-failed|{ver}"), format!("to_bytes failed on a tile the builder accepted: {e}"), json!({}));
            return;
        }
        Ok(Ok(b)) => b,
    };
    c.count("bytes_serialised", x0.len() as u64);
    // ---- the same tile saved to disk: into a fresh path, and over an existing, longer file (a tile saved again after it
    // was edited down): the file holds exactly the serialised tile
    let mut adt_set_root: Option<RootAdt> = None;
    if let Some(dir) = SCRATCH.get() {
        let path = dir.join(format!("c14-{}-tile.adt", std::process::id()));
        for prior in ["fresh-path", "over-a-longer-file", "over-a-shorter-file"] {
            let _ = std::fs::remove_file(&path);
            match prior {
                "over-a-longer-file" => {
                    let mut old = x0.clone();
                    old.extend(std::iter::repeat_n(0xEEu8, 2949));
                    let _ = std::fs::write(&path, old);
                }
                "over-a-shorter-file" => {
                    let _ = std::fs::write(&path, &x0[..x0.len() / 2]);
                }
                _ => {}
            }
            c.count(&format!("files_written|{prior}"), 1);
            match trap(|| built.write_to_file(&path)) {
                Err(p) => c.violate(format!("write-to-file-panic|{}|{ver}", p.sig()), format!("write_to_file panicked: {}", p.msg), json!({"prior": prior})),
                Ok(Err(e)) => c.violate(format!("write-to-file-failed|{prior}|{ver}"), format!("write_to_file failed on a tile to_bytes serialises: {e}"), json!({"prior": prior})),
                Ok(Ok(())) => match std::fs::read(&path) {
                    Ok(on_disk) if on_disk == x0 => c.count("files_equal_to_serialised_tile", 1),
                    Ok(on_disk) => c.violate(format!("file-ne-serialised-tile|{prior}|{}", if on_disk.len() > x0.len() { "longer" } else if on_disk.len() < x0.len() { "shorter" } else { "same-length" }),
                                            format!("write_to_file ({prior}) left {} bytes on disk, the tile serialises to {} bytes (first difference at {})", on_disk.len(), x0.len(), vh_common::first_diff(&on_disk, &x0)), json!({"prior": prior, "version": format!("{ver}")})),
                    Err(e) => c.violate(format!("write-to-file-failed|{prior}|{ver}"), format!("the written file cannot be read back: {e}"), json!({})),
                },
            }
        }
        // ---- the saved tile read back the way a map loader does: AdtSet::load_from_path(root file) + merge(). No companion files
        // (_tex0 / _obj0 / _lod) lie next to it - a tile written by the builder is one self-contained root file
        // (every second case: the route does not depend on what the tile holds beyond what parse_adt reads)
        if c.idx % 2 == 1 && std::fs::read(&path).is_ok_and(|d| d == x0) {
            c.count("adt_set_loads", 1);
            match trap(|| wow_adt::AdtSet::load_from_path(&path).map(|s| (s.texture.is_some() || s.object.is_some() || s.lod.is_some(), s.merge()))) {
                Err(p) => c.violate(format!("adt-set-load-panic|{}", p.sig()), format!("AdtSet::load_from_path panicked: {}", p.msg), json!({})),
                Ok(Err(e)) => {
                    let d = format!("{e:?}");
                    let kind: String = d.chars().take_while(|ch| ch.is_alphanumeric()).collect();
                    c.violate(format!("adt-set-load-failed|root-file-without-companions|{kind}"), format!("AdtSet::load_from_path fails on a tile saved with write_to_file (no split files next to it): {e}"), json!({"error": d.chars().take(300).collect::<String>()}));
                }
                Ok(Ok((companions, merged))) => {
                    if companions {
                        c.violate("adt-set-load|companion-from-nowhere".to_string(), "AdtSet::load_from_path reports a texture / object / lod file where only the root file exists".to_string(), json!({}));
                    }
                    match merged {
                        Ok(r) => adt_set_root = Some(r),
                        Err(e) => c.violate("adt-set-merge-failed|root-file-without-companions".to_string(), format!("AdtSet::merge fails on a lone root tile: {e}"), json!({})),
                    }
                }
            }
        }
        let _ = std::fs::remove_file(&path);
        // ---- tiles of one map exported at the same time into one directory (a worker pool): every path holds its tile
        if c.idx % 4 == 0 {
            let nthreads = 4usize;
            let paths: Vec<std::path::PathBuf> = (0..nthreads).map(|t| dir.join(format!("c14-{}-map_{}_{t}.adt", std::process::id(), c.idx % 64))).collect();
            for round in 0..3 {
                for p in &paths {
                    let _ = std::fs::remove_file(p);
                }
                let barrier = std::sync::Barrier::new(nthreads);
                let outcomes: Vec<Result<Result<(), String>, vh_common::PanicInfo>> = std::thread::scope(|sc| {
                    let hs: Vec<_> = paths
                        .iter()
                        .map(|p| {
                            let (barrier, built) = (&barrier, &built);
                            sc.spawn(move || {
                                barrier.wait();
                                trap(|| built.write_to_file(p).map_err(|e| e.to_string()))
                            })
                        })
                        .collect();
                    hs.into_iter().map(|h| h.join().unwrap_or_else(|_| Ok(Err("thread died".into())))).collect()
                });
                c.count("concurrent_file_writes", nthreads as u64);
                for (p, o) in paths.iter().zip(outcomes) {
                    match o {
                        Err(pn) => c.violate(format!("write-to-file-panic|{}|{ver}", pn.sig()), format!("write_to_file panicked: {}", pn.msg), json!({"prior": "concurrent"})),
                        Ok(Err(e)) => c.violate(format!("write-to-file-failed|concurrent-same-directory|{ver}"), format!("write_to_file failed while other tiles were written into the same directory (round {round}): {e}"), json!({"prior": "concurrent"})),
                        Ok(Ok(())) => match std::fs::read(p) {
                            Ok(d) if d == x0 => c.count("files_equal_to_serialised_tile", 1),
                            Ok(d) => c.violate("file-ne-serialised-tile|concurrent-same-directory".to_string(), format!("after concurrent writes into one directory a tile file holds {} bytes, the tile serialises to {} (first difference at {})", d.len(), x0.len(), vh_common::first_diff(&d, &x0)), json!({"prior": "concurrent"})),
                            Err(e) => c.violate(format!("write-to-file-failed|concurrent-same-directory|{ver}"), format!("write_to_file returned Ok and the file cannot be read: {e}"), json!({"prior": "concurrent"})),
                        },
                    }
                }
                let strays: Vec<String> = std::fs::read_dir(dir).map(|d| d.filter_map(|e| e.ok()).map(|e| e.file_name().to_string_lossy().into_owned()).filter(|n| n.contains(&format!("c14-{}-map_", std::process::id())) && !paths.iter().any(|p| p.file_name().map(|f| f.to_string_lossy() == n.as_str()).unwrap_or(false))).collect()).unwrap_or_default();
                if !strays.is_empty() {
                    c.violate("write-to-file-left-other-files".to_string(), format!("after the writes the directory holds files nobody asked for: {strays:?}"), json!({}));
                    for sname in strays {
                        let _ = std::fs::remove_file(dir.join(sname));
                    }
                }
            }
            for p in &paths {
                let _ = std::fs::remove_file(p);
            }
        }
    }
    // ---- (c) walker on the first file
    let w0 = walk_file(&x0);
    report_walk(c, &w0, ver, "build");
    check_name_tables(c, &w0, ver, "build", &input.models, &input.wmos);
    // ---- (a) parse and compare with the builder input
    let Some(root0) = parse_root(c, &x0, &w0, ver, "build", "parse-failed") else { return };
    c.count(&format!("detected|{ver}->{}", vname(root0.version)), 1);
    // ---- the same bytes through other ways a caller reads them: one reader used for the framing scan and then for the parse
    // (the two-pass use the API documents), the same reader parsed twice, and a source that returns short reads
    {
        let base = content_of_root(&root0);
        let same = |r: &RootAdt| {
            let k = content_of_root(r);
            k.top == base.top && k.mcnk == base.mcnk
        };
        let mut cur = Cursor::new(x0.clone());
        let scan = trap(|| wow_adt::chunk_discovery::discover_chunks(&mut cur).map(|d| d.total_chunks));
        let first = trap(|| parse_adt(&mut cur));
        let second = trap(|| parse_adt(&mut cur));
        let mut short = vh_common::ShortIo::new(Cursor::new(x0.clone()), 1 + (c.idx % 11) as usize * 5);
        let third = trap(|| parse_adt(&mut short));
        for (how, r) in [("after-discover_chunks-on-the-same-reader", first), ("second-parse-on-the-same-reader", second), ("short-reads", third)] {
            c.count(&format!("reparsed|{how}"), 1);
            match r {
                Ok(Ok(ParsedAdt::Root(r))) if same(&r) => {}
                Ok(Ok(ParsedAdt::Root(_))) => c.violate(format!("reparse-differs|{how}"), format!("parse_adt ({how}) yields other content than the parse from a fresh cursor"), json!({})),
                Ok(Ok(o)) => c.violate(format!("reparse-differs|{how}|not-root"), format!("parse_adt ({how}) classifies the tile as {:?}", o.file_type()), json!({})),
                Ok(Err(e)) => c.violate(format!("reparse-fails|{how}"), format!("parse_adt ({how}) fails on bytes that parse from a fresh cursor: {e}"), json!({})),
                Err(p) => c.violate(format!("reparse-panic|{how}|{}", p.sig()), p.msg.clone(), json!({})),
            }
        }
        if !matches!(scan, Ok(Ok(n)) if n > 0) {
            c.violate("discover-chunks-fails-on-own-output".to_string(), "discover_chunks fails or finds nothing in a tile the library wrote".to_string(), json!({}));
        }
    }
    let want = content_of_input(input);
    let mut prev = content_of_root(&root0);
    metadata_stage(c, &x0, &w0, &root0, &prev);
    if let Some(r) = &adt_set_root {
        let k = content_of_root(r);
        if k.top != prev.top || k.mcnk != prev.mcnk || r.version != root0.version {
            c.violate("adt-set-tile-differs-from-parse_adt".to_string(), "write_to_file -> AdtSet::load_from_path -> merge yields another tile than parse_adt on the serialised bytes".to_string(), json!({}));
        } else {
            c.count("adt_set_tiles_equal_to_parsed_tile", 1);
        }
    }
    for (field, wv) in &want.top {
        let gv = prev.top.get(field).cloned().unwrap_or(Value::Null);
        // a root chunk the serializer adds on its own with neutral values when none was supplied is not a content difference
        if *field == "texture_flags" && wv.is_null() && neutral_mtxf(&gv, input.textures.len()) {
            c.count("default_mtxf_accepted", 1);
            c.count("fields_compared", 1);
            continue;
        }
        compare_field(c, format!("parse-content|{field}"), ver, "parsed tile != builder input", field, None, wv, &gv);
    }
    if !input.mcnks.is_empty() {
        c.count("fields_compared", 1);
        if prev.mcnk.len() != input.mcnks.len() {
            c.violate(format!("parse-content|mcnk.count|{ver}"), format!("{} MCNK chunks supplied, {} parsed", input.mcnks.len(), prev.mcnk.len()), json!({}));
        }
        for (i, wf) in want.mcnk.iter().enumerate() {
            let Some(gf) = prev.mcnk.get(i) else { break };
            c.count("mcnk_compared", 1);
            for (field, wv) in wf {
                compare_field(c, format!("parse-content|{field}"), ver, "parsed tile != builder input", field, Some(i), wv, gf.get(field).unwrap_or(&Value::Null));
            }
        }
    } else {
        c.count("filler_tiles", 1);
        c.count("filler_mcnk_parsed", prev.mcnk.len() as u64);
    }
    // ---- (e) parse -> modify -> rebuild
    edit_stage(c, input, &root0, ver);
    // ---- (x) parse -> from_root_adt(Some(target)) -> to_bytes -> walk -> parse
    xver_stage(c, input, &root0, &prev);
    // ---- (b) parse -> from_root_adt -> to_bytes -> parse, rounds 1..4
    let mut prev_root = root0;
    let mut prev_bytes = x0;
    let mut prev_walk = w0;
    for round in 1..=MAX_ROUNDS {
        let stage = format!("round{round}");
        let xr = match trap(|| BuiltAdt::from_root_adt(prev_root.clone(), None).to_bytes()) {
            Err(p) => {
                c.violate(format!("rebuild-panic|{}|{ver}", p.sig()), format!("[{stage}] from_root_adt/to_bytes panicked: {}", p.msg), json!({}));
                return;
            }
            Ok(Err(e)) => {
                c.violate(format!("rebuild-serialize-failed|{stage}|{ver}"), format!("[{stage}] to_bytes failed on a parsed tile: {e}"), json!({}));
                return;
            }
            Ok(Ok(b)) => b,
        };
        c.count("rounds", 1);
        if round == 1 {
            from_parsed_leg(c, &prev_root, &prev, &xr, Some(prev_bytes.len()), ver, "from-parsed");
        }
        let wr = walk_file(&xr);
        report_walk(c, &wr, ver, &stage);
        check_name_tables(c, &wr, ver, &stage, &prev_root.models, &prev_root.wmos);
        if xr.len() > prev_bytes.len() {
            // attribute the growth to the chunk kinds whose byte total grew (structural, seed-independent)
            let mut kinds: Vec<String> = Vec::new();
            for (k, n) in &wr.bytes_by_kind {
                if k != "MCNK" && *n > prev_walk.bytes_by_kind.get(k).copied().unwrap_or(0) {
                    kinds.push(k.clone());
                }
            }
            if kinds.is_empty() {
                kinds.push("unattributed".into());
            }
            for k in kinds {
                let (a, b) = (prev_walk.bytes_by_kind.get(&k).copied().unwrap_or(0), wr.bytes_by_kind.get(&k).copied().unwrap_or(0));
                c.violate(
                    format!("rebuild-grew|{k}|{ver}"),
                    format!("[{stage}] re-serialising the parsed tile grew the file {} -> {} bytes; {k} bytes {a} -> {b}", prev_bytes.len(), xr.len()),
                    json!({"round": round, "before": prev_bytes.len(), "after": xr.len(), "kind": k, "kind_before": a, "kind_after": b}),
                );
            }
        } else {
            c.count("rounds_not_grown", 1);
        }
        let Some(rr) = parse_root(c, &xr, &wr, ver, &stage, &format!("rebuild-parse-failed|{stage}")) else { return };
        let cur = content_of_root(&rr);
        for (field, pv) in &prev.top {
            compare_field(c, format!("rebuild-content|{field}|{stage}"), ver, "content changed across parse->rebuild->parse", field, None, pv, cur.top.get(field).unwrap_or(&Value::Null));
        }
        c.count("fields_compared", 1);
        if cur.mcnk.len() != prev.mcnk.len() {
            c.violate(format!("rebuild-content|mcnk.count|{stage}|{ver}"), format!("[{stage}] {} MCNK chunks before, {} after", prev.mcnk.len(), cur.mcnk.len()), json!({}));
        }
        for (i, pf) in prev.mcnk.iter().enumerate() {
            let Some(cf) = cur.mcnk.get(i) else { break };
            for (field, pv) in pf {
                compare_field(c, format!("rebuild-content|{field}|{stage}"), ver, "content changed across parse->rebuild->parse", field, Some(i), pv, cf.get(field).unwrap_or(&Value::Null));
            }
        }
        if xr.len() > ROUND_SIZE_CAP {
            c.count("rounds_cut_by_size_cap", (MAX_ROUNDS - round) as u64);
            break;
        }
        prev = cur;
        prev_root = rr;
        prev_bytes = xr;
        prev_walk = wr;
    }
}

static SCRATCH: std::sync::OnceLock<std::path::PathBuf> = std::sync::OnceLock::new();

fn main() {
    let mut run = Run::new();
    let thorough = run.args.thorough();
    let seed = run.args.seed;
    let _ = SCRATCH.set(std::path::PathBuf::from(&run.args.scratch));
    // deterministic case table: covering array over the tile-level axes + random points + explicit invalid inputs
    let mut crng = Rng::new(seed ^ 0xC14);
    let sub_rows = covering_array(&vec![2usize; SUBS.len()], if thorough { 3 } else { 2 }, &mut crng);
    //           version  nmcnk names placements  MFBO MH2O MTXF MAMP MTXP BLEND
    let axes = [6usize, 4, 3, 3, 2, 2, 2, 2, 2, 2];
    let mut points: Vec<Spec> = Vec::new();
    // (i) isolated-feature cases, independent of the seed's random choices of *shape*: per version a bare tile (256 filler chunks), one empty MCNK,
    //     one MCNK per single sub-chunk, one per single root-optional chunk, and one with everything the version can carry.
    for v in 0..6 {
        let base = |n: usize, names: usize, plc: usize| vec![v, n, names, plc, 0, 0, 0, 0, 0, 0];
        let ver = VERSIONS[v].0;
        points.push(Spec { point: base(0, 0, 0), invalid: None, sub: None, top: Some(0), label: Some("iso:bare".into()) });
        points.push(Spec { point: base(1, 0, 0), invalid: None, sub: Some(0), top: Some(0), label: Some("iso:mcnk-empty".into()) });
        points.push(Spec { point: base(1, 1, 1), invalid: None, sub: Some(0b111), top: Some(0), label: Some("iso:names+placements".into()) });
        points.push(Spec { point: base(1, 3, 1), invalid: None, sub: Some(0b111), top: Some(0), label: Some("iso:names-multibyte".into()) });
        for (b, name) in SUBS.iter().enumerate() {
            if (*name == "MCLV" && ver < AdtVersion::Cataclysm) || (*name == "MCBB" && ver < AdtVersion::MoP) {
                continue;
            }
            points.push(Spec { point: base(1, 0, 0), invalid: None, sub: Some(1 << b), top: Some(0), label: Some(format!("iso:sub-{name}")) });
        }
        let mut all_top = 0u32;
        for (b, name) in TOPS.iter().enumerate() {
            if ver < top_min_version(name) {
                continue;
            }
            all_top |= 1 << b;
            points.push(Spec { point: base(1, 0, 0), invalid: None, sub: Some(0b111), top: Some(1 << b), label: Some(format!("iso:top-{name}")) });
        }
        points.push(Spec { point: base(2, 1, 1), invalid: None, sub: Some((1 << SUBS.len()) - 1), top: Some(all_top), label: Some("iso:everything".into()) });
    }
    // (ii) pairwise covering array over the tile-level axes, (iii) random points
    points.extend(covering_array(&axes, 2, &mut crng).into_iter().map(|p| Spec { point: p, invalid: None, sub: None, top: None, label: None }));
    let nrandom = if thorough { 3400 } else { 420 };
    for _ in 0..nrandom {
        let mut p: Vec<usize> = axes.iter().map(|&s| crng.usize(s)).collect();
        // nmcnk: 0 / 1 / 17 / 256 and (class 4) an arbitrary count 2..255; 256-chunk tiles are the expensive ones
        p[1] = match crng.below(20) {
            0..=2 => 0,
            3..=7 => 1,
            8..=14 => 2,
            15..=17 => 3,
            _ => 4,
        };
        points.push(Spec { point: p, invalid: None, sub: None, top: None, label: None });
    }
    // (iv) deliberately invalid inputs: every (incompatible chunk, version that cannot carry it) pair once per repetition, the other kinds on a random version
    let ninvalid = if thorough { 12 } else { 1 };
    for _rep in 0..ninvalid {
        for &k in INVALID_KINDS {
            let versions: Vec<usize> = if let Some(t) = k.strip_prefix("incompatible-") {
                (0..6).filter(|&i| VERSIONS[i].0 < top_min_version(t)).collect()
            } else if k.starts_with("blend-") {
                vec![5]
            } else {
                vec![crng.usize(6)]
            };
            for v in versions {
                let mut p: Vec<usize> = axes.iter().map(|&s| crng.usize(s)).collect();
                p[0] = v;
                p[1] = crng.usize(3);
                points.push(Spec { point: p, invalid: Some(k), sub: None, top: None, label: None });
            }
        }
    }
    run.extra("case_points", json!(points.len()));
    run.extra("subchunk_covering_rows", json!(sub_rows.len()));
    let protos = protos();
    let mut patterns_seen: BTreeSet<u32> = BTreeSet::new();
    let mut top_patterns_seen: BTreeSet<String> = BTreeSet::new();
    for (i, spec) in points.iter().enumerate() {
        let (point, invalid) = (&spec.point, &spec.invalid);
        let idx = i as u64;
        if !run.want(idx) {
            continue;
        }
        let p = match &protos {
            Ok(p) => p,
            Err(why) => {
                let why = why.clone();
                run.case(idx, "no-prototypes", json!({"point": point}), |c| c.inconclusive(format!("prototype objects unavailable: {why}")));
                continue;
            }
        };
        let mut rng = run.rng(idx, 0);
        let mut rng2 = run.rng(idx, 1);
        let input = gen_input(&mut rng, &mut rng2, p, spec, &sub_rows, thorough);
        let ver = vname(input.version);
        let nclass = match input.mcnks.len() {
            0 => "n0".to_string(),
            1 => "n1".to_string(),
            17 => "n17".to_string(),
            256 => "n256".to_string(),
            n if n > 256 => "n>256".to_string(),
            _ => "n2..255".to_string(),
        };
        let class = match &spec.label {
            Some(l) => format!("{ver}|{l}"),
            None => format!("{ver}|{nclass}|top{:06b}|names{}|plc{}|{}", input.top_bits, point[2], point[3], invalid.unwrap_or("valid")),
        };
        let mut desc = input.describe();
        desc["case_kind"] = json!(spec.label.clone().unwrap_or_else(|| "generated".into()));
        run.case(idx, &class, desc, |c| check_case(c, &input));
        patterns_seen.extend(input.sub_patterns.iter().copied());
        top_patterns_seen.insert(format!("{ver}|{:06b}", input.top_bits));
    }
    run.extra("subchunk_patterns_seen", json!(patterns_seen.iter().collect::<Vec<_>>()));
    run.extra("version_x_root_optional_patterns_seen", json!(top_patterns_seen.iter().collect::<Vec<_>>()));
    run.done();
}
