//! C05 — parsers are total: worker for the nine non-MPQ formats
//! (M2, skin, anim, ADT, WMO root + group, BLP, DBC, WDT, WDL).  DESIGN.md §6 C05.
//!
//! The engine (mutations, monitors, forked execution) is `../c05_common.rs`; each `c05_fmt_*.rs` contributes
//! `formats() -> Vec<FormatDef>` = seeds written by the library's own writers + a driver that calls exactly the
//! entry points of the property's `observe_at` list, each driven to completion.
//!
//! Extra flags: `--format <name>` restricts the worker to one format, `--mutant k` (with `--only idx`) replays a
//! single mutant of a batch.

#[path = "../c05_common.rs"]
mod c05_common;
#[path = "../c05_fmt_adt.rs"]
mod fmt_adt;
#[path = "../c05_fmt_m2.rs"]
mod fmt_m2;
#[path = "../c05_fmt_tables.rs"]
mod fmt_tables;
#[path = "../c05_fmt_wmo.rs"]
mod fmt_wmo;
#[path = "../c05_fmt_world.rs"]
mod fmt_world;

#[global_allocator]
static A: c05_common::SiteAlloc = c05_common::SiteAlloc;

fn main() {
    let mut formats = Vec::new();
    formats.extend(fmt_m2::formats()); // m2, skin, anim
    formats.extend(fmt_adt::formats()); // adt
    formats.extend(fmt_wmo::formats()); // wmo-root, wmo-group
    formats.extend(fmt_tables::formats()); // blp, dbc
    formats.extend(fmt_world::formats()); // wdt, wdl
    // havoc budget per format (DESIGN.md §6 C05): 2 000 quick / 50 000 thorough
    c05_common::worker_main(formats, 2000, 50_000);
}
