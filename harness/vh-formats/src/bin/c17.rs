//! C17 — DBC tables survive write→parse and all access paths agree. DESIGN.md §6 C17.
//!
//! Model = a generated table (schema + records, strings as text). An independent WDBC
//! encoder (written from the format: 20-byte header = magic, record count, field count,
//! record size, string block size; records with fields in schema order, arrays flattened,
//! little-endian, Bool and String as 4 bytes; string block starting with a NUL, strings
//! NUL-terminated, a string field holds a byte offset into the block) turns the model into
//! bytes. Every access path of the library must then return the model's values; the
//! library's writer must round-trip them, obey the size formula and store identical
//! strings once; key lookups must return a record carrying the key.

use serde_json::{Value as J, json};
use std::collections::{BTreeMap, HashMap, HashSet};
use std::io::Cursor;
use std::path::{Path, PathBuf};
use std::sync::Arc;
use vh_common::{Case, PanicInfo, Rng, Run, trap};
use wow_cdbc::{
    CachedStringBlock, DbcParser, DbcVersion, DbcWriter, FieldType, LazyDbcParser, MmapDbcFile, Record, RecordSet, Schema, SchemaField, StringBlock,
    StringRef, Value, parse_records_parallel,
};

// ------------------------------------------------------------------ model ----

#[derive(Clone, Copy, PartialEq, Eq, Debug)]
enum Ty {
    I32,
    U32,
    F32,
    Str,
    Bool,
    U8,
    I8,
    U16,
    I16,
}

const ALL_TYPES: [Ty; 9] = [Ty::I32, Ty::U32, Ty::F32, Ty::Str, Ty::Bool, Ty::U8, Ty::I8, Ty::U16, Ty::I16];

impl Ty {
    fn name(self) -> &'static str {
        match self {
            Ty::I32 => "int32",
            Ty::U32 => "uint32",
            Ty::F32 => "float",
            Ty::Str => "string",
            Ty::Bool => "bool",
            Ty::U8 => "uint8",
            Ty::I8 => "int8",
            Ty::U16 => "uint16",
            Ty::I16 => "int16",
        }
    }
    /// on-disk width per the published layout (Bool and String are 4 bytes)
    fn width(self) -> usize {
        match self {
            Ty::U8 | Ty::I8 => 1,
            Ty::U16 | Ty::I16 => 2,
            _ => 4,
        }
    }
    fn lib(self) -> FieldType {
        match self {
            Ty::I32 => FieldType::Int32,
            Ty::U32 => FieldType::UInt32,
            Ty::F32 => FieldType::Float32,
            Ty::Str => FieldType::String,
            Ty::Bool => FieldType::Bool,
            Ty::U8 => FieldType::UInt8,
            Ty::I8 => FieldType::Int8,
            Ty::U16 => FieldType::UInt16,
            Ty::I16 => FieldType::Int16,
        }
    }
}

#[derive(Clone, Debug)]
struct MField {
    ty: Ty,
    arr: Option<usize>,
}

impl MField {
    fn elems(&self) -> usize {
        self.arr.unwrap_or(1)
    }
    fn label(&self) -> String {
        match self.arr {
            Some(n) => format!("{}[{n}]", self.ty.name()),
            None => self.ty.name().to_string(),
        }
    }
    /// type part of a signature: no sizes
    fn sig(&self) -> String {
        if self.arr.is_some() { format!("{}[]", self.ty.name()) } else { self.ty.name().to_string() }
    }
}

/// A value as the model sees it: strings are text, floats are bit patterns.
#[derive(Clone, PartialEq, Debug)]
enum MV {
    I32(i32),
    U32(u32),
    F32(u32),
    Str(Arc<str>),
    Bool(bool),
    U8(u8),
    I8(i8),
    U16(u16),
    I16(i16),
    Arr(Vec<MV>),
    /// something the model can never contain (string that failed to resolve)
    Bad(String),
}

impl MV {
    fn show(&self) -> String {
        match self {
            MV::F32(b) => format!("f32:{b:#010x}"),
            MV::Str(s) => {
                let t: String = s.chars().take(40).collect();
                format!("{t:?}(len {})", s.len())
            }
            MV::Arr(v) => format!("[{}]", v.iter().take(8).map(|x| x.show()).collect::<Vec<_>>().join(",")),
            other => format!("{other:?}"),
        }
    }
}

struct Table {
    fields: Vec<MField>,
    key: Option<usize>,
    recs: Vec<Vec<MV>>,
}

impl Table {
    fn record_size(&self) -> usize {
        self.fields.iter().map(|f| f.ty.width() * f.elems()).sum()
    }
    /// number of columns: every array element is a column of its own
    fn column_count(&self) -> usize {
        self.fields.iter().map(|f| f.elems()).sum()
    }
    fn has_arrays(&self) -> bool {
        self.fields.iter().any(|f| f.arr.is_some())
    }
    fn key_of(&self, rec: &[MV]) -> Option<u32> {
        match rec.get(self.key?)? {
            MV::U32(k) => Some(*k),
            MV::I32(k) => Some(*k as u32),
            _ => None,
        }
    }
}

struct Meta {
    n: usize,
    keypos: &'static str,
    keyty: &'static str,
    keymode: &'static str,
    pool: usize,
    layout: &'static str,
    rewrite_src: &'static str,
    explicit_writer_schema: bool,
    /// how the schema's key field is declared: by index, set_key_field(name), try_set_key_field(name)
    key_by: &'static str,
    /// the versioned container the same table is wrapped in for the container leg
    container: &'static str,
}

impl Meta {
    fn class(&self, t: &Table) -> String {
        let narrow = t.fields.iter().any(|f| f.ty.width() < 4);
        let strs = t.fields.iter().any(|f| f.ty == Ty::Str);
        format!(
            "n={}|key={}:{}|arrays={}|narrow={}|strings={}|sb={}",
            self.n,
            self.keypos,
            if self.keypos == "absent" { "-" } else { self.keyty },
            t.has_arrays() as u8,
            narrow as u8,
            strs as u8,
            self.layout
        )
    }
    fn desc(&self, t: &Table) -> J {
        json!({
            "records": self.n,
            "schema": t.fields.iter().map(|f| f.label()).collect::<Vec<_>>(),
            "key_field_index": t.key,
            "key_type": self.keyty, "key_position": self.keypos, "key_mode": self.keymode,
            "string_pool": self.pool, "string_block_layout": self.layout,
            "record_size": t.record_size(), "columns": t.column_count(),
            "rewrite_source": self.rewrite_src, "writer_schema_explicit": self.explicit_writer_schema,
            "key_declared_by": self.key_by, "container": self.container,
        })
    }
}

// -------------------------------------------------------------- generator ----

const RECORD_COUNTS: [usize; 10] = [0, 1, 2, 3, 17, 255, 256, 1000, 9999, 10000];

const SPECIAL_STRINGS: &[&str] = &[
    "Stormwind",
    "Stormwind City Guard",
    "Stormwind City Guard Captain",
    "wind",
    "d",
    "Ürün",
    "rün",
    "日本語テキスト",
    "テキスト",
    "🐉dragon",
    "dragon",
    "на русском",
    "русском",
    "a",
    "aa",
    "aaa",
    "Interface\\Icons\\INV_Misc_QuestionMark.blp",
    "INV_Misc_QuestionMark.blp",
    ".blp",
    " leading and trailing ",
    "tab\there",
    "名前",
    "前",
    "naïve café",
    "café",
    "é",
];

fn gen_word(rng: &mut Rng) -> String {
    const SYL: &[&str] = &["an", "ter", "wow", "gor", "az", "er", "oth", "kal", "im", "dor", "Spell", "Item", "_", " ", "ö", "ß", "ы", "地", "0", "42", "-", "\\", "/"];
    let k = 1 + rng.usize(8);
    let mut s = String::new();
    for _ in 0..k {
        s.push_str(*rng.pick(SYL));
    }
    s
}

fn gen_pool(rng: &mut Rng, size: usize) -> Vec<Arc<str>> {
    let mut seen: HashSet<String> = HashSet::new();
    let mut out: Vec<Arc<str>> = Vec::new();
    let push = |s: String, seen: &mut HashSet<String>, out: &mut Vec<Arc<str>>| {
        if !s.contains('\0') && seen.insert(s.clone()) {
            out.push(Arc::from(s.as_str()));
        }
    };
    if rng.chance(3, 4) {
        push(String::new(), &mut seen, &mut out);
    }
    let mut sp: Vec<&str> = SPECIAL_STRINGS.to_vec();
    rng.shuffle(&mut sp);
    // keep suffix partners together: take a prefix of the shuffled list, then add the partners of what was taken
    let take = sp.len().min(size.saturating_sub(out.len())).min(1 + rng.usize(sp.len()));
    for s in &sp[..take] {
        push((*s).to_string(), &mut seen, &mut out);
    }
    if size > 4 && rng.chance(1, 3) {
        // one long string
        let mut l = String::new();
        let target = 300 + rng.usize(900);
        while l.len() < target {
            l.push_str(&gen_word(rng));
        }
        push(l, &mut seen, &mut out);
    }
    let mut guard = 0;
    while out.len() < size && guard < size * 20 + 100 {
        guard += 1;
        let s = match rng.below(6) {
            0 if !out.is_empty() => {
                // a proper suffix of an existing string (on a char boundary)
                let base = out[rng.usize(out.len())].clone();
                let cuts: Vec<usize> = base.char_indices().map(|(i, _)| i).filter(|&i| i > 0).collect();
                if cuts.is_empty() { gen_word(rng) } else { base[*rng.pick(&cuts)..].to_string() }
            }
            1 if !out.is_empty() => {
                // an existing string becomes the suffix of a longer one
                let base = out[rng.usize(out.len())].clone();
                format!("{}{}", gen_word(rng), base)
            }
            2 => format!("{}{}", gen_word(rng), out.len()),
            3 if !out.is_empty() => {
                // shares a (long) prefix with an existing string
                let base = out[rng.usize(out.len())].clone();
                format!("{}{}", base, gen_word(rng))
            }
            _ => gen_word(rng),
        };
        push(s, &mut seen, &mut out);
    }
    if out.is_empty() {
        out.push(Arc::from("only"));
    }
    out
}

fn gen_scalar(rng: &mut Rng, ty: Ty, pool: &[Arc<str>]) -> MV {
    let edge = rng.chance(1, 4);
    match ty {
        Ty::I32 => MV::I32(if edge { *rng.pick(&[0, -1, 1, i32::MIN, i32::MAX, -256, 65536]) } else { rng.next_u32() as i32 }),
        Ty::U32 => MV::U32(if edge { *rng.pick(&[0, 1, u32::MAX, 0x8000_0000, 0x7FFF_FFFF, 0x0100_0000, 255, 256]) } else { rng.next_u32() }),
        // any bit pattern, NaN payloads included: compared bitwise
        Ty::F32 => MV::F32(if edge { *rng.pick(&[0u32, 0x8000_0000, 0x3F80_0000, 0x7F80_0000, 0xFF80_0000, 0x7FC0_0000, 0x7F80_0001, 0xFFFF_FFFF, 1]) } else { rng.next_u32() }),
        Ty::Str => MV::Str(pool[rng.usize(pool.len())].clone()),
        Ty::Bool => MV::Bool(rng.bool()),
        Ty::U8 => MV::U8(if edge { *rng.pick(&[0, 1, 127, 128, 255]) } else { rng.next_u32() as u8 }),
        Ty::I8 => MV::I8(if edge { *rng.pick(&[0, -1, 1, i8::MIN, i8::MAX]) } else { rng.next_u32() as i8 }),
        Ty::U16 => MV::U16(if edge { *rng.pick(&[0, 1, 255, 256, 0x7FFF, 0x8000, u16::MAX]) } else { rng.next_u32() as u16 }),
        Ty::I16 => MV::I16(if edge { *rng.pick(&[0, -1, 1, i16::MIN, i16::MAX, 256, -256]) } else { rng.next_u32() as i16 }),
    }
}

fn gen_keys(rng: &mut Rng, n: usize, signed: bool, mode: &str) -> Vec<u32> {
    let base: i64 = if signed { -((n / 2) as i64) - 3 } else { 1 };
    let mut keys: Vec<u32> = match mode {
        "sorted" | "unsorted" => (0..n).map(|i| (base + i as i64) as i32 as u32).collect(),
        "duplicate" => {
            let span = (n / 3).max(1) as u64;
            (0..n).map(|_| (base + rng.below(span) as i64) as i32 as u32).collect()
        }
        _ => {
            // sparse over the whole 32-bit range, extremes first
            let ext = [0u32, u32::MAX, 0x8000_0000, 0x7FFF_FFFF, 1, 0xFFFF_FFFE];
            (0..n).map(|i| if i < ext.len() { ext[i] } else { rng.next_u32() }).collect()
        }
    };
    if mode != "sorted" {
        rng.shuffle(&mut keys);
    }
    keys
}

fn gen_table(rng: &mut Rng, idx: u64) -> (Table, Meta) {
    let n = RECORD_COUNTS[(idx % 10) as usize];
    let keypos = ["first", "middle", "last", "absent"][((idx / 10) % 4) as usize];
    let signed = (idx / 40) % 2 == 1;
    let keyty = if signed { "int32" } else { "uint32" };
    let nf = match idx % 7 {
        0 => 1,
        1 => 24,
        _ => rng.range(1, 24) as usize,
    };
    // bound the work on the big tables
    let mut budget: usize = if n >= 9999 { 32 } else { 24 * 8 };
    let arr_num = *rng.pick(&[0u64, 1, 1, 2]); // some schemas without any array
    let mut fields = Vec::with_capacity(nf);
    for j in 0..nf {
        let ty = if rng.bool() { ALL_TYPES[(idx as usize + j) % 9] } else { *rng.pick(&ALL_TYPES) };
        let left = nf - j - 1;
        let mut arr = None;
        if rng.chance(arr_num, 4) {
            let want = rng.range(2, 8) as usize;
            if budget >= want + left {
                arr = Some(want);
            }
        }
        budget = budget.saturating_sub(arr.unwrap_or(1));
        fields.push(MField { ty, arr });
    }
    let key = match keypos {
        "first" => Some(0),
        "middle" => Some(nf / 2),
        "last" => Some(nf - 1),
        _ => None,
    };
    if let Some(k) = key {
        fields[k] = MField { ty: if signed { Ty::I32 } else { Ty::U32 }, arr: None };
    }
    let keymode = *rng.pick(&["sorted", "unsorted", "unsorted", "duplicate", "duplicate", "sparse"]);
    let keys = gen_keys(rng, n, signed, keymode);
    let pool_size = if n >= 1000 && rng.chance(1, 3) { 3000 } else { *rng.pick(&[1usize, 2, 5, 20, 200]) };
    let pool = gen_pool(rng, pool_size);
    let mut recs = Vec::with_capacity(n);
    for r in 0..n {
        let mut rec = Vec::with_capacity(nf);
        for (j, f) in fields.iter().enumerate() {
            if Some(j) == key {
                rec.push(if signed { MV::I32(keys[r] as i32) } else { MV::U32(keys[r]) });
            } else if let Some(a) = f.arr {
                rec.push(MV::Arr((0..a).map(|_| gen_scalar(rng, f.ty, &pool)).collect()));
            } else {
                rec.push(gen_scalar(rng, f.ty, &pool));
            }
        }
        recs.push(rec);
    }
    let layout = ["dedup", "shuffled+unreferenced", "duplicated", "suffix-shared", "no-leading-nul"][((idx / 3) % 5) as usize];
    let rewrite_src = ["eager", "parallel", "mmap"][((idx / 2) % 3) as usize];
    let key_by = ["index", "name", "try-name"][((idx / 5) % 3) as usize];
    let container = CONTAINERS[((idx / 7) % 4) as usize];
    let meta = Meta { n, keypos, keyty, keymode, pool: pool.len(), layout, rewrite_src, explicit_writer_schema: rng.bool(), key_by, container };
    (Table { fields, key, recs }, meta)
}

// ---------------------------------------------------- independent encoder ----

struct Encoded {
    bytes: Vec<u8>,
    sb_len: usize,
    /// distinct strings referenced by the table, in first-use order
    used: Vec<Arc<str>>,
    refs: u64,
}

fn for_each_str<'a>(t: &'a Table, mut f: impl FnMut(&'a Arc<str>)) {
    for rec in &t.recs {
        for v in rec {
            match v {
                MV::Str(s) => f(s),
                MV::Arr(a) => {
                    for x in a {
                        if let MV::Str(s) = x {
                            f(s)
                        }
                    }
                }
                _ => {}
            }
        }
    }
}

fn encode(t: &Table, layout: &str, rng: &mut Rng) -> Encoded {
    // 1. which strings are referenced
    let mut used: Vec<Arc<str>> = Vec::new();
    let mut seen: HashSet<&str> = HashSet::new();
    let mut refs = 0u64;
    for_each_str(t, |s| {
        refs += 1;
        if seen.insert(&**s) {
            used.push(s.clone());
        }
    });
    // 2. lay out the string block; offsets[s] = every offset at which text s can be read
    let mut sb: Vec<u8> = vec![0];
    let mut offsets: HashMap<&str, Vec<u32>> = HashMap::new();
    offsets.insert("", vec![0]);
    let store = |sb: &mut Vec<u8>, s: &str| -> u32 {
        let o = sb.len() as u32;
        sb.extend_from_slice(s.as_bytes());
        sb.push(0);
        o
    };
    match layout {
        "dedup" => {
            for s in &used {
                if !s.is_empty() {
                    let o = store(&mut sb, s);
                    offsets.insert(s, vec![o]);
                }
            }
        }
        "shuffled+unreferenced" => {
            let mut order: Vec<&Arc<str>> = used.iter().collect();
            rng.shuffle(&mut order);
            for (i, s) in order.iter().enumerate() {
                if i % 3 == 0 {
                    store(&mut sb, &format!("unreferenced{i}"));
                }
                if !s.is_empty() {
                    let o = store(&mut sb, s);
                    offsets.insert(s, vec![o]);
                }
            }
        }
        "duplicated" => {
            // identical text stored several times in the source file; references spread over the copies
            let mut order: Vec<&Arc<str>> = Vec::new();
            for s in &used {
                for _ in 0..(1 + rng.usize(3)) {
                    order.push(s);
                }
            }
            rng.shuffle(&mut order);
            for s in order {
                let o = store(&mut sb, s); // the empty string too: a lone NUL
                offsets.entry(s).or_default().push(o);
            }
        }
        "no-leading-nul" => {
            // a block packed without the customary NUL in front (another tool's writer): the first text sits at offset 0 and the
            // empty string is read at a terminator
            let nonempty: Vec<&Arc<str>> = used.iter().filter(|s| !s.is_empty()).collect();
            if !nonempty.is_empty() {
                sb.clear();
                offsets.clear();
                for s in nonempty {
                    let o = store(&mut sb, s);
                    offsets.insert(s, vec![o]);
                    offsets.entry("").or_default().push(o + s.len() as u32);
                }
            }
        }
        _ => {
            // suffix-shared: a string that is a suffix of a stored one points into its tail
            let mut order: Vec<&Arc<str>> = used.iter().collect();
            order.sort_by(|a, b| b.len().cmp(&a.len()).then(a.cmp(b)));
            for s in order {
                if s.is_empty() || offsets.contains_key(&s[..]) {
                    continue;
                }
                let o = store(&mut sb, s);
                offsets.insert(s, vec![o]);
                for (ci, _) in s.char_indices().filter(|(ci, _)| *ci > 0) {
                    let tail = &s[ci..];
                    if seen.contains(tail) {
                        offsets.entry(tail).or_default().push(o + ci as u32);
                    }
                }
                // the terminator is a valid place to read the empty string
                offsets.entry("").or_default().push(o + s.len() as u32);
            }
        }
    }
    // 3. header + records
    let rs = t.record_size();
    let mut bytes = Vec::with_capacity(20 + t.recs.len() * rs + sb.len());
    bytes.extend_from_slice(b"WDBC");
    bytes.extend_from_slice(&(t.recs.len() as u32).to_le_bytes());
    bytes.extend_from_slice(&(t.column_count() as u32).to_le_bytes());
    bytes.extend_from_slice(&(rs as u32).to_le_bytes());
    bytes.extend_from_slice(&(sb.len() as u32).to_le_bytes());
    fn put(bytes: &mut Vec<u8>, v: &MV, offsets: &HashMap<&str, Vec<u32>>, rng: &mut Rng) {
        match v {
            MV::I32(x) => bytes.extend_from_slice(&x.to_le_bytes()),
            MV::U32(x) => bytes.extend_from_slice(&x.to_le_bytes()),
            MV::F32(b) => bytes.extend_from_slice(&b.to_le_bytes()),
            MV::Str(s) => {
                let os = &offsets[&**s];
                let o = if os.len() == 1 { os[0] } else { os[rng.usize(os.len())] };
                bytes.extend_from_slice(&o.to_le_bytes());
            }
            MV::Bool(b) => bytes.extend_from_slice(&(*b as u32).to_le_bytes()),
            MV::U8(x) => bytes.push(*x),
            MV::I8(x) => bytes.push(*x as u8),
            MV::U16(x) => bytes.extend_from_slice(&x.to_le_bytes()),
            MV::I16(x) => bytes.extend_from_slice(&x.to_le_bytes()),
            MV::Arr(a) => {
                for x in a {
                    put(bytes, x, offsets, rng);
                }
            }
            MV::Bad(_) => unreachable!("model never contains Bad"),
        }
    }
    for rec in &t.recs {
        for v in rec {
            put(&mut bytes, v, &offsets, rng);
        }
    }
    assert_eq!(bytes.len(), 20 + t.recs.len() * rs, "harness encoder: record area size");
    bytes.extend_from_slice(&sb);
    Encoded { bytes, sb_len: sb.len(), used, refs }
}

/// Field names of the schema handed to the library: unique (`f0, f1, ...`) or, for the by-name leg, repeating (`f0, f1, f2, f0, ...`).
fn field_names(t: &Table, duplicate: bool) -> Vec<String> {
    (0..t.fields.len()).map(|j| format!("f{}", if duplicate { j % 3 } else { j })).collect()
}

/// The library schema of the table. `key_by`: "index" = set_key_field_index, "name" = set_key_field(name),
/// "try-name" = try_set_key_field(name). Err = the by-name call refused / panicked on a name the schema contains.
fn lib_schema(t: &Table, names: &[String], key_by: &str) -> Result<Schema, String> {
    let mut s = Schema::new("T");
    for (j, f) in t.fields.iter().enumerate() {
        let name = names[j].clone();
        match f.arr {
            Some(n) => s.add_field(SchemaField::new_array(name, f.ty.lib(), n)),
            None => s.add_field(SchemaField::new(name, f.ty.lib())),
        };
    }
    if let Some(k) = t.key {
        match key_by {
            "name" => {
                trap(|| {
                    s.set_key_field(&names[k]);
                })
                .map_err(|p| format!("set_key_field panicked: {}", p.msg))?;
            }
            "try-name" => {
                match trap(|| s.try_set_key_field(&names[k]).map(|_| ())) {
                    Ok(Ok(())) => {}
                    Ok(Err(e)) => return Err(format!("try_set_key_field refused: {e}")),
                    Err(p) => return Err(format!("try_set_key_field panicked: {}", p.msg)),
                };
            }
            _ => {
                s.set_key_field_index(k);
            }
        }
    }
    Ok(s)
}

// ------------------------------------------------------------- projection ----

/// Where a path's string references are resolved.
enum Src<'a> {
    Set(&'a RecordSet),
    Block(&'a StringBlock),
    Cached(&'a CachedStringBlock),
}

impl Src<'_> {
    fn get(&self, r: StringRef) -> wow_cdbc::Result<&str> {
        match self {
            Src::Set(rs) => rs.get_string(r),
            Src::Block(b) => b.get_string(r),
            Src::Cached(b) => b.get_string(r),
        }
    }
}

#[derive(Default)]
struct Interner {
    map: HashMap<Arc<str>, ()>,
    resolved: u64,
}

impl Interner {
    fn get(&mut self, s: &str) -> Arc<str> {
        if let Some((k, _)) = self.map.get_key_value(s) {
            return k.clone();
        }
        let a: Arc<str> = Arc::from(s);
        self.map.insert(a.clone(), ());
        a
    }
}

fn pv(v: &Value, src: &Src<'_>, it: &mut Interner) -> MV {
    match v {
        Value::Int32(x) => MV::I32(*x),
        Value::UInt32(x) => MV::U32(*x),
        Value::Float32(x) => MV::F32(x.to_bits()),
        Value::StringRef(r) => {
            it.resolved += 1;
            match src.get(*r) {
                Ok(s) => MV::Str(it.get(s)),
                Err(e) => MV::Bad(format!("string ref failed to resolve: {}", ekind(&e))),
            }
        }
        Value::Bool(x) => MV::Bool(*x),
        Value::UInt8(x) => MV::U8(*x),
        Value::Int8(x) => MV::I8(*x),
        Value::UInt16(x) => MV::U16(*x),
        Value::Int16(x) => MV::I16(*x),
        Value::Array(a) => MV::Arr(a.iter().map(|x| pv(x, src, it)).collect()),
    }
}

fn project(rec: &Record, src: &Src<'_>, it: &mut Interner) -> Vec<MV> {
    rec.values().iter().map(|v| pv(v, src, it)).collect()
}

fn hash_mv(h: &mut u64, v: &MV) {
    fn mix(h: &mut u64, x: u64) {
        *h = (*h ^ x).wrapping_mul(0x0000_0100_0000_01B3).rotate_left(23) ^ x.wrapping_mul(0x9E37_79B9_7F4A_7C15);
    }
    match v {
        MV::I32(x) => mix(h, 0x100 ^ ((*x as u32 as u64) << 16)),
        MV::U32(x) => mix(h, 0x200 ^ ((*x as u64) << 16)),
        MV::F32(x) => mix(h, 0x300 ^ ((*x as u64) << 16)),
        MV::Str(s) => {
            mix(h, 0x400 ^ ((s.len() as u64) << 16));
            for b in s.as_bytes() {
                mix(h, *b as u64);
            }
        }
        MV::Bool(x) => mix(h, 0x500 ^ ((*x as u64) << 16)),
        MV::U8(x) => mix(h, 0x600 ^ ((*x as u64) << 16)),
        MV::I8(x) => mix(h, 0x700 ^ ((*x as u8 as u64) << 16)),
        MV::U16(x) => mix(h, 0x800 ^ ((*x as u64) << 16)),
        MV::I16(x) => mix(h, 0x900 ^ ((*x as u16 as u64) << 16)),
        MV::Arr(a) => {
            mix(h, 0xA00 ^ ((a.len() as u64) << 16));
            for x in a {
                hash_mv(h, x);
            }
        }
        MV::Bad(s) => {
            mix(h, 0xB00);
            for b in s.as_bytes() {
                mix(h, *b as u64);
            }
        }
    }
}

fn hash_proj(p: &[Vec<MV>]) -> u64 {
    let mut h = 0xcbf2_9ce4_8422_2325u64 ^ p.len() as u64;
    for r in p {
        hash_mv(&mut h, &MV::U32(r.len() as u32));
        for v in r {
            hash_mv(&mut h, v);
        }
    }
    h
}

fn ekind(e: &wow_cdbc::Error) -> String {
    let d = format!("{e:?}");
    d.split(['(', ' ', '{']).next().unwrap_or("?").to_string()
}

// --------------------------------------------------------------- checking ----

/// Outcome of a library call that may fail or panic; failures become violations tagged with path and stage.
fn stage<T>(c: &mut Case, path: &str, stage: &str, tag: &str, r: Result<wow_cdbc::Result<T>, PanicInfo>) -> Option<T> {
    match r {
        Ok(Ok(v)) => Some(v),
        Ok(Err(e)) => {
            c.violate(format!("path-error|{path}|{stage}|{}{tag}", ekind(&e)), format!("{path}: {stage} failed on a valid table: {e}"), json!({"error": format!("{e}")}));
            None
        }
        Err(p) => {
            c.violate(format!("path-panic|{path}|{stage}|{}", p.sig()), format!("{path}: {stage} panicked: {}", p.msg), json!({"func": p.func}));
            None
        }
    }
}

fn check_header(c: &mut Case, path: &str, h: &wow_cdbc::DbcHeader, t: &Table, sb_len: usize) {
    c.count("headers_checked", 1);
    let exp = [
        ("record_count", h.record_count as u64, t.recs.len() as u64),
        ("field_count", h.field_count as u64, t.column_count() as u64),
        ("record_size", h.record_size as u64, t.record_size() as u64),
        ("string_block_size", h.string_block_size as u64, sb_len as u64),
    ];
    for (name, got, want) in exp {
        if got != want {
            c.violate(format!("header-ne-model|{path}|{name}"), format!("{path}: header {name} = {got}, the file says {want}"), json!({"got": got, "want": want}));
        }
    }
}

/// Compare a path's records with the model. Returns true when equal.
fn cmp_model(c: &mut Case, path: &str, t: &Table, got: &[Vec<MV>]) -> bool {
    c.count(&format!("path_vs_model|{path}"), 1);
    if got.len() != t.recs.len() {
        c.violate(format!("path-ne-model|{path}|record-count"), format!("{path} returned {} records, the table has {}", got.len(), t.recs.len()), json!({"got": got.len(), "want": t.recs.len()}));
        return false;
    }
    let mut bad = 0;
    for (ri, (g, w)) in got.iter().zip(&t.recs).enumerate() {
        if g == w {
            continue;
        }
        if g.len() != w.len() {
            c.violate(format!("path-ne-model|{path}|value-count"), format!("{path}: record {ri} has {} values, the schema has {} fields", g.len(), w.len()), json!({"record": ri}));
            bad += 1;
        } else {
            for (fi, (gv, wv)) in g.iter().zip(w).enumerate() {
                if gv != wv {
                    let f = &t.fields[fi];
                    c.violate(
                        format!("path-ne-model|{path}|{}", f.sig()),
                        format!("{path}: record {ri} field {fi} ({}) = {}, the table has {}", f.label(), gv.show(), wv.show()),
                        json!({"record": ri, "field": fi, "type": f.label(), "got": gv.show(), "want": wv.show()}),
                    );
                    bad += 1;
                }
            }
        }
        if bad >= 12 {
            break;
        }
    }
    if bad == 0 {
        for f in &t.fields {
            c.count(&format!("values_compared|{}", f.ty.name()), (f.elems() * t.recs.len()) as u64);
        }
    }
    bad == 0
}

struct PathResult {
    name: &'static str,
    hash: u64,
}

/// Key lookups on one record set: every present key, ~100 absent keys; hashed, then sorted map + binary search.
#[allow(clippy::too_many_arguments)]
fn check_keys(c: &mut Case, path: &str, rs: &mut RecordSet, t: &Table, keyty: &str, keymap: &BTreeMap<u32, Vec<usize>>, absent: &[u32]) {
    let Some(kf) = t.key else {
        // no key field: nothing carries a key; only make sure the calls are harmless
        if let Ok(r) = trap(|| rs.get_record_by_key(1).is_some()) {
            if r {
                c.violate("key-lookup|hashed|no-key-field|found", format!("{path}: get_record_by_key returned a record although the schema has no key field"), json!({}));
            }
        }
        c.count("key_lookups|no-key-field", 1);
        return;
    };
    for mode in ["hashed", "binary"] {
        if mode == "binary" {
            match trap(|| rs.create_sorted_key_map()) {
                Ok(Ok(())) => {}
                Ok(Err(e)) => {
                    c.violate(format!("key-lookup|binary|create-sorted-map-error|key={keyty}"), format!("{path}: create_sorted_key_map failed: {e}"), json!({}));
                    return;
                }
                Err(p) => {
                    c.violate(format!("key-lookup|binary|create-sorted-map-panic|{}", p.sig()), format!("{path}: create_sorted_key_map panicked: {}", p.msg), json!({}));
                    return;
                }
            }
        }
        // after create_sorted_key_map the hashed map has been rebuilt: query it again under the same clause
        let fns: &[&str] = if mode == "binary" { &["binary", "hashed"] } else { &["hashed"] };
        for &f in fns {
            let look = |rs: &RecordSet, k: u32| -> Option<Vec<MV>> {
                let r = if f == "binary" { rs.get_record_by_key_binary_search(k) } else { rs.get_record_by_key(k) };
                r.map(|r| {
                    let mut tmp = Interner::default();
                    project(r, &Src::Set(rs), &mut tmp)
                })
            };
            for (k, idxs) in keymap {
                let kind = if idxs.len() > 1 { "duplicate" } else { "present" };
                c.count(&format!("key_lookups|{f}|{kind}"), 1);
                match look(rs, *k) {
                    None => c.violate(
                        format!("key-lookup|{f}|{kind}|none|key={keyty}"),
                        format!("{path}: {f} lookup of key {k} (as {keyty}: {}) found nothing although {} record(s) carry it", if keyty == "int32" { (*k as i32).to_string() } else { k.to_string() }, idxs.len()),
                        json!({"key": k, "records_with_key": idxs.len(), "path": path}),
                    ),
                    Some(g) => {
                        let carries = match g.get(kf) {
                            Some(MV::U32(x)) => *x == *k,
                            Some(MV::I32(x)) => *x as u32 == *k,
                            _ => false,
                        };
                        if !carries {
                            c.violate(
                                format!("key-lookup|{f}|{kind}|wrong-key|key={keyty}"),
                                format!("{path}: {f} lookup of key {k} returned a record whose key field is {}", g.get(kf).map(|v| v.show()).unwrap_or_default()),
                                json!({"key": k, "path": path}),
                            );
                        } else if !idxs.iter().any(|&i| t.recs[i] == g) {
                            c.violate(
                                format!("key-lookup|{f}|{kind}|not-a-table-record|key={keyty}"),
                                format!("{path}: {f} lookup of key {k} returned a record with that key whose other values match no record of the table"),
                                json!({"key": k, "path": path}),
                            );
                        }
                    }
                }
            }
            for k in absent {
                c.count(&format!("key_lookups|{f}|absent"), 1);
                if look(rs, *k).is_some() {
                    c.violate(format!("key-lookup|{f}|absent|found|key={keyty}"), format!("{path}: {f} lookup of key {k}, which no record carries, returned a record"), json!({"key": k, "path": path}));
                }
            }
        }
    }
}

/// Walk the string block of a written file: every NUL-terminated segment must be unique.
fn check_written(c: &mut Case, t: &Table, w: &[u8], reference_len: usize) -> Option<usize> {
    c.count("written_files", 1);
    c.count("written_bytes", w.len() as u64);
    if w.len() < 20 || &w[0..4] != b"WDBC" {
        c.violate("written-header|magic-or-short", format!("written file is {} bytes / does not start with WDBC", w.len()), json!({"len": w.len()}));
        return None;
    }
    let rd = |o: usize| u32::from_le_bytes([w[o], w[o + 1], w[o + 2], w[o + 3]]) as usize;
    let (rc, fc, rsz, sbs) = (rd(4), rd(8), rd(12), rd(16));
    if rc != t.recs.len() {
        c.violate("written-header|record_count", format!("written header says {rc} records, {} were written", t.recs.len()), json!({"got": rc, "want": t.recs.len()}));
    }
    if rsz != t.record_size() {
        c.violate(
            format!("written-header|record_size|arrays={}", t.has_arrays()),
            format!("written header says record size {rsz}, the schema's fields add up to {}", t.record_size()),
            json!({"got": rsz, "want": t.record_size()}),
        );
    }
    // the size law, from the file's own header and from the model
    c.count("written_size_checked", 1);
    let want = 20 + t.recs.len() * t.record_size() + sbs;
    if w.len() != want {
        c.violate(
            "written-size",
            format!("written file is {} bytes; 20 + {} records x {} bytes + string block {} = {want}", w.len(), t.recs.len(), t.record_size(), sbs),
            json!({"len": w.len(), "want": want, "header": {"records": rc, "fields": fc, "record_size": rsz, "string_block": sbs}}),
        );
        return Some(fc);
    }
    if w.len() == reference_len {
        c.count("written_size_eq_reference_encoder", 1);
    }
    let sb = &w[w.len() - sbs..];
    let mut segs: HashMap<&[u8], u32> = HashMap::new();
    let mut start = 0;
    for (i, b) in sb.iter().enumerate() {
        if *b == 0 {
            *segs.entry(&sb[start..i]).or_insert(0) += 1;
            start = i + 1;
        }
    }
    if start < sb.len() {
        *segs.entry(&sb[start..]).or_insert(0) += 1;
    }
    c.count("written_string_segments", segs.values().map(|v| *v as u64).sum());
    for (s, n) in &segs {
        if *n > 1 {
            let kind = if s.is_empty() { "empty" } else { "nonempty" };
            c.violate(
                format!("string-stored-twice|{kind}"),
                format!("written string block stores {:?} {n} times", String::from_utf8_lossy(&s[..s.len().min(40)])),
                json!({"times": n, "len": s.len()}),
            );
        }
    }
    Some(fc)
}


// --------------------------------------------------------------- writer histories ----
// `write_records` is an operation on a caller-supplied stream, and one writer can be asked to write more than once.
// Whatever happened on the stream before, "writing the records and parsing them back" speaks about the table written
// last: the stream must start with it, and - unless longer content was there before - be exactly as long as the size
// law says. `out` is the result of one write on a fresh stream, already compared with the model by the caller.

const HISTORY_SHAPES: [&str; 7] = ["twice-same", "smaller-then-full", "positioned-at-end-of-old-table", "positioned-inside-old-table", "positioned-past-end-of-empty-stream", "file-parsed-then-rewritten", "sink-accepting-short-writes"];

#[allow(clippy::too_many_arguments)]
fn check_writer_histories(c: &mut Case, t: &Table, m: &Meta, schema: &Schema, src: &RecordSet, out: &[u8], it: &mut Interner, rs: &mut Rng, file: &Path) {
    let n = t.recs.len();
    // the "old" table: same schema, the first half of the records (written by the independent encoder, read by the library)
    let old_t = Table { fields: t.fields.clone(), key: t.key, recs: t.recs[..n / 2].to_vec() };
    let old_enc = encode(&old_t, "dedup", rs);
    let old_rs = match trap(|| DbcParser::parse_bytes(&old_enc.bytes).and_then(|p| p.with_schema(schema.clone())).and_then(|p| p.parse_records())) {
        Ok(Ok(x)) => x,
        _ => {
            c.count("writer_histories_skipped|old-table-unreadable", 1);
            return;
        }
    };
    // what one write of the old table leaves on a fresh stream (prior content of the two-write history)
    let old_out_len = {
        let mut sink = Cursor::new(Vec::new());
        match trap(|| {
            let w = DbcWriter::new(&mut sink);
            let mut w = if m.explicit_writer_schema { w.with_schema(schema.clone()) } else { w };
            w.write_records(&old_rs)
        }) {
            Ok(Ok(())) => sink.into_inner().len(),
            _ => {
                c.count("writer_histories_skipped|old-table-unwritable", 1);
                return;
            }
        }
    };
    let shapes: Vec<&'static str> = if n <= 300 {
        HISTORY_SHAPES.to_vec()
    } else {
        let a = rs.usize(HISTORY_SHAPES.len());
        let b = (a + 1 + rs.usize(HISTORY_SHAPES.len() - 1)) % HISTORY_SHAPES.len();
        // (large tables: the short-write sink always, its string block is the one long write)
        let mut v = vec![HISTORY_SHAPES[a], HISTORY_SHAPES[b]];
        if !v.contains(&"sink-accepting-short-writes") {
            v.push("sink-accepting-short-writes");
        }
        v
    };
    for shape in shapes {
        c.count(&format!("writer_histories|{shape}"), 1);
        // run the history; yields (final stream, length of the content that was on the stream before the last write)
        let run: Result<wow_cdbc::Result<(Vec<u8>, usize)>, PanicInfo> = match shape {
            "twice-same" => trap(|| {
                let mut sink = Cursor::new(Vec::new());
                {
                    let w = DbcWriter::new(&mut sink);
                    let mut w = if m.explicit_writer_schema { w.with_schema(schema.clone()) } else { w };
                    w.write_records(src)?;
                    w.write_records(src)?;
                }
                Ok((sink.into_inner(), out.len()))
            }),
            "sink-accepting-short-writes" => {
                let max = 1 + rs.usize(700);
                trap(move || {
                    let mut sink = vh_common::ShortIo::new(Cursor::new(Vec::new()), max);
                    {
                        let w = DbcWriter::new(&mut sink);
                        let mut w = if m.explicit_writer_schema { w.with_schema(schema.clone()) } else { w };
                        w.write_records(src)?;
                    }
                    Ok((sink.inner.into_inner(), 0))
                })
            }
            "smaller-then-full" => trap(|| {
                let mut sink = Cursor::new(Vec::new());
                {
                    let w = DbcWriter::new(&mut sink);
                    let mut w = if m.explicit_writer_schema { w.with_schema(schema.clone()) } else { w };
                    w.write_records(&old_rs)?;
                    w.write_records(src)?;
                }
                Ok((sink.into_inner(), old_out_len))
            }),
            "positioned-at-end-of-old-table" | "positioned-inside-old-table" | "positioned-past-end-of-empty-stream" => {
                let prior: Vec<u8> = if shape == "positioned-past-end-of-empty-stream" { Vec::new() } else { old_enc.bytes.clone() };
                let pos: u64 = match shape {
                    "positioned-at-end-of-old-table" => prior.len() as u64,
                    "positioned-inside-old-table" => 1 + rs.below(prior.len() as u64 - 1),
                    _ => 1 + rs.below(64),
                };
                let plen = prior.len();
                trap(move || {
                    let mut sink = Cursor::new(prior);
                    sink.set_position(pos);
                    {
                        let w = DbcWriter::new(&mut sink);
                        let mut w = if m.explicit_writer_schema { w.with_schema(schema.clone()) } else { w };
                        w.write_records(src)?;
                    }
                    Ok((sink.into_inner(), plen))
                })
            }
            _ => {
                // a file opened read+write, looked at through the parser (which leaves the handle wherever it stopped reading),
                // then rewritten through the same handle
                let f2 = file.with_extension("hist.dbc");
                if let Err(e) = std::fs::write(&f2, &old_enc.bytes) {
                    c.inconclusive(format!("cannot write scratch file: {e}"));
                    continue;
                }
                let plen = old_enc.bytes.len();
                let r = trap(|| {
                    let mut f = std::fs::OpenOptions::new().read(true).write(true).open(&f2)?;
                    let seen = DbcParser::parse(&mut f)?;
                    let _ = seen.header().record_count;
                    {
                        let w = DbcWriter::new(&mut f);
                        let mut w = if m.explicit_writer_schema { w.with_schema(schema.clone()) } else { w };
                        w.write_records(src)?;
                    }
                    drop(f);
                    Ok((std::fs::read(&f2)?, plen))
                });
                let _ = std::fs::remove_file(&f2);
                r
            }
        };
        let path = format!("rewrite-{shape}");
        let Some((stream, prior_len)) = stage(c, &path, "write_records", "", run) else { continue };
        c.count("writer_history_streams_checked", 1);
        // the size law for the table written last (prior content that was longer stays behind it: the writer does not truncate)
        let want_len = out.len().max(prior_len);
        if stream.len() != want_len {
            c.violate(
                format!("written-size|history={shape}"),
                format!("after the history `{shape}` the stream is {} bytes; the table written last takes {} bytes (20 + {n} records x {} + string block) and {prior_len} bytes were on the stream before", stream.len(), out.len(), t.record_size()),
                json!({"history": shape, "stream_len": stream.len(), "table_len": out.len(), "prior_len": prior_len}),
            );
        }
        if stream.len() >= out.len() && stream[..out.len()] == *out {
            c.count("writer_history_streams_start_with_table", 1);
            continue;
        }
        // not the bytes of a single write: still fine if the stream parses back to the table
        let r = trap(|| DbcParser::parse_bytes(&stream).and_then(|p| p.with_schema(schema.clone())).and_then(|p| p.parse_records()));
        if let Some(back) = stage(c, &path, "reparse", "", r) {
            let proj: Vec<Vec<MV>> = back.records().iter().map(|r| project(r, &Src::Set(&back), it)).collect();
            let name: &'static str = match shape {
                "twice-same" => "rewrite-twice-same",
                "smaller-then-full" => "rewrite-smaller-then-full",
                "positioned-at-end-of-old-table" => "rewrite-positioned-at-end-of-old-table",
                "positioned-inside-old-table" => "rewrite-positioned-inside-old-table",
                "positioned-past-end-of-empty-stream" => "rewrite-positioned-past-end-of-empty-stream",
                _ => "rewrite-file-parsed-then-rewritten",
            };
            if cmp_model(c, name, t, &proj) {
                c.count("writer_history_streams_equivalent_not_identical", 1);
            }
        }
    }
}

// --------------------------------------------------------------- round-8 legs ----

/// Versioned containers the same table is wrapped in (header layouts from the published format: WDB2 = the WDBC fields followed by
/// table hash, build, timestamp and - for builds after 12880 - min id, max id, locale, copy-table size, then (max id != 0) an index
/// array of 4 bytes and a string-length array of 2 bytes per id in min..=max; WDB5 = 48-byte header). Records and string block are
/// the bytes of the WDBC file. For WDB5 the records follow the header directly, as this library models it (the field-structure
/// block of real WDB5 files is not modelled by the crate and not demanded here).
const CONTAINERS: [&str; 4] = ["wdb2-basic", "wdb2-extended", "wdb2-extended+index", "wdb5"];

/// Returns (file bytes, offset of the record area).
fn wrap_container(kind: &str, t: &Table, body: &[u8], sb_len: usize, rng: &mut Rng) -> (Vec<u8>, usize) {
    let mut b: Vec<u8> = Vec::with_capacity(64 + body.len());
    let u = |b: &mut Vec<u8>, x: u32| b.extend_from_slice(&x.to_le_bytes());
    b.extend_from_slice(if kind == "wdb5" { b"WDB5" } else { b"WDB2" });
    u(&mut b, t.recs.len() as u32);
    u(&mut b, t.column_count() as u32);
    u(&mut b, t.record_size() as u32);
    u(&mut b, sb_len as u32);
    u(&mut b, rng.next_u32() | 1); // table hash
    match kind {
        "wdb5" => {
            u(&mut b, rng.next_u32() | 1); // layout hash
            u(&mut b, 1); // min id
            u(&mut b, t.recs.len() as u32); // max id
            u(&mut b, 0xFFFF_FFFF); // locale
            u(&mut b, 0); // copy table size
            b.extend_from_slice(&0u16.to_le_bytes()); // flags
            b.extend_from_slice(&0u16.to_le_bytes()); // id index
        }
        "wdb2-basic" => {
            u(&mut b, *rng.pick(&[11927u32, 12880, 12319])); // build
            u(&mut b, rng.next_u32() | 0x0101_0101); // timestamp
        }
        _ => {
            u(&mut b, *rng.pick(&[12881u32, 13623, 15595, 18414])); // build
            u(&mut b, rng.next_u32() | 0x0101_0101); // timestamp
            let (min, max) = if kind == "wdb2-extended" {
                (0u32, 0u32)
            } else {
                let min = 1 + rng.below(100) as u32;
                (min, min + rng.below(200) as u32)
            };
            u(&mut b, min);
            u(&mut b, max);
            u(&mut b, 0xFFFF_FFFF); // locale
            u(&mut b, 0); // copy table size
            if max != 0 {
                let d = (max - min + 1) as usize;
                for k in 0..d {
                    u(&mut b, 0x4949_0000 | k as u32); // index array
                }
                for k in 0..d {
                    b.extend_from_slice(&(0x5300u16 | (k as u16 & 0xFF)).to_le_bytes()); // string-length array
                }
            }
        }
    }
    let off = b.len();
    b.extend_from_slice(body);
    (b, off)
}

/// One verdict per (path, container): the first difference is reported.
fn cmp_container(c: &mut Case, kind: &str, path: &str, t: &Table, got: &[Vec<MV>]) -> bool {
    c.count(&format!("container_path_vs_model|{kind}|{path}"), 1);
    if got == &t.recs[..] {
        c.count("container_records_compared", got.len() as u64);
        return true;
    }
    let what = if got.len() != t.recs.len() {
        format!("{} records instead of {}", got.len(), t.recs.len())
    } else {
        let ri = got.iter().zip(&t.recs).position(|(g, w)| g != w).unwrap_or(0);
        let (g, w) = (&got[ri], &t.recs[ri]);
        match g.iter().zip(w).position(|(a, b)| a != b) {
            Some(fi) => format!("record {ri} field {fi} ({}) = {}, the table has {}", t.fields[fi].label(), g[fi].show(), w[fi].show()),
            None => format!("record {ri} has {} values, the schema has {} fields", g.len(), w.len()),
        }
    };
    c.violate(
        format!("container-path-ne-model|{path}|{kind}"),
        format!("{path} access to the table inside a {kind} container: {what}"),
        json!({"container": kind, "path": path, "records": t.recs.len()}),
    );
    false
}

/// The table of the case inside a WDB2 / WDB5 container: DbcParser::parse must find records and string block behind the longer
/// header, and the other access paths, handed the parser's data and header the way the crate's examples do, must agree.
#[allow(clippy::too_many_arguments)]
fn check_container(c: &mut Case, t: &Table, m: &Meta, enc: &Encoded, tail: usize, schema: &Schema, keymap: &BTreeMap<u32, Vec<usize>>, absent: &[u32], lane: &mut Rng, file: &Path) {
    let kind = m.container;
    let n = t.recs.len();
    let (wb, rec_off) = wrap_container(kind, t, &enc.bytes[20..], enc.sb_len, lane);
    let file_block = &wb[wb.len() - tail - enc.sb_len..wb.len() - tail];
    c.count(&format!("container_files|{kind}"), 1);
    c.count("container_file_bytes", wb.len() as u64);
    let want_version = if kind == "wdb5" { DbcVersion::WDB5 } else { DbcVersion::WDB2 };
    let mut it = Interner::default();
    for s in &enc.used {
        it.map.insert(s.clone(), ());
    }
    let p_eager = format!("eager@{kind}");
    let Some(parser) = stage(c, &p_eager, "parse_bytes", "", trap(|| DbcParser::parse_bytes(&wb))) else { return };
    if parser.version() != want_version {
        c.violate(format!("container-version|eager|{kind}"), format!("DbcParser::version() = {:?} for a {kind} file", parser.version()), json!({}));
    }
    check_header(c, &p_eager, parser.header(), t, enc.sb_len);
    let Some(parser) = stage(c, &p_eager, "with_schema", "", trap(|| parser.with_schema(schema.clone()))) else { return };
    let Some(mut eager_rs) = stage(c, &p_eager, "parse_records", "", trap(|| parser.parse_records())) else { return };
    let eager_ok;
    {
        let proj: Vec<Vec<MV>> = eager_rs.records().iter().map(|r| project(r, &Src::Set(&eager_rs), &mut it)).collect();
        eager_ok = cmp_container(c, kind, "eager", t, &proj);
    }
    c.count("container_string_blocks_compared", 1);
    if eager_rs.string_block().data() != file_block {
        c.violate(
            format!("container-string-block-ne-file|eager|{kind}"),
            format!("RecordSet::string_block() of a {kind} file (records at offset {rec_off}) differs from the file's string block"),
            json!({"container": kind}),
        );
    }
    // lazy and parallel, handed the parser's data, header and schema (examples/comprehensive.rs)
    let block = Arc::new(eager_rs.string_block().clone());
    {
        let lazy = LazyDbcParser::new(parser.data(), parser.header(), parser.schema(), Arc::clone(&block));
        let r = trap(|| lazy.record_iterator().collect::<wow_cdbc::Result<Vec<Record>>>());
        if let Some(recs) = stage(c, &format!("lazy-iter@{kind}"), "record_iterator", "", r) {
            let proj: Vec<Vec<MV>> = recs.iter().map(|r| project(r, &Src::Block(lazy.string_block()), &mut it)).collect();
            cmp_container(c, kind, "lazy-iter", t, &proj);
        }
        let mut order: Vec<u32> = (0..n as u32).collect();
        lane.shuffle(&mut order);
        let r = trap(|| {
            let mut out: Vec<Option<Record>> = vec![None; n];
            for &i in &order {
                out[i as usize] = Some(lazy.get_record(i)?);
            }
            Ok(out.into_iter().map(|r| r.unwrap()).collect::<Vec<Record>>())
        });
        if let Some(recs) = stage(c, &format!("lazy-index@{kind}"), "get_record", "", r) {
            let proj: Vec<Vec<MV>> = recs.iter().map(|r| project(r, &Src::Block(lazy.string_block()), &mut it)).collect();
            cmp_container(c, kind, "lazy-index", t, &proj);
        }
    }
    {
        let r = trap(|| parse_records_parallel(parser.data(), parser.header(), parser.schema(), Arc::clone(&block)));
        if let Some(rs) = stage(c, &format!("parallel@{kind}"), "parse_records_parallel", "", r) {
            let proj: Vec<Vec<MV>> = rs.records().iter().map(|r| project(r, &Src::Set(&rs), &mut it)).collect();
            cmp_container(c, kind, "parallel", t, &proj);
        }
    }
    // memory-mapped
    let f2 = file.with_extension("container.db2");
    match std::fs::write(&f2, &wb) {
        Err(e) => c.inconclusive(format!("cannot write scratch file: {e}")),
        Ok(()) => {
            let p_mmap = format!("mmap@{kind}");
            if let Some(mm) = stage(c, &p_mmap, "open", "", trap(|| MmapDbcFile::open(&f2))) {
                if mm.version() != want_version {
                    c.violate(format!("container-version|mmap|{kind}"), format!("MmapDbcFile::version() = {:?} for a {kind} file", mm.version()), json!({}));
                }
                check_header(c, &p_mmap, mm.header(), t, enc.sb_len);
                let r = trap(|| mm.parser_with_schema(schema.clone()).and_then(|p| p.parse_records()));
                if let Some(rs) = stage(c, &p_mmap, "parser_with_schema+parse_records", "", r) {
                    let proj: Vec<Vec<MV>> = rs.records().iter().map(|r| project(r, &Src::Set(&rs), &mut it)).collect();
                    cmp_container(c, kind, "mmap", t, &proj);
                }
                if let Some(sb) = stage(c, &format!("mmap-string-block@{kind}"), "string_block", "", trap(|| mm.string_block())) {
                    c.count("container_string_blocks_compared", 1);
                    if sb.data() != file_block {
                        c.violate(
                            format!("container-string-block-ne-file|mmap|{kind}"),
                            format!("MmapDbcFile::string_block() of a {kind} file (records at offset {rec_off}) differs from the file's string block"),
                            json!({"container": kind}),
                        );
                    }
                }
            }
            let _ = std::fs::remove_file(&f2);
        }
    }
    // key lookups on the set read from the container (lookups on a set already known to differ would only repeat that finding)
    if n <= 1000 && eager_ok {
        check_keys(c, &p_eager, &mut eager_rs, t, m.keyty, keymap, absent);
    }
}

/// Record::get_value_by_name against Record::get_value. With unique names the named value is the value at the field's index; with
/// repeated names only "the value of a field carrying that name" is demanded. Unknown names and indices past the end yield nothing.
fn check_by_name(c: &mut Case, path: &str, recs: &[Record], names: &[String], duplicate: bool) {
    let kind = if duplicate { "duplicate-names" } else { "unique-names" };
    let step = (recs.len() / 64).max(1);
    for rec in recs.iter().step_by(step) {
        c.count(&format!("by_name_records|{kind}"), 1);
        if rec.len() != names.len() || rec.is_empty() != names.is_empty() {
            c.violate(format!("by-name|{path}|len"), format!("{path}: Record::len() = {} for a schema of {} fields", rec.len(), names.len()), json!({}));
            return;
        }
        for (j, name) in names.iter().enumerate() {
            c.count(&format!("by_name_lookups|{kind}"), 1);
            let Some(v) = rec.get_value_by_name(name) else {
                c.violate(format!("by-name|{path}|{kind}|none"), format!("{path}: get_value_by_name({name:?}) found nothing although field {j} carries that name"), json!({"field": j}));
                return;
            };
            let ok = if duplicate {
                names.iter().enumerate().any(|(k, nm)| nm == name && rec.get_value(k).is_some_and(|w| std::ptr::eq(v, w)))
            } else {
                rec.get_value(j).is_some_and(|w| std::ptr::eq(v, w))
            };
            if !ok {
                c.violate(format!("by-name|{path}|{kind}|other-field"), format!("{path}: get_value_by_name({name:?}) is not the value of a field of that name (asked for field {j})"), json!({"field": j}));
                return;
            }
        }
        if rec.get_value_by_name("no such field").is_some() || rec.get_value_by_name("").is_some() {
            c.violate(format!("by-name|{path}|unknown-name-found"), format!("{path}: get_value_by_name returned a value for a name the schema does not contain"), json!({}));
            return;
        }
        if rec.get_value(names.len()).is_some() {
            c.violate(format!("by-name|{path}|index-past-end-found"), format!("{path}: get_value({}) returned a value", names.len()), json!({}));
            return;
        }
    }
}

/// Schema-less access: without a schema every column is taken as a 32-bit word, which is only meaningful for tables whose columns
/// are all 32 bits wide; such a table (the case's own, or its 32-bit columns) must come back as the little-endian words of the
/// file on every path, and the words of string columns must resolve to the table's text.
fn check_raw(c: &mut Case, t: &Table, enc: &Encoded, lane: &mut Rng, file: &Path) {
    let cols: Vec<usize> = (0..t.fields.len()).filter(|&j| t.fields[j].ty.width() == 4).collect();
    if cols.is_empty() {
        c.count("raw_tables_skipped|no-32-bit-column", 1);
        return;
    }
    let narrowed = cols.len() != t.fields.len();
    let sub;
    let sub_enc;
    let (t, bytes, sb_len): (&Table, &[u8], usize) = if narrowed {
        let take = t.recs.len().min(2000);
        sub = Table { fields: cols.iter().map(|&j| t.fields[j].clone()).collect(), key: None, recs: t.recs[..take].iter().map(|r| cols.iter().map(|&j| r[j].clone()).collect()).collect() };
        sub_enc = encode(&sub, "dedup", lane);
        (&sub, &sub_enc.bytes[..], sub_enc.sb_len)
    } else {
        (t, &enc.bytes[..], enc.sb_len)
    };
    let n = t.recs.len();
    let (rs_, ncol) = (t.record_size(), t.column_count());
    c.count(&format!("raw_tables|{}", if narrowed { "32-bit-columns-of-the-table" } else { "whole-table" }), 1);
    let words: Vec<Vec<u32>> = (0..n).map(|i| (0..ncol).map(|k| u32::from_le_bytes(bytes[20 + i * rs_ + 4 * k..][..4].try_into().unwrap())).collect()).collect();
    let cmp = |c: &mut Case, path: &str, recs: &[Record]| {
        c.count(&format!("raw_path_vs_file|{path}"), 1);
        if recs.len() != n {
            c.violate(format!("raw-ne-file|{path}|record-count"), format!("schema-less {path}: {} records, the file has {n}", recs.len()), json!({}));
            return;
        }
        for (i, rec) in recs.iter().enumerate() {
            let got: Option<Vec<u32>> = rec.values().iter().map(|v| if let Value::UInt32(x) = v { Some(*x) } else { None }).collect();
            match got {
                None => {
                    c.violate(format!("raw-ne-file|{path}|not-a-32-bit-word"), format!("schema-less {path}: record {i} holds a value that is not a UInt32"), json!({"record": i}));
                    return;
                }
                Some(g) if g != words[i] => {
                    c.violate(format!("raw-ne-file|{path}|words"), format!("schema-less {path}: record {i} is not the {ncol} little-endian words of the file's record {i}"), json!({"record": i, "got": g.iter().take(8).collect::<Vec<_>>(), "want": words[i].iter().take(8).collect::<Vec<_>>()}));
                    return;
                }
                _ => {}
            }
            if rec.schema().is_some() || rec.get_value_by_name("f0").is_some() {
                c.violate(format!("by-name|raw-{path}|schema-less-found"), format!("schema-less {path}: a record claims a schema / answers a by-name lookup"), json!({}));
                return;
            }
        }
        c.count("raw_words_compared", (n * ncol) as u64);
    };
    // eager
    let Some(parser) = stage(c, "raw-eager", "parse_bytes", "", trap(|| DbcParser::parse_bytes(bytes))) else { return };
    let header = *parser.header();
    let Some(rs) = stage(c, "raw-eager", "parse_records", "", trap(|| parser.parse_records())) else { return };
    cmp(c, "eager", rs.records());
    if rs.schema().is_some() || rs.get_record_by_key(1).is_some() || rs.len() != n {
        c.violate("raw-ne-file|eager|set-claims-schema-or-key", "schema-less eager: the record set claims a schema / answers a key lookup / has another length", json!({}));
    }
    // string columns: the raw word is the reference
    let mut col = 0usize;
    for (j, f) in t.fields.iter().enumerate() {
        if f.ty == Ty::Str {
            for (i, rec) in t.recs.iter().enumerate().take(500) {
                for e in 0..f.elems() {
                    let want: &str = match &rec[j] {
                        MV::Str(s) => s,
                        MV::Arr(a) => match &a[e] {
                            MV::Str(s) => s,
                            _ => continue,
                        },
                        _ => continue,
                    };
                    c.count("raw_string_words_resolved", 1);
                    let w = words[i][col + e];
                    match rs.get_string(StringRef::new(w)) {
                        Ok(s) if s == want => {}
                        other => {
                            c.violate("raw-ne-file|eager|string-word", format!("schema-less eager: the word of string field {j} in record {i} resolves to {:?}, the table has {want:?}", other.map(|s| s.chars().take(40).collect::<String>()).map_err(|e| ekind(&e))), json!({"record": i, "field": j}));
                            return;
                        }
                    }
                }
            }
        }
        col += f.elems();
    }
    let block = Arc::new(rs.string_block().clone());
    {
        let lazy = LazyDbcParser::new(bytes, &header, None, Arc::clone(&block));
        if let Some(recs) = stage(c, "raw-lazy-iter", "record_iterator", "", trap(|| lazy.record_iterator().collect::<wow_cdbc::Result<Vec<Record>>>())) {
            cmp(c, "lazy-iter", &recs);
        }
        let mut order: Vec<u32> = (0..n as u32).collect();
        lane.shuffle(&mut order);
        let r = trap(|| {
            let mut out: Vec<Option<Record>> = vec![None; n];
            for &i in &order {
                out[i as usize] = Some(lazy.get_record(i)?);
            }
            Ok(out.into_iter().map(|r| r.unwrap()).collect::<Vec<Record>>())
        });
        if let Some(recs) = stage(c, "raw-lazy-index", "get_record", "", r) {
            cmp(c, "lazy-index", &recs);
        }
    }
    if let Some(prs) = stage(c, "raw-parallel", "parse_records_parallel", "", trap(|| parse_records_parallel(bytes, &header, None, Arc::clone(&block)))) {
        cmp(c, "parallel", prs.records());
    }
    let f2 = file.with_extension("raw.dbc");
    match std::fs::write(&f2, bytes) {
        Err(e) => c.inconclusive(format!("cannot write scratch file: {e}")),
        Ok(()) => {
            if let Some(mm) = stage(c, "raw-mmap", "open", "", trap(|| MmapDbcFile::open(&f2))) {
                if let Some(mrs) = stage(c, "raw-mmap", "parser+parse_records", "", trap(|| mm.parser().parse_records())) {
                    cmp(c, "mmap", mrs.records());
                    if mrs.string_block().data() != &bytes[20 + n * rs_..20 + n * rs_ + sb_len] {
                        c.violate("string-block-ne-file|raw-mmap", "schema-less mmap: RecordSet::string_block() differs from the file's string block", json!({}));
                    }
                }
            }
            let _ = std::fs::remove_file(&f2);
        }
    }
}

fn check_table(c: &mut Case, t: &Table, m: &Meta, rng: &mut Rng, rs_lane: &mut Rng, lane3: &mut Rng, quick: bool, file: &Path) {
    let mut enc = encode(t, m.layout, rng);
    // every fifth table lives in a file that goes on behind the string block (padding / appended bytes): the header says where
    // the table ends, and every access path has to take it from there
    let tail = if rs_lane.below(5) == 0 { 1 + rs_lane.usize(64) } else { 0 };
    for k in 0..tail {
        enc.bytes.push(if k % 3 == 0 { 0 } else { b'a' + (k % 26) as u8 });
    }
    if tail > 0 {
        c.count("tables|file-longer-than-table", 1);
    }
    let n = t.recs.len();
    c.nontrivial = n > 0;
    // ---- what this case contains
    c.count("tables", 1);
    c.count(&format!("tables|n={n}"), 1);
    c.count(&format!("tables|key={}", m.keypos), 1);
    if t.key.is_some() {
        c.count(&format!("tables|keytype={}", m.keyty), 1);
        c.count(&format!("tables|keymode={}", m.keymode), 1);
    }
    c.count(&format!("tables|sb={}", m.layout), 1);
    c.count("records", n as u64);
    c.count("file_bytes", enc.bytes.len() as u64);
    for f in &t.fields {
        c.count(&format!("fields|{}", f.ty.name()), 1);
        if f.arr.is_some() {
            c.count("fields|array", 1);
        }
    }
    c.count("strings_unique", enc.used.len() as u64);
    c.count("string_refs", enc.refs);
    c.count("strings_duplicate_refs", enc.refs - enc.used.len() as u64);
    {
        let set: HashSet<&str> = enc.used.iter().map(|s| &**s).collect();
        let mut suffix = 0u64;
        let mut nonascii = 0u64;
        for s in &enc.used {
            if !s.is_ascii() {
                nonascii += 1;
            }
            for (ci, _) in s.char_indices().filter(|(ci, _)| *ci > 0) {
                if set.contains(&s[ci..]) {
                    suffix += 1;
                }
            }
        }
        c.count("strings_suffix_pairs", suffix);
        let mut prefix = 0u64;
        for s in &enc.used {
            for (ci, _) in s.char_indices().filter(|(ci, _)| *ci > 0) {
                if set.contains(&s[..ci]) {
                    prefix += 1;
                }
            }
        }
        c.count("strings_prefix_pairs", prefix);
        c.count("strings_nonascii", nonascii);
        if set.contains("") {
            c.count("tables_with_empty_string", 1);
        }
    }
    let mut keymap: BTreeMap<u32, Vec<usize>> = BTreeMap::new();
    if t.key.is_some() {
        for (i, r) in t.recs.iter().enumerate() {
            if let Some(k) = t.key_of(r) {
                keymap.entry(k).or_default().push(i);
            }
        }
        c.count("keys_distinct", keymap.len() as u64);
        c.count("keys_duplicated", keymap.values().filter(|v| v.len() > 1).count() as u64);
        c.count("keys_negative", keymap.keys().filter(|k| m.keyty == "int32" && (**k as i32) < 0).count() as u64);
        if t.recs.windows(2).any(|w| t.key_of(&w[0]) > t.key_of(&w[1])) {
            c.count("tables_keys_unsorted", 1);
        }
    }
    let mut absent: Vec<u32> = vec![0, 1, u32::MAX, 0x7FFF_FFFF, 0x8000_0000, 0xFFFF_FFFE];
    {
        let present: Vec<u32> = keymap.keys().copied().collect();
        for _ in 0..40 {
            if !present.is_empty() {
                let k = present[rng.usize(present.len())];
                absent.push(k.wrapping_add(1));
                absent.push(k.wrapping_sub(1));
            }
        }
        while absent.len() < 160 {
            absent.push(rng.next_u32());
        }
        absent.retain(|k| !keymap.contains_key(k));
        absent.sort();
        absent.dedup();
        rng.shuffle(&mut absent);
        absent.truncate(100);
    }

    // ---- the schema, its key declared by index or by name
    let names = field_names(t, false);
    c.count(&format!("schema_key_declared_by|{}", if t.key.is_some() { m.key_by } else { "no-key" }), 1);
    let schema = match lib_schema(t, &names, m.key_by) {
        Ok(s) => s,
        Err(e) => {
            c.violate(format!("schema-key-by-name|{}|refused-present-name", m.key_by), format!("declaring the key field by its name: {e}"), json!({"key_field_index": t.key}));
            return;
        }
    };
    if schema.key_field_index != t.key {
        c.violate(
            format!("schema-key-by-name|{}|wrong-index", m.key_by),
            format!("key field declared as {:?} ({}): Schema::key_field_index = {:?}, the field is at {:?}", t.key.map(|k| &names[k]), m.key_by, schema.key_field_index, t.key),
            json!({}),
        );
        return;
    }
    {
        // a name the schema does not contain: try_set_key_field refuses and leaves the key alone, set_key_field panics (documented)
        let mut probe = schema.clone();
        c.count("schema_key_unknown_name_probes", 2);
        match trap(|| probe.try_set_key_field("no such field").is_ok()) {
            Ok(false) if probe.key_field_index == t.key => {}
            Ok(_) => c.violate("schema-key-by-name|try-name|unknown-name-accepted-or-key-changed", "try_set_key_field with a name the schema does not contain returned Ok or changed the key field", json!({})),
            Err(p) => c.violate("schema-key-by-name|try-name|unknown-name-panic", format!("try_set_key_field with an unknown name panicked: {}", p.msg), json!({})),
        }
        let mut probe2 = schema.clone();
        if trap(|| {
            probe2.set_key_field("no such field");
        })
        .is_ok()
            && probe2.key_field_index != t.key
        {
            c.violate("schema-key-by-name|name|unknown-name-changed-key", "set_key_field with a name the schema does not contain returned and changed the key field", json!({}));
        }
    }
    let mut it = Interner::default();
    for s in &enc.used {
        it.map.insert(s.clone(), ());
    }
    let mut results: Vec<PathResult> = Vec::new();
    let mut eager_proj: Option<Vec<Vec<MV>>> = None;
    // `same_file`: the path reads the file produced by the independent encoder, so it takes part in the
    // path-vs-path comparison; the library-written file is a different file and is compared with the model only.
    let finish_path = |c: &mut Case, name: &'static str, same_file: bool, proj: Vec<Vec<MV>>, results: &mut Vec<PathResult>, eager_proj: &mut Option<Vec<Vec<MV>>>| -> bool {
        let eq = cmp_model(c, name, t, &proj);
        if !same_file {
            return eq;
        }
        let h = hash_proj(&proj);
        if let Some(e) = eager_proj.as_ref() {
            // direct element-wise comparison with the eager path
            c.count("path_pairs_compared", 1);
            if *e != proj {
                c.violate(format!("paths-disagree|eager-vs-{name}"), format!("eager and {name} access returned different records for the same file"), json!({"a": "eager", "b": name}));
            }
        }
        for r in results.iter() {
            if r.name == "eager" {
                continue;
            }
            // remaining pairs through a 64-bit fingerprint of the full projection
            c.count("path_pairs_compared", 1);
            if r.hash != h {
                c.violate(format!("paths-disagree|{}-vs-{name}", r.name), format!("{} and {name} access returned different records for the same file", r.name), json!({"a": r.name, "b": name}));
            }
        }
        results.push(PathResult { name, hash: h });
        if name == "eager" {
            *eager_proj = Some(proj);
        }
        eq
    };

    // ---- path 1: eager
    let parser = stage(c, "eager", "parse_bytes", "", trap(|| DbcParser::parse_bytes(&enc.bytes)));
    let Some(parser) = parser else { return };
    check_header(c, "eager", parser.header(), t, enc.sb_len);
    let header = *parser.header();
    let Some(parser) = stage(c, "eager", "with_schema", "", trap(|| parser.with_schema(schema.clone()))) else { return };
    let Some(mut eager_rs) = stage(c, "eager", "parse_records", "", trap(|| parser.parse_records())) else { return };
    {
        let proj: Vec<Vec<MV>> = eager_rs.records().iter().map(|r| project(r, &Src::Set(&eager_rs), &mut it)).collect();
        finish_path(c, "eager", true, proj, &mut results, &mut eager_proj);
    }
    check_by_name(c, "eager", eager_rs.records(), &names, false);
    // repeated field names (small tables): same values, by-name access yields a field of that name
    if n <= 300 && t.fields.len() >= 2 {
        let dnames = field_names(t, true);
        if let Ok(dschema) = lib_schema(t, &dnames, "index") {
            let r = trap(|| DbcParser::parse_bytes(&enc.bytes).and_then(|p| p.with_schema(dschema)).and_then(|p| p.parse_records()));
            if let Some(rs) = stage(c, "eager-duplicate-names", "parse", "", r) {
                let proj: Vec<Vec<MV>> = rs.records().iter().map(|r| project(r, &Src::Set(&rs), &mut it)).collect();
                if cmp_model(c, "eager-duplicate-names", t, &proj) {
                    check_by_name(c, "eager-duplicate-names", rs.records(), &dnames, true);
                }
            }
        }
    }
    // same record set, strings through the cached string block
    {
        let mut cached = eager_rs.clone();
        if trap(|| cached.enable_string_caching()).is_err() {
            c.violate("path-panic|eager-cached|enable_string_caching", "enable_string_caching panicked", json!({}));
        } else {
            let proj: Vec<Vec<MV>> = cached.records().iter().map(|r| project(r, &Src::Set(&cached), &mut it)).collect();
            finish_path(c, "eager-cached", true, proj, &mut results, &mut eager_proj);
        }
    }
    let block = Arc::new(eager_rs.string_block().clone());
    if block.data() != &enc.bytes[enc.bytes.len() - tail - enc.sb_len..enc.bytes.len() - tail] {
        c.violate("string-block-ne-file|eager", "RecordSet::string_block() differs from the file's string block", json!({}));
    }

    // ---- path 2: lazy (iterator and indexed)
    {
        let lazy = LazyDbcParser::new(&enc.bytes, &header, Some(&schema), Arc::clone(&block));
        let r = trap(|| lazy.record_iterator().collect::<wow_cdbc::Result<Vec<Record>>>());
        if let Some(recs) = stage(c, "lazy-iter", "record_iterator", "", r) {
            let proj: Vec<Vec<MV>> = recs.iter().map(|r| project(r, &Src::Block(lazy.string_block()), &mut it)).collect();
            finish_path(c, "lazy-iter", true, proj, &mut results, &mut eager_proj);
            check_by_name(c, "lazy-iter", &recs, &names, false);
        }
        // the iterator driven through the rest of the Iterator interface (after C17-r6m2): a random program of next / nth /
        // skip / take / step_by / size_hint / count on one partially consumed iterator; the model is the position in the table
        if let Some(all) = stage(c, "lazy-iter-program", "record_iterator", "", trap(|| lazy.record_iterator().collect::<wow_cdbc::Result<Vec<Record>>>())) {
            let want: Vec<Vec<MV>> = all.iter().map(|r| project(r, &Src::Block(lazy.string_block()), &mut it)).collect();
            let mut prog: Vec<String> = Vec::new();
            let r = trap(|| -> wow_cdbc::Result<Option<String>> {
                let mut iter = lazy.record_iterator();
                let mut pos = 0usize;
                let mut seen: Vec<(usize, Record)> = Vec::new();
                for _ in 0..64 {
                    let rem = n.saturating_sub(pos);
                    let (lo, hi) = iter.size_hint();
                    if lo > rem || hi.map(|h| h < rem).unwrap_or(false) {
                        return Ok(Some(format!("size_hint() = ({lo}, {hi:?}) with {rem} records left after {prog:?}")));
                    }
                    let k = rng.usize(4);
                    match rng.usize(6) {
                        0 | 1 => {
                            prog.push("next".into());
                            match iter.next() {
                                Some(x) => seen.push((pos, x?)),
                                None if rem == 0 => break,
                                None => return Ok(Some(format!("next() = None with {rem} records left after {prog:?}"))),
                            }
                            pos += 1;
                        }
                        2 => {
                            prog.push(format!("nth({k})"));
                            match iter.nth(k) {
                                Some(x) => seen.push((pos + k, x?)),
                                None if rem <= k => break,
                                None => return Ok(Some(format!("nth({k}) = None with {rem} records left after {prog:?}"))),
                            }
                            pos += k + 1;
                        }
                        3 => {
                            prog.push(format!("by_ref().skip({k}).next()"));
                            match iter.by_ref().skip(k).next() {
                                Some(x) => seen.push((pos + k, x?)),
                                None if rem <= k => break,
                                None => return Ok(Some(format!("skip({k}).next() = None with {rem} records left after {prog:?}"))),
                            }
                            pos += k + 1;
                        }
                        4 => {
                            prog.push(format!("by_ref().take({k})"));
                            let mut got = 0;
                            for x in iter.by_ref().take(k) {
                                seen.push((pos + got, x?));
                                got += 1;
                            }
                            if got != k.min(rem) {
                                return Ok(Some(format!("take({k}) yielded {got} records with {rem} left after {prog:?}")));
                            }
                            pos += got;
                        }
                        _ => {
                            let step = k + 1;
                            if rng.bool() {
                                prog.push(format!("step_by({step})"));
                                let mut j = pos;
                                for x in iter.step_by(step) {
                                    seen.push((j, x?));
                                    j += step;
                                }
                                if rem > 0 && j != pos + rem.div_ceil(step) * step {
                                    return Ok(Some(format!("step_by({step}) yielded {} records with {rem} left after {prog:?}", (j - pos) / step)));
                                }
                            } else {
                                prog.push("count".into());
                                let cnt = iter.count();
                                if cnt != rem {
                                    return Ok(Some(format!("count() = {cnt} with {rem} records left after {prog:?}")));
                                }
                            }
                            break;
                        }
                    }
                }
                for (i, rec) in &seen {
                    if *i >= n {
                        return Ok(Some(format!("a record was yielded for position {i} of a table with {n} records after {prog:?}")));
                    }
                    if project(rec, &Src::Block(lazy.string_block()), &mut it) != want[*i] {
                        return Ok(Some(format!("the record yielded for position {i} is not record {i} of the table after {prog:?}")));
                    }
                }
                c.count("lazy_iter_program_records", seen.len() as u64);
                Ok(None)
            });
            c.count("lazy_iter_programs", 1);
            if let Some(Some(bad)) = stage(c, "lazy-iter-program", "drive", "", r) {
                c.violate("path-disagrees|lazy-iter-program", format!("LazyRecordIterator through the Iterator interface: {bad}"), json!({"program": prog, "records": n}));
            }
        }
        // indexed access in a scrambled order
        let mut order: Vec<u32> = (0..n as u32).collect();
        rng.shuffle(&mut order);
        let r = trap(|| {
            let mut out: Vec<Option<Record>> = vec![None; n];
            for &i in &order {
                out[i as usize] = Some(lazy.get_record(i)?);
            }
            Ok(out.into_iter().map(|r| r.unwrap()).collect::<Vec<Record>>())
        });
        if let Some(recs) = stage(c, "lazy-index", "get_record", "", r) {
            let proj: Vec<Vec<MV>> = recs.iter().map(|r| project(r, &Src::Block(lazy.string_block()), &mut it)).collect();
            finish_path(c, "lazy-index", true, proj, &mut results, &mut eager_proj);
        }
    }

    // ---- path 3: memory-mapped file
    let mut mmap_rs: Option<RecordSet> = None;
    match std::fs::write(file, &enc.bytes) {
        Err(e) => c.inconclusive(format!("cannot write scratch file: {e}")),
        Ok(()) => {
            if let Some(mm) = stage(c, "mmap", "open", "", trap(|| MmapDbcFile::open(file))) {
                check_header(c, "mmap", mm.header(), t, enc.sb_len);
                if mm.as_slice() != &enc.bytes[..] {
                    c.violate("mmap-slice-ne-file", "MmapDbcFile::as_slice() differs from the bytes written to the file", json!({}));
                }
                let r = trap(|| mm.parser_with_schema(schema.clone()).and_then(|p| p.parse_records()));
                if let Some(rs) = stage(c, "mmap", "parser_with_schema+parse_records", "", r) {
                    let proj: Vec<Vec<MV>> = rs.records().iter().map(|r| project(r, &Src::Set(&rs), &mut it)).collect();
                    finish_path(c, "mmap", true, proj, &mut results, &mut eager_proj);
                    mmap_rs = Some(rs);
                }
                // records decoded straight from the mapping, strings from MmapDbcFile::string_block()
                if let Some(sb) = stage(c, "mmap-lazy", "string_block", "", trap(|| mm.string_block())) {
                    let sb = Arc::new(sb);
                    let mh = *mm.header();
                    let lazy = LazyDbcParser::new(mm.as_slice(), &mh, Some(&schema), Arc::clone(&sb));
                    let r = trap(|| lazy.record_iterator().collect::<wow_cdbc::Result<Vec<Record>>>());
                    if let Some(recs) = stage(c, "mmap-lazy", "record_iterator", "", r) {
                        let proj: Vec<Vec<MV>> = recs.iter().map(|r| project(r, &Src::Block(&sb), &mut it)).collect();
                        finish_path(c, "mmap-lazy", true, proj, &mut results, &mut eager_proj);
                    }
                }
            }
            let _ = std::fs::remove_file(file);
        }
    }

    // ---- path 4: parallel
    let mut par_rs: Option<RecordSet> = None;
    {
        let r = trap(|| parse_records_parallel(&enc.bytes, &header, Some(&schema), Arc::clone(&block)));
        if let Some(rs) = stage(c, "parallel", "parse_records_parallel", "", r) {
            let proj: Vec<Vec<MV>> = rs.records().iter().map(|r| project(r, &Src::Set(&rs), &mut it)).collect();
            finish_path(c, "parallel", true, proj, &mut results, &mut eager_proj);
            check_by_name(c, "parallel", rs.records(), &names, false);
            par_rs = Some(rs);
        }
    }

    // ---- the string block on its own: StringBlock::parse at the offset the header gives, CachedStringBlock built from it;
    //      every reference stored in the records resolved through both; is_string_start against the block's bytes
    if t.fields.iter().any(|f| f.ty == Ty::Str) {
        let sb_off = 20 + n * t.record_size();
        let file_block = &enc.bytes[sb_off..sb_off + enc.sb_len];
        let r = trap(|| StringBlock::parse(&mut Cursor::new(&enc.bytes[..]), sb_off as u64, enc.sb_len as u32));
        if let Some(sb2) = stage(c, "standalone-block", "StringBlock::parse", "", r) {
            c.count("standalone_string_blocks", 1);
            if sb2.data() != file_block || sb2.size() != enc.sb_len {
                c.violate("string-block-ne-file|standalone", "StringBlock::parse(reader, offset, size) did not return the file's string block", json!({}));
            }
            let proj: Vec<Vec<MV>> = eager_rs.records().iter().map(|r| project(r, &Src::Block(&sb2), &mut it)).collect();
            finish_path(c, "standalone-block", true, proj, &mut results, &mut eager_proj);
            match trap(|| CachedStringBlock::from_string_block(&sb2)) {
                Ok(cb) => {
                    let proj: Vec<Vec<MV>> = eager_rs.records().iter().map(|r| project(r, &Src::Cached(&cb), &mut it)).collect();
                    finish_path(c, "standalone-cached", true, proj, &mut results, &mut eager_proj);
                }
                Err(p) => c.violate(format!("path-panic|standalone-cached|from_string_block|{}", p.sig()), format!("CachedStringBlock::from_string_block panicked: {}", p.msg), json!({})),
            }
            let mut offs: HashSet<u32> = HashSet::new();
            fn walk(v: &Value, offs: &mut HashSet<u32>) {
                match v {
                    Value::StringRef(r) => {
                        offs.insert(r.offset());
                    }
                    Value::Array(a) => a.iter().for_each(|x| walk(x, offs)),
                    _ => {}
                }
            }
            for r in eager_rs.records() {
                r.values().iter().for_each(|v| walk(v, &mut offs));
            }
            offs.extend([0, enc.sb_len as u32, enc.sb_len as u32 + 1, u32::MAX, (enc.sb_len as u32).saturating_sub(1)]);
            for o in offs {
                c.count("is_string_start_checked", 1);
                let want = (o as usize) < file_block.len() && (o == 0 || file_block[o as usize - 1] == 0);
                if want {
                    c.count("is_string_start_checked|true", 1);
                }
                if sb2.is_string_start(o) != want {
                    c.violate(
                        format!("is-string-start|want={want}"),
                        format!("StringBlock::is_string_start({o}) = {} in a block of {} bytes (a string starts at 0 or behind a NUL)", !want, file_block.len()),
                        json!({"offset": o, "block_len": file_block.len()}),
                    );
                    break;
                }
            }
        }
    }

    // ---- schema-less access (every table up to 1000 records; a third of the large ones in the quick tier)
    if n <= 1000 || !quick || lane3.below(3) == 0 {
        check_raw(c, t, &enc, lane3, file);
    }

    // ---- the same table inside a WDB2 / WDB5 container
    if n <= 1000 || !quick || lane3.below(3) == 0 {
        check_container(c, t, m, &enc, tail, &schema, &keymap, &absent, lane3, file);
    }

    // ---- path 5: library writer, then parse what it wrote
    let mut rewrite_rs: Option<RecordSet> = None;
    {
        let (src_name, src): (&str, &RecordSet) = match m.rewrite_src {
            "parallel" if par_rs.is_some() => ("parallel", par_rs.as_ref().unwrap()),
            "mmap" if mmap_rs.is_some() => ("mmap", mmap_rs.as_ref().unwrap()),
            _ => ("eager", &eager_rs),
        };
        c.count(&format!("rewrite_source|{src_name}"), 1);
        let mut out: Vec<u8> = Vec::new();
        let r = trap(|| {
            let w = DbcWriter::new(Cursor::new(&mut out));
            let mut w = if m.explicit_writer_schema { w.with_schema(schema.clone()) } else { w };
            w.write_records(src)
        });
        if stage(c, "rewrite", "write_records", "", r).is_some() {
            // reference size: what the independent encoder produces with every string stored once
            let reference_len = 20 + n * t.record_size() + 1 + enc.used.iter().filter(|s| !s.is_empty()).map(|s| s.len() + 1).sum::<usize>();
            let written_fc = check_written(c, t, &out, reference_len);
            let tag = format!("|arrays={}", t.has_arrays());
            let reparse = |bytes: &[u8]| trap(|| DbcParser::parse_bytes(bytes).and_then(|p| p.with_schema(schema.clone())).and_then(|p| p.parse_records()));
            let mut r = reparse(&out);
            if let (Ok(Err(wow_cdbc::Error::SchemaValidation(_))), Some(fc)) = (&r, written_fc) {
                if fc != t.column_count() && out.len() >= 20 {
                    // The written header's field count is not the file's column count, so the schema is refused.
                    // Report that, then repair only this header field in a copy so that the rest of the written
                    // file (records, string block) is still compared instead of hiding behind this failure.
                    stage::<RecordSet>(c, "rewrite", "reparse", &format!("|written-field-count-ne-columns{tag}"), r);
                    let mut patched = out.clone();
                    patched[8..12].copy_from_slice(&(t.column_count() as u32).to_le_bytes());
                    c.count("rewrite_reparsed_after_field_count_patch", 1);
                    r = reparse(&patched);
                }
            }
            if let Some(rs) = stage(c, "rewrite", "reparse", &tag, r) {
                let proj: Vec<Vec<MV>> = rs.records().iter().map(|r| project(r, &Src::Set(&rs), &mut it)).collect();
                if finish_path(c, "rewrite", false, proj, &mut results, &mut eager_proj) {
                    rewrite_rs = Some(rs);
                    // the single write is right: now the same writer inside longer histories
                    if written_fc == Some(t.column_count()) {
                        check_writer_histories(c, t, m, &schema, src, &out, &mut it, rs_lane, file);
                    }
                } else {
                    // lookups on a record set already known to differ from the table would only repeat that finding
                    c.count("key_lookups_skipped|rewrite-ne-model", 1);
                }
            }
        }
    }
    c.count("string_refs_resolved", it.resolved);
    c.count("paths_completed_on_encoder_file", results.len() as u64);

    // ---- key lookups on every record set
    check_keys(c, "eager", &mut eager_rs, t, m.keyty, &keymap, &absent);
    if let Some(rs) = par_rs.as_mut() {
        check_keys(c, "parallel", rs, t, m.keyty, &keymap, &absent);
    }
    if let Some(rs) = mmap_rs.as_mut() {
        check_keys(c, "mmap", rs, t, m.keyty, &keymap, &absent);
    }
    if let Some(rs) = rewrite_rs.as_mut() {
        check_keys(c, "rewrite", rs, t, m.keyty, &keymap, &absent);
    }
}

/// Hand-written minimal tables: regression anchors and minimal witnesses (independent of the seed).
fn fixed_tables() -> Vec<(Table, Meta)> {
    let st = |s: &str| MV::Str(Arc::from(s));
    let sc = |ty: Ty| MField { ty, arr: None };
    let ar = |ty: Ty, n: usize| MField { ty, arr: Some(n) };
    let meta = |n: usize, keypos: &'static str, keyty: &'static str| Meta {
        n,
        keypos,
        keyty,
        keymode: "fixed",
        pool: 0,
        layout: "dedup",
        rewrite_src: "eager",
        explicit_writer_schema: false,
        key_by: ["index", "name", "try-name"][n % 3],
        container: CONTAINERS[0],
    };
    let mut v = Vec::new();
    // 0: the shape of the crate's own tests: (id, name, value) x 2
    v.push((
        Table {
            fields: vec![sc(Ty::U32), sc(Ty::Str), sc(Ty::U32)],
            key: Some(0),
            recs: vec![vec![MV::U32(1), st("First"), MV::U32(100)], vec![MV::U32(2), st("Second"), MV::U32(200)]],
        },
        meta(2, "first", "uint32"),
    ));
    // 1: one array field of three integers, one record
    v.push((Table { fields: vec![ar(Ty::U32, 3)], key: None, recs: vec![vec![MV::Arr(vec![MV::U32(7), MV::U32(8), MV::U32(9)])]] }, meta(1, "absent", "uint32")));
    // 2: a signed key field holding a positive key
    v.push((Table { fields: vec![sc(Ty::I32)], key: Some(0), recs: vec![vec![MV::I32(5)]] }, meta(1, "first", "int32")));
    // 3: a signed key field holding a negative key
    v.push((Table { fields: vec![sc(Ty::I32), sc(Ty::U8)], key: Some(0), recs: vec![vec![MV::I32(-1), MV::U8(9)]] }, meta(1, "first", "int32")));
    // 4: one array field of two strings, one record
    v.push((Table { fields: vec![ar(Ty::Str, 2)], key: None, recs: vec![vec![MV::Arr(vec![st("a"), st("b")])]] }, meta(1, "absent", "uint32")));
    // 5: every field type once, mixed widths, duplicate + suffix + non-ASCII strings, duplicate key
    v.push((
        Table {
            fields: vec![sc(Ty::U8), sc(Ty::Str), sc(Ty::I16), sc(Ty::U32), sc(Ty::F32), sc(Ty::Bool), sc(Ty::I8), sc(Ty::U16), sc(Ty::I32), sc(Ty::Str)],
            key: Some(3),
            recs: vec![
                vec![MV::U8(255), st("Stormwind"), MV::I16(-2), MV::U32(30), MV::F32(0x7FC0_0001), MV::Bool(true), MV::I8(-128), MV::U16(65535), MV::I32(i32::MIN), st("wind")],
                vec![MV::U8(0), st("wind"), MV::I16(32767), MV::U32(10), MV::F32(0x8000_0000), MV::Bool(false), MV::I8(127), MV::U16(0), MV::I32(-1), st("")],
                vec![MV::U8(1), st("Ürün"), MV::I16(0), MV::U32(30), MV::F32(0x3F80_0000), MV::Bool(true), MV::I8(0), MV::U16(256), MV::I32(1), st("Stormwind")],
            ],
        },
        meta(3, "middle", "uint32"),
    ));
    // 6: an empty table with a full-width schema
    v.push((Table { fields: vec![sc(Ty::U32), sc(Ty::U8), ar(Ty::I16, 2), sc(Ty::Str)], key: Some(0), recs: vec![] }, meta(0, "first", "uint32")));
    // containers by position: fixed table 0 sits in a basic WDB2 header, 1 in an extended one, 2 with index arrays, 3 in WDB5, ...
    for (i, (_, m)) in v.iter_mut().enumerate() {
        m.container = CONTAINERS[i % 4];
    }
    v
}

fn main() {
    let mut run = Run::new();
    let thorough = run.args.thorough();
    let fixed = fixed_tables();
    let nfixed = fixed.len() as u64;
    let mut n_cases: u64 = nfixed + if thorough { 10000 } else { 900 };
    if let Some(l) = run.args.get("limit").and_then(|s| s.parse::<u64>().ok()) {
        n_cases = n_cases.min(l);
    }
    run.extra("tables_planned", json!(n_cases));
    let scratch = PathBuf::from(&run.args.scratch);
    let mut fixed = fixed.into_iter();
    for idx in 0..n_cases {
        let fx = if idx < nfixed { fixed.next() } else { None };
        if !run.want(idx) {
            continue;
        }
        let mut rng = run.rng(idx, 0);
        let (t, meta) = match fx {
            Some(x) => x,
            None => gen_table(&mut rng, idx - nfixed),
        };
        let mut desc = meta.desc(&t);
        if idx < nfixed {
            desc["fixed_table"] = json!(idx);
            desc["rows"] = json!(t.recs.iter().map(|r| r.iter().map(|v| v.show()).collect::<Vec<_>>()).collect::<Vec<_>>());
        }
        let class = if idx < nfixed { format!("fixed{idx}|{}", meta.class(&t)) } else { meta.class(&t) };
        let file = scratch.join(format!("c17-{idx}.dbc"));
        let mut rs_lane = run.rng(idx, 1);
        let mut lane3 = run.rng(idx, 2);
        run.case(idx, &class, desc, |c| {
            check_table(c, &t, &meta, &mut rng, &mut rs_lane, &mut lane3, !thorough, &file);
            let _ = std::fs::remove_file(&file);
        });
    }
    run.done();
}
