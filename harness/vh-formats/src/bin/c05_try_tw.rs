//! TEMPORARY development bin (tables + world modules only) — deleted before delivery.
#[path = "../c05_common.rs"]
mod c05_common;
#[path = "../c05_fmt_tables.rs"]
mod fmt_tables;
#[path = "../c05_fmt_world.rs"]
mod fmt_world;
#[global_allocator]
static A: c05_common::SiteAlloc = c05_common::SiteAlloc;
fn main() {
    let mut f = fmt_tables::formats();
    f.extend(fmt_world::formats());
    c05_common::worker_main(f, 2000, 50_000);
}
