//! C15 — WMO root and group files survive write -> parse; second write byte-identical; header counts equal
//! list lengths; version conversion preserves common content.  DESIGN.md §6 C15.
//!
//! Signature scheme: `<clause>|<item>|<trigger predicate>|<version set>`.
//!   One case = one generated object written for all eleven versions Classic..WarWithin (MVER 17 for Classic..MoP,
//!   the crate's own numbers 18..23 from Wod on).  For every (clause, item, predicate) the versions on which the
//!   comparison failed are collected; the version set is rendered as `all` when it equals the set of versions on which
//!   that comparison was made, otherwise as `A+B` (with `v18+` standing for "every checked version from Wod on").
//!   Nothing random enters a signature.
//!   Further clauses: `alt-reader|<entry point>|<root/group>|<item>` (parse_wmo_with_metadata, discover_wmo_chunks,
//!   root_parser::parse_root_file against parse_wmo and the walker) and `editor-history|...` (WmoEditor sessions:
//!   tallies, vertex lists, save -> parse of the edited root and of the loaded groups).
//!
//! Types without `Default`: WmoRoot and its element structs are obtained by parsing a seed file produced by
//! the independent encoder below and edited by field assignment.  The legacy `WmoGroup` family cannot be
//! obtained from any parser (`WmoGroupParser::parse_group` is a stub), so those are struct literals.

use serde_json::{Value, json};
use std::collections::{BTreeMap, BTreeSet, HashMap};
use std::io::Cursor;
use vh_common::{Case, PanicInfo, Rng, Run, trap};
use wow_wmo::api::{ParsedWmo, parse_wmo};
use wow_wmo::types::{BoundingBox, Color, Vec3};
use wow_wmo::version::WmoVersion;
use wow_wmo::wmo_group_types::{
    TexCoord, WmoBatch, WmoBspNode, WmoGroup, WmoGroupFlags, WmoGroupHeader, WmoLiquid, WmoLiquidVertex, WmoPlane,
};
use wow_wmo::wmo_types::{WmoFlags, WmoLightType, WmoMaterialFlags, WmoRoot};
use wow_wmo::{WmoConverter, WmoGroupParser, WmoParser, WmoWriter};

const VERS: [(WmoVersion, &str); 11] = [
    (WmoVersion::Classic, "Classic"),
    (WmoVersion::Tbc, "Tbc"),
    (WmoVersion::Wotlk, "Wotlk"),
    (WmoVersion::Cataclysm, "Cataclysm"),
    (WmoVersion::Mop, "Mop"),
    (WmoVersion::Wod, "Wod"),
    (WmoVersion::Legion, "Legion"),
    (WmoVersion::Bfa, "Bfa"),
    (WmoVersion::Shadowlands, "Shadowlands"),
    (WmoVersion::Dragonflight, "Dragonflight"),
    (WmoVersion::WarWithin, "WarWithin"),
];
const WOTLK: usize = 2;
const CATA: usize = 3;
const MOP: usize = 4;
/// first version written with an MVER above 17 (the crate's own numbering 18..23) and with the crate's 16-byte liquid vertices
const WOD: usize = 5;
const LEGION: usize = 6;

static THOROUGH: std::sync::atomic::AtomicBool = std::sync::atomic::AtomicBool::new(false);

/// Conversion pairs of one case: the 25 pairs among Classic..Mop always; of the 96 pairs that involve a version from Wod on
/// all in thorough, in quick 12 per case (rotating with the case index, so that 8 consecutive cases cover all of them).
fn conversion_pairs(idx: u64) -> Vec<(usize, usize)> {
    let mut old = Vec::new();
    let mut new = Vec::new();
    for from in 0..VERS.len() {
        for to in 0..VERS.len() {
            if from < WOD && to < WOD { old.push((from, to)) } else { new.push((from, to)) }
        }
    }
    if THOROUGH.load(std::sync::atomic::Ordering::Relaxed) {
        old.extend(new);
    } else {
        for j in 0..12u64 {
            old.push(new[((idx * 12 + j) % new.len() as u64) as usize]);
        }
    }
    old
}

// ------------------------------------------------------------------ small helpers

fn fb(f: f32) -> u32 {
    f.to_bits()
}
fn v3b(v: &Vec3) -> [u32; 3] {
    [fb(v.x), fb(v.y), fb(v.z)]
}
fn a3b(v: &[f32; 3]) -> [u32; 3] {
    [fb(v[0]), fb(v[1]), fb(v[2])]
}
fn colb(c: &Color) -> [u8; 4] {
    [c.r, c.g, c.b, c.a]
}
fn bbb(b: &BoundingBox) -> [u32; 6] {
    [fb(b.min.x), fb(b.min.y), fb(b.min.z), fb(b.max.x), fb(b.max.y), fb(b.max.z)]
}
fn mkv3(a: [f32; 3]) -> Vec3 {
    let mut v = Vec3::default();
    v.x = a[0];
    v.y = a[1];
    v.z = a[2];
    v
}
fn mkcol(a: [u8; 4]) -> Color {
    let mut c = Color::default();
    c.r = a[0];
    c.g = a[1];
    c.b = a[2];
    c.a = a[3];
    c
}
fn mkbb(proto: &BoundingBox, a: [f32; 6]) -> BoundingBox {
    let mut b = *proto;
    b.min = mkv3([a[0], a[1], a[2]]);
    b.max = mkv3([a[3], a[4], a[5]]);
    b
}
fn u16at(d: &[u8], o: usize) -> u16 {
    u16::from_le_bytes([d[o], d[o + 1]])
}
fn i16at(d: &[u8], o: usize) -> i16 {
    i16::from_le_bytes([d[o], d[o + 1]])
}
fn u32at(d: &[u8], o: usize) -> u32 {
    u32::from_le_bytes([d[o], d[o + 1], d[o + 2], d[o + 3]])
}
fn cstr_at(d: &[u8], o: usize) -> Option<String> {
    if o >= d.len() {
        return None;
    }
    let end = d[o..].iter().position(|&b| b == 0).map(|p| o + p).unwrap_or(d.len());
    Some(String::from_utf8_lossy(&d[o..end]).into_owned())
}
/// Short rendering of a (long) projection string for witnesses.
fn clip(s: &str) -> String {
    if s.len() <= 240 { s.to_string() } else { format!("{}…[{} chars]", &s[..240], s.len()) }
}
fn diff_detail(want: &str, got: &str) -> Value {
    let p = want.bytes().zip(got.bytes()).position(|(a, b)| a != b).unwrap_or(want.len().min(got.len()));
    let lo = p.saturating_sub(40);
    let w: String = want.chars().skip(lo).take(160).collect();
    let g: String = got.chars().skip(lo).take(160).collect();
    json!({"first_diff_at": p, "want": w, "got": g, "want_len": want.len(), "got_len": got.len()})
}

/// Any f32 bit pattern class, including NaN payloads (compared bitwise everywhere).
fn fany(r: &mut Rng) -> f32 {
    match r.below(12) {
        0 => f32::from_bits(0x7FC0_0001 | (r.next_u32() & 0x003F_FFFF)),
        1 => f32::from_bits(0xFF80_0001 | (r.next_u32() & 0x003F_FFFE)),
        _ => r.f32_any(),
    }
}
/// Finite, non-zero, "ordinary" float (used where min/max folding must be unambiguous).
fn fnice(r: &mut Rng) -> f32 {
    let m = (r.below(200_000) as i64 - 100_000) as f32 / 8.0;
    if m == 0.0 { 0.125 } else { m }
}
fn v3any(r: &mut Rng) -> [f32; 3] {
    [fany(r), fany(r), fany(r)]
}
fn col_any(r: &mut Rng) -> [u8; 4] {
    let b = r.next_u32().to_le_bytes();
    [b[0], b[1], b[2], b[3]]
}

// ------------------------------------------------------------------ independent encoder (seed) and chunk walker

fn put_chunk(out: &mut Vec<u8>, magic: &[u8; 4], data: &[u8]) {
    out.extend(magic.iter().rev());
    out.extend((data.len() as u32).to_le_bytes());
    out.extend_from_slice(data);
}
fn pf(out: &mut Vec<u8>, f: f32) {
    out.extend(f.to_le_bytes());
}
fn pu(out: &mut Vec<u8>, u: u32) {
    out.extend(u.to_le_bytes());
}

/// A format-conformant version-17 root with exactly one element in every list (written from the format
/// description: 64-byte MOHD, 64-byte MOMT records, 32-byte MOGI, 20-byte MOPT, 8-byte MOPR, 48-byte MOLT,
/// 32-byte MODS, 40-byte MODD).
fn seed_root() -> Vec<u8> {
    let mut o = Vec::new();
    put_chunk(&mut o, b"MVER", &17u32.to_le_bytes());
    let mut h = Vec::new();
    for _ in 0..7 {
        pu(&mut h, 1);
    }
    h.extend([0x10, 0x20, 0x30, 0xFF]); // ambient BGRA
    pu(&mut h, 0); // wmo id
    for f in [-1.0f32, -2.0, -3.0, 4.0, 5.0, 6.0] {
        pf(&mut h, f);
    }
    h.extend([0u8; 4]); // flags u16, numLod u16
    put_chunk(&mut o, b"MOHD", &h);
    put_chunk(&mut o, b"MOTX", b"seed.blp\0");
    let mut m = vec![0u8; 64];
    m[0] = 1;
    put_chunk(&mut o, b"MOMT", &m);
    put_chunk(&mut o, b"MOGN", b"seedgroup\0");
    let mut g = Vec::new();
    pu(&mut g, 1);
    for f in [-1.0f32, -2.0, -3.0, 4.0, 5.0, 6.0] {
        pf(&mut g, f);
    }
    pu(&mut g, 0);
    put_chunk(&mut o, b"MOGI", &g);
    let mut pv = Vec::new();
    for f in [0.0f32, 0.0, 0.0, 1.0, 0.0, 0.0, 0.0, 1.0, 0.0] {
        pf(&mut pv, f);
    }
    put_chunk(&mut o, b"MOPV", &pv);
    let mut pt = Vec::new();
    pt.extend(0u16.to_le_bytes());
    pt.extend(3u16.to_le_bytes());
    for f in [0.0f32, 0.0, 1.0, 0.0] {
        pf(&mut pt, f);
    }
    put_chunk(&mut o, b"MOPT", &pt);
    put_chunk(&mut o, b"MOPR", &[0, 0, 0, 0, 1, 0, 0, 0]);
    let mut l = vec![0u8; 48];
    l[4..8].copy_from_slice(&[1, 2, 3, 4]);
    put_chunk(&mut o, b"MOLT", &l);
    let mut s = vec![0u8; 32];
    s[..4].copy_from_slice(b"Set0");
    s[24] = 1;
    put_chunk(&mut o, b"MODS", &s);
    put_chunk(&mut o, b"MODN", b"seed.m2\0");
    let mut d = vec![0u8; 40];
    d[32..36].copy_from_slice(&1.0f32.to_le_bytes());
    put_chunk(&mut o, b"MODD", &d);
    o
}

#[derive(Clone, Debug)]
struct Ck {
    id: String,
    lo: usize, // data start
    hi: usize, // data end
}

const ROOT_MAGICS: &[&str] = &[
    "MVER", "MOHD", "MOTX", "MOMT", "MOGN", "MOGI", "MOSB", "MOPV", "MOPT", "MOPR", "MOVV", "MOVB", "MOLT", "MODS", "MODN", "MODD", "MFOG",
    "MCVP",
];
const GROUP_SUB: &[&str] = &[
    "MOPY", "MOVI", "MOVT", "MONR", "MOTV", "MOBA", "MOLR", "MODR", "MOBN", "MOBR", "MOCV", "MLIQ", "MORI", "MORB", "MOTA", "MOBS",
];

/// Walk chunks in buf[start..end]: 4-byte magic (reversed on disk), u32 LE size, data.  Returns the chunks
/// that framed correctly and, if the walk did not tile the range exactly, (id of the last good chunk, reason).
fn walk(buf: &[u8], start: usize, end: usize, known: &[&str]) -> (Vec<Ck>, Option<(String, String)>) {
    let mut v: Vec<Ck> = Vec::new();
    let mut pos = start;
    while pos < end {
        let last = v.last().map(|c| c.id.clone()).unwrap_or_else(|| "start".into());
        if end - pos < 8 {
            return (v, Some((last, format!("{} stray bytes", end - pos))));
        }
        let mut m = [buf[pos + 3], buf[pos + 2], buf[pos + 1], buf[pos]];
        for b in m.iter_mut() {
            if !b.is_ascii_graphic() {
                *b = b'?';
            }
        }
        let id = String::from_utf8_lossy(&m).into_owned();
        let size = u32at(buf, pos + 4) as usize;
        if !known.contains(&id.as_str()) {
            return (v, Some((last, "unknown magic".into())));
        }
        if pos + 8 + size > end {
            return (v, Some((last, format!("chunk {id} overruns its container"))));
        }
        v.push(Ck { id, lo: pos + 8, hi: pos + 8 + size });
        pos += 8 + size;
    }
    (v, None)
}
fn find<'a>(cks: &'a [Ck], id: &str) -> Option<&'a Ck> {
    cks.iter().find(|c| c.id == id)
}
fn data<'a>(buf: &'a [u8], cks: &[Ck], id: &str) -> &'a [u8] {
    match find(cks, id) {
        Some(c) => &buf[c.lo..c.hi],
        None => &[],
    }
}

// ------------------------------------------------------------------ per-case aggregation of failures over versions

#[derive(Default)]
struct Slot {
    checked: BTreeSet<usize>,
    failed: BTreeSet<usize>,
    what: String,
    detail: Value,
}
#[derive(Default)]
struct Agg {
    m: BTreeMap<(String, String, String), Slot>,
}
impl Agg {
    fn check(&mut self, clause: &str, item: &str, pred: &str, vi: usize, ok: bool, what: impl FnOnce() -> (String, Value)) {
        let s = self.m.entry((clause.into(), item.into(), pred.into())).or_default();
        s.checked.insert(vi);
        if !ok {
            if s.failed.is_empty() {
                let (w, d) = what();
                s.what = w;
                s.detail = d;
            }
            s.failed.insert(vi);
        }
    }
    fn cmp(&mut self, c: &mut Case, clause: &str, item: &str, pred: &str, vi: usize, want: &str, got: &str) {
        c.count("items_compared", 1);
        self.check(clause, item, pred, vi, want == got, || {
            (format!("{clause}: {item} differs ({}): want {} got {}", VERS[vi].1, clip(want), clip(got)), diff_detail(want, got))
        });
    }
    fn flush(self, c: &mut Case) {
        for ((clause, item, pred), s) in self.m {
            if s.failed.is_empty() {
                continue;
            }
            // version set: `all`, or the names of the failing versions; the versions from Wod on that failed are rendered as
            // `v18+` when they are all of the checked ones from Wod on
            let vset = if s.failed == s.checked {
                "all".to_string()
            } else {
                let mut parts: Vec<&str> = s.failed.iter().filter(|&&i| i < WOD).map(|&i| VERS[i].1).collect();
                let newf: Vec<usize> = s.failed.iter().copied().filter(|&i| i >= WOD).collect();
                let newc: Vec<usize> = s.checked.iter().copied().filter(|&i| i >= WOD).collect();
                if !newf.is_empty() && newf == newc {
                    parts.push("v18+");
                } else {
                    parts.extend(newf.iter().map(|&i| VERS[i].1));
                }
                parts.join("+")
            };
            let vers: Vec<&str> = s.failed.iter().map(|&i| VERS[i].1).collect();
            let checked: Vec<&str> = s.checked.iter().map(|&i| VERS[i].1).collect();
            c.violate(format!("{clause}|{item}|{pred}|{vset}"), s.what, json!({"failed_versions": vers, "checked_versions": checked, "first": s.detail}));
        }
    }
}

/// Call into the library: Ok(Ok(x)) value, Ok(Err(msg)) library error, Err(panic).
fn lib<T, E: std::fmt::Display>(f: impl FnOnce() -> Result<T, E>) -> Result<Result<T, String>, PanicInfo> {
    // error text: ANSI escapes and binrw's decorative backtrace banner removed, one line
    trap(|| {
        f().map_err(|e| {
            let t = e.to_string();
            let mut out = String::new();
            let mut esc = false;
            for ch in t.chars() {
                if esc {
                    if ch.is_ascii_alphabetic() {
                        esc = false;
                    }
                } else if ch == '\u{1b}' {
                    esc = true;
                } else if ch.is_ascii() && !ch.is_ascii_control() {
                    out.push(ch);
                } else if !out.ends_with(' ') {
                    out.push(' ');
                }
            }
            out.split_whitespace().collect::<Vec<_>>().join(" ").chars().take(300).collect()
        })
    })
}

// ------------------------------------------------------------------ root: generator spec (plain data)

struct MatS {
    flags: u32,
    shader: u32,
    blend: u32,
    tex1: u32,
    tex2: u32,
    em: [u8; 4],
    sidn: [u8; 4],
    fbb: [u8; 4],
    diff: [u8; 4],
    ground: u32,
    want1: Option<String>, // string the texture1 offset is meant to resolve to
    want2: Option<String>,
}
struct GrpS {
    flags: u32,
    bb: [f32; 6],
    name: String,
}
struct PortS {
    verts: Vec<[f32; 3]>,
    normal: [f32; 3],
}
struct LightS {
    ty: u8,
    pos: [f32; 3],
    col: [u8; 4],
    intensity: f32,
    rot: [f32; 4],
    a0: f32,
    a1: f32,
    use_att: bool,
}
struct DdefS {
    off: u32,
    pos: [f32; 3],
    ori: [f32; 4],
    scale: f32,
    col: [u8; 4],
    set_index: u16,
}
struct DsetS {
    name: String,
    start: u32,
    n: u32,
}
struct RootSpec {
    textures: Vec<String>,
    materials: Vec<MatS>,
    groups: Vec<GrpS>,
    portals: Vec<PortS>,
    prefs: Vec<[u16; 3]>,
    vis: Vec<Vec<u16>>,
    lights: Vec<LightS>,
    ddefs: Vec<DdefS>,
    dsets: Vec<DsetS>,
    skybox: Option<String>,
    flags: u32, // without HAS_SKYBOX
    ambient: [u8; 4],
    bbox: [f32; 6],
    // trigger predicates (evaluated on the spec)
    names_differ: bool,
    bbox_free: bool,
    doodad_free: bool,
    pattern: String,
}

fn n_of(e: u64, r: &mut Rng, many_max: u64) -> usize {
    match e {
        0 => 0,
        1 => 1,
        _ => (2 + r.below(many_max - 1)) as usize,
    }
}

/// Names with shared prefixes and suffix relations (offset-table aliasing): for a base b the pool holds
/// b, b+"01", b+"01_s", "x"+b (so b is a suffix of it) and a proper prefix of b.
fn name_pool(r: &mut Rng, ext: &str) -> Vec<String> {
    let mut pool = Vec::new();
    let nb = 1 + r.below(3);
    for _ in 0..nb {
        let len = 1 + r.usize(10);
        let dirs = ["", "tex\\", "World\\wmo\\Azeroth\\", "a\\b\\"];
        let mut b = String::from(*r.pick(&dirs));
        for _ in 0..len {
            b.push((b'a' + r.below(26) as u8) as char);
        }
        pool.push(format!("{b}{ext}"));
        pool.push(format!("{b}01{ext}"));
        pool.push(format!("{b}01_s{ext}"));
        pool.push(format!("x{b}{ext}"));
        pool.push(format!("{}{ext}", &b[..b.len().div_ceil(2)]));
        pool.push(b.clone()); // no extension: prefix of all of the above except the x-variant
    }
    pool.push("a".into());
    pool.push("ba".into());
    r.shuffle(&mut pool);
    pool
}
fn tex_offsets(t: &[String]) -> Vec<u32> {
    let mut o = Vec::new();
    let mut p = 0u32;
    for s in t {
        o.push(p);
        p += s.len() as u32 + 1;
    }
    o
}
/// The offsets at which the writer's synthesised doodad names ("doodad_<offset>") would put a list of
/// definitions that already carries exactly these offsets, i.e. the fixed point of the writer's renaming.
fn canonical_doodad_offsets(n: usize) -> Vec<u32> {
    let mut v = Vec::new();
    let mut p = 0u32;
    for _ in 0..n {
        v.push(p);
        p += format!("doodad_{p}").len() as u32 + 1;
    }
    v
}
fn union_bb(groups: &[GrpS]) -> [f32; 6] {
    if groups.is_empty() {
        return [0.0; 6];
    }
    let mut b = [f32::MAX, f32::MAX, f32::MAX, f32::MIN, f32::MIN, f32::MIN];
    for g in groups {
        for k in 0..3 {
            b[k] = b[k].min(g.bb[k]);
            b[k + 3] = b[k + 3].max(g.bb[k + 3]);
        }
    }
    b
}

/// Pattern letter of a list whose length is forced to a boundary size (see `BIG_SIZES`).
fn big_tag(n: usize) -> String {
    match n {
        4096 => "H4096".into(),
        4097 => "H4097".into(),
        _ => "H>4097".into(),
    }
}

/// `force` = (list number in the order of `names`, exact length): boundary-size cases beyond the "many" class.
fn gen_root(r: &mut Rng, idx: u64, many_max: u64, force: Option<(usize, usize)>) -> RootSpec {
    // emptiness pattern: 0 / 1 / many per list; the first three cases are the uniform patterns
    let mut e = [0u64; 9];
    for x in e.iter_mut() {
        *x = match idx {
            0 => 0,
            1 => 1,
            2 => 2,
            _ => r.below(3),
        };
    }
    let sky = match idx {
        0 => false,
        1 | 2 => true,
        _ => r.bool(),
    };
    let names = ["tex", "mat", "grp", "por", "prf", "vis", "lit", "ddf", "dst"];
    let mut pattern: String = names
        .iter()
        .zip(e.iter())
        .enumerate()
        .map(|(k, (n, x))| match force {
            Some((fk, fnum)) if fk == k => format!("{n}{}", big_tag(fnum)),
            _ => format!("{n}{}", ["0", "1", "m"][*x as usize]),
        })
        .collect::<Vec<_>>()
        .join(":");
    pattern.push_str(if sky { ":sky1" } else { ":sky0" });
    let n_of = |k: usize, r: &mut Rng| -> usize {
        match force {
            Some((fk, fnum)) if fk == k => fnum,
            _ => n_of(e[k], r, many_max),
        }
    };

    let tpool = name_pool(r, ".blp");
    let nt = n_of(0, r);
    let textures: Vec<String> = (0..nt).map(|i| tpool[i % tpool.len()].clone()).collect();
    let toff = tex_offsets(&textures);
    let mut materials = Vec::new();
    for _ in 0..n_of(1, r) {
        let pick = |r: &mut Rng, alias: bool| -> (u32, Option<String>) {
            if textures.is_empty() {
                return (0, None);
            }
            let i = r.usize(textures.len());
            if alias && textures[i].len() > 1 {
                let k = 1 + r.usize(textures[i].len() - 1);
                (toff[i] + k as u32, Some(textures[i][k..].to_string()))
            } else {
                (toff[i], Some(textures[i].clone()))
            }
        };
        let (tex1, want1) = pick(r, false);
        let al = r.chance(1, 3);
        let (tex2, want2) = pick(r, al);
        materials.push(MatS {
            flags: r.next_u32() & 0xFFF,
            shader: r.next_u32(),
            blend: r.next_u32(),
            tex1,
            tex2,
            em: col_any(r),
            sidn: col_any(r),
            fbb: col_any(r),
            diff: col_any(r),
            ground: r.next_u32(),
            want1,
            want2,
        });
    }
    let mut gpool = name_pool(r, "");
    // group names are free text: some are not ASCII (accented Latin, Cyrillic, CJK)
    if r.chance(1, 3) {
        let extra = ["Gew\u{f6}lbe", "\u{417}\u{430}\u{43b}", "\u{5927}\u{5385}_01", "Ch\u{e2}teau d'\u{ee}le"];
        let k = r.usize(extra.len());
        gpool.insert(0, extra[k].to_string());
        gpool.insert(1, format!("{}_b", extra[(k + 1) % extra.len()]));
    }
    let ng = n_of(2, r);
    let same = ng > 1 && r.chance(1, 4);
    let groups: Vec<GrpS> = (0..ng)
        .map(|i| {
            let lo = [fnice(r), fnice(r), fnice(r)];
            GrpS {
                flags: r.next_u32() & 0x3FFFF,
                bb: [lo[0], lo[1], lo[2], lo[0] + 1.0 + r.below(500) as f32, lo[1] + 1.0 + r.below(500) as f32, lo[2] + 1.0 + r.below(500) as f32],
                name: if same { gpool[0].clone() } else { gpool[i % gpool.len()].clone() },
            }
        })
        .collect();
    let names_differ = groups.iter().any(|g| g.name != groups[0].name);
    let portals: Vec<PortS> = (0..n_of(3, r))
        .map(|_| {
            let nv = r.usize(6);
            PortS { verts: (0..nv).map(|_| v3any(r)).collect(), normal: v3any(r) }
        })
        .collect();
    let prefs: Vec<[u16; 3]> = (0..n_of(4, r)).map(|_| [r.next_u32() as u16, r.next_u32() as u16, r.next_u32() as u16]).collect();
    let vis: Vec<Vec<u16>> = (0..n_of(5, r))
        .map(|_| {
            let k = r.usize(5);
            (0..k).map(|_| (r.next_u32() as u16).min(0xFFFE)).collect()
        })
        .collect();
    let lights: Vec<LightS> = (0..n_of(6, r))
        .map(|_| LightS {
            ty: r.below(4) as u8,
            pos: v3any(r),
            col: col_any(r),
            intensity: fany(r),
            rot: [fany(r), fany(r), fany(r), fany(r)],
            a0: fany(r),
            a1: fany(r),
            use_att: r.bool(),
        })
        .collect();
    let nd = n_of(7, r);
    let canon = canonical_doodad_offsets(nd);
    let want_free = r.bool();
    let ddefs: Vec<DdefS> = (0..nd)
        .map(|i| DdefS {
            off: if want_free { 1 + (r.next_u32() & 0x00FF_FFFE) } else { canon[i] },
            pos: v3any(r),
            ori: [fany(r), fany(r), fany(r), fany(r)],
            scale: fany(r),
            col: col_any(r),
            set_index: r.next_u32() as u16,
        })
        .collect();
    let doodad_free = ddefs.iter().zip(canon.iter()).any(|(d, c)| d.off != *c);
    let spool = name_pool(r, "");
    let dsets: Vec<DsetS> = (0..n_of(8, r))
        .map(|i| {
            let mut n: String = spool[i % spool.len()].replace('\\', "_");
            n.truncate(19);
            DsetS { name: n, start: r.next_u32(), n: r.next_u32() }
        })
        .collect();
    let skybox = if sky { Some(format!("{}.mdx", name_pool(r, "")[0])) } else { None };
    let ub = union_bb(&groups);
    let want_bbfree = r.chance(1, 3);
    let bbox = if want_bbfree { [ub[0] - 1.5, ub[1], ub[2] - 0.25, ub[3], ub[4] + 7.0, ub[5]] } else { ub };
    let bbox_free = (0..6).any(|k| fb(bbox[k]) != fb(ub[k]));
    RootSpec {
        textures,
        materials,
        groups,
        portals,
        prefs,
        vis,
        lights,
        ddefs,
        dsets,
        skybox,
        flags: r.next_u32() & 0x3FF & !0x20,
        ambient: col_any(r),
        bbox,
        names_differ,
        bbox_free,
        doodad_free,
        pattern,
    }
}

/// Lists in case descriptions: in full up to 64 elements, otherwise the first 12 and the length.
fn cap<T: Into<Value>>(v: Vec<T>) -> Value {
    let n = v.len();
    if n <= 64 { Value::Array(v.into_iter().map(Into::into).collect()) } else { json!({"first": v.into_iter().take(12).map(Into::into).collect::<Vec<Value>>(), "len": n}) }
}

fn root_desc(s: &RootSpec) -> Value {
    json!({"kind": "root", "pattern": s.pattern, "textures": cap(s.textures.clone()), "group_names": cap(s.groups.iter().map(|g| g.name.clone()).collect::<Vec<_>>()),
        "materials": s.materials.len(), "material_tex_offsets": cap(s.materials.iter().map(|m| json!([m.tex1, m.tex2])).collect::<Vec<_>>()),
        "portals": cap(s.portals.iter().map(|p| p.verts.len()).collect::<Vec<_>>()), "portal_refs": s.prefs.len(), "visible_lists": cap(s.vis.iter().map(|l| l.len()).collect::<Vec<_>>()),
        "lights": s.lights.len(), "doodad_name_offsets": cap(s.ddefs.iter().map(|d| d.off).collect::<Vec<_>>()), "doodad_sets": cap(s.dsets.iter().map(|d| d.name.clone()).collect::<Vec<_>>()),
        "skybox": s.skybox, "predicates": {"names_differ": s.names_differ, "bbox_free": s.bbox_free, "doodad_offsets_free": s.doodad_free}})
}

/// Build the library object for `spec` as a root of version VERS[vi] (seed parse + field assignment).
/// `valid_for_version`: drop what the library's feature model says the version cannot carry (used for conversions).
fn build_root(seed: &[u8], s: &RootSpec, vi: usize, valid_for_version: bool) -> Result<WmoRoot, String> {
    let mut r = WmoParser::new().parse_root(&mut Cursor::new(seed)).map_err(|e| format!("seed parse: {e}"))?;
    if r.materials.len() != 1 || r.groups.len() != 1 || r.portals.len() != 1 || r.portal_references.len() != 1 || r.lights.len() != 1 || r.doodad_defs.len() != 1 || r.doodad_sets.len() != 1 {
        return Err(format!(
            "seed parse: expected one element per list, got materials {} groups {} portals {} refs {} lights {} defs {} sets {}",
            r.materials.len(), r.groups.len(), r.portals.len(), r.portal_references.len(), r.lights.len(), r.doodad_defs.len(), r.doodad_sets.len()
        ));
    }
    let (pm, pg, pp, pr, pl, pd, ps) = (r.materials[0].clone(), r.groups[0].clone(), r.portals[0].clone(), r.portal_references[0].clone(), r.lights[0].clone(), r.doodad_defs[0].clone(), r.doodad_sets[0].clone());
    r.version = VERS[vi].0;
    r.textures = s.textures.clone();
    r.texture_offset_index_map = tex_offsets(&s.textures).into_iter().enumerate().map(|(i, o)| (o, i as u32)).collect::<HashMap<u32, u32>>();
    let shadow = (WmoMaterialFlags::SHADOW_BATCH_1 | WmoMaterialFlags::SHADOW_BATCH_2).bits();
    r.materials = s
        .materials
        .iter()
        .map(|x| {
            let mut m = pm.clone();
            let f = if valid_for_version && vi < MOP { x.flags & !shadow } else { x.flags };
            m.flags = WmoMaterialFlags::from_bits_truncate(f);
            m.shader = x.shader;
            m.blend_mode = x.blend;
            m.texture1 = x.tex1;
            m.emissive_color = mkcol(x.em);
            m.sidn_color = mkcol(x.sidn);
            m.framebuffer_blend = mkcol(x.fbb);
            m.texture2 = x.tex2;
            m.diffuse_color = mkcol(x.diff);
            m.ground_type = x.ground;
            m
        })
        .collect();
    r.groups = s
        .groups
        .iter()
        .map(|x| {
            let mut g = pg.clone();
            g.flags = WmoGroupFlags::from_bits_truncate(x.flags);
            g.bounding_box = mkbb(&pg.bounding_box, x.bb);
            g.name = x.name.clone();
            g
        })
        .collect();
    r.portals = s
        .portals
        .iter()
        .map(|x| {
            let mut p = pp.clone();
            p.vertices = x.verts.iter().map(|v| mkv3(*v)).collect();
            p.normal = mkv3(x.normal);
            p
        })
        .collect();
    r.portal_references = s
        .prefs
        .iter()
        .map(|x| {
            let mut p = pr.clone();
            p.portal_index = x[0];
            p.group_index = x[1];
            p.side = x[2];
            p
        })
        .collect();
    r.visible_block_lists = s.vis.clone();
    r.lights = s
        .lights
        .iter()
        .map(|x| {
            let mut l = pl.clone();
            l.light_type = WmoLightType::from_raw(x.ty).unwrap_or(pl.light_type);
            l.position = mkv3(x.pos);
            l.color = mkcol(x.col);
            l.intensity = x.intensity;
            l.rotation = x.rot;
            l.attenuation_start = x.a0;
            l.attenuation_end = x.a1;
            l.use_attenuation = x.use_att;
            l
        })
        .collect();
    r.doodad_defs = s
        .ddefs
        .iter()
        .map(|x| {
            let mut d = pd.clone();
            d.name_offset = x.off;
            d.position = mkv3(x.pos);
            d.orientation = x.ori;
            d.scale = x.scale;
            d.color = mkcol(x.col);
            d.set_index = x.set_index;
            d
        })
        .collect();
    r.doodad_sets = s
        .dsets
        .iter()
        .map(|x| {
            let mut d = ps.clone();
            d.name = x.name.clone();
            d.start_doodad = x.start;
            d.n_doodads = x.n;
            d
        })
        .collect();
    r.skybox = if valid_for_version && vi < WOTLK { None } else { s.skybox.clone() };
    let mut fl = WmoFlags::from_bits_truncate(s.flags);
    if valid_for_version && r.skybox.is_some() {
        fl |= WmoFlags::HAS_SKYBOX;
    }
    r.header.flags = fl;
    r.header.ambient_color = mkcol(s.ambient);
    r.header.n_materials = r.materials.len() as u32;
    r.header.n_groups = r.groups.len() as u32;
    r.header.n_portals = r.portals.len() as u32;
    r.header.n_lights = r.lights.len() as u32;
    r.header.n_doodad_names = r.doodad_defs.len() as u32;
    r.header.n_doodad_defs = r.doodad_defs.len() as u32;
    r.header.n_doodad_sets = r.doodad_sets.len() as u32;
    r.bounding_box = mkbb(&pg.bounding_box, s.bbox);
    r.convex_volume_planes = None;
    // spare capacity everywhere: a count taken from capacity() instead of len() must show
    r.textures.reserve(5);
    r.materials.reserve(5);
    r.groups.reserve(5);
    r.portals.reserve(5);
    r.portal_references.reserve(5);
    r.visible_block_lists.reserve(5);
    r.lights.reserve(5);
    r.doodad_defs.reserve(5);
    r.doodad_sets.reserve(5);
    for p in r.portals.iter_mut() {
        p.vertices.reserve(3);
    }
    for l in r.visible_block_lists.iter_mut() {
        l.reserve(3);
    }
    Ok(r)
}

type Proj = BTreeMap<&'static str, String>;

/// Content projection of a legacy WmoRoot (model and WmoParser result have the same type).
/// Excluded (see lib/props/c15.py EXCLUSIONS): version, texture_offset_index_map (checked separately),
/// materials.framebuffer_blend, lights.properties, doodad_defs.set_index, convex_volume_planes.
fn proj_root(r: &WmoRoot) -> Proj {
    let mut m = Proj::new();
    m.insert("textures", format!("{:?}", r.textures));
    m.insert(
        "materials",
        format!("{:?}", r.materials.iter().map(|x| (x.flags.bits(), x.shader, x.blend_mode, x.texture1, colb(&x.emissive_color), colb(&x.sidn_color), x.texture2, colb(&x.diffuse_color), x.ground_type)).collect::<Vec<_>>()),
    );
    m.insert("groups", format!("{:?}", r.groups.iter().map(|g| (g.flags.bits(), bbb(&g.bounding_box))).collect::<Vec<_>>()));
    m.insert("groups.name", format!("{:?}", r.groups.iter().map(|g| g.name.clone()).collect::<Vec<_>>()));
    m.insert("portals", format!("{:?}", r.portals.iter().map(|p| (p.vertices.iter().map(v3b).collect::<Vec<_>>(), v3b(&p.normal))).collect::<Vec<_>>()));
    m.insert("portal_references", format!("{:?}", r.portal_references.iter().map(|p| (p.portal_index, p.group_index, p.side)).collect::<Vec<_>>()));
    m.insert("visible_block_lists", format!("{:?}", r.visible_block_lists));
    m.insert(
        "lights",
        format!(
            "{:?}",
            r.lights.iter().map(|l| (l.light_type as u8, v3b(&l.position), colb(&l.color), fb(l.intensity), l.rotation.map(fb), fb(l.attenuation_start), fb(l.attenuation_end), l.use_attenuation)).collect::<Vec<_>>()
        ),
    );
    m.insert("doodad_defs", format!("{:?}", r.doodad_defs.iter().map(|d| (v3b(&d.position), d.orientation.map(fb), fb(d.scale), colb(&d.color))).collect::<Vec<_>>()));
    m.insert("doodad_defs.name_offset", format!("{:?}", r.doodad_defs.iter().map(|d| d.name_offset).collect::<Vec<_>>()));
    m.insert("doodad_sets", format!("{:?}", r.doodad_sets.iter().map(|d| (d.name.clone(), d.start_doodad, d.n_doodads)).collect::<Vec<_>>()));
    m.insert("skybox", format!("{:?}", r.skybox));
    m.insert("header.flags", format!("{:#x}", r.header.flags.bits()));
    m.insert("header.ambient_color", format!("{:?}", colb(&r.header.ambient_color)));
    m.insert("header.counts", format!("{:?}", [r.header.n_materials, r.header.n_groups, r.header.n_portals, r.header.n_lights, r.header.n_doodad_names, r.header.n_doodad_defs, r.header.n_doodad_sets]));
    m.insert("bounding_box", format!("{:?}", bbb(&r.bounding_box)));
    m
}

/// The same content as seen through `parse_wmo` (root_parser::WmoRoot), rendered in the shapes of `proj_root`.
fn proj_root_api(a: &wow_wmo::root_parser::WmoRoot) -> Proj {
    let mut m = Proj::new();
    m.insert("textures", format!("{:?}", a.textures));
    m.insert(
        "materials",
        format!("{:?}", a.materials.iter().map(|x| (x.flags, x.shader, x.blend_mode, x.texture_1, x.emissive_color, x.frame_emissive_color, x.texture_2, x.diff_color, x.ground_type)).collect::<Vec<_>>()),
    );
    m.insert("groups", format!("{:?}", a.group_info.iter().map(|g| (g.flags, [g.bounding_box_min.map(fb), g.bounding_box_max.map(fb)].concat())).collect::<Vec<_>>()));
    m.insert("groups.name", format!("{:?}", a.group_names));
    let pv = &a.portal_vertices;
    m.insert(
        "portals",
        format!(
            "{:?}",
            a.portals
                .iter()
                .map(|p| {
                    let s = p.start_vertex as usize;
                    let vs: Vec<[u32; 3]> = (s..s + p.n_vertices as usize).filter_map(|i| pv.get(i)).map(|v| [fb(v.x), fb(v.y), fb(v.z)]).collect();
                    (vs, [fb(p.normal.x), fb(p.normal.y), fb(p.normal.z)])
                })
                .collect::<Vec<_>>()
        ),
    );
    m.insert("portal_references", format!("{:?}", a.portal_refs.iter().map(|p| (p.portal_index, p.group_index, p.side as u16)).collect::<Vec<_>>()));
    m.insert(
        "lights",
        format!(
            "{:?}",
            a.lights
                .iter()
                .map(|l| (l.light_type, a3b(&l.position), [l.color[2], l.color[1], l.color[0], l.color[3]], fb(l.intensity), l.rotation.map(fb), fb(l.attenuation_start), fb(l.attenuation_end), l.use_attenuation != 0))
                .collect::<Vec<_>>()
        ),
    );
    m.insert("doodad_defs", format!("{:?}", a.doodad_defs.iter().map(|d| (a3b(&d.position), d.orientation.map(fb), fb(d.scale), [d.color[2], d.color[1], d.color[0], d.color[3]])).collect::<Vec<_>>()));
    m.insert("doodad_defs.name_offset", format!("{:?}", a.doodad_defs.iter().map(|d| d.name_index()).collect::<Vec<_>>()));
    m.insert(
        "doodad_sets",
        format!(
            "{:?}",
            a.doodad_sets
                .iter()
                .map(|d| {
                    let e = d.name.iter().position(|&b| b == 0).unwrap_or(20);
                    (String::from_utf8_lossy(&d.name[..e]).into_owned(), d.start_index, d.count)
                })
                .collect::<Vec<_>>()
        ),
    );
    m.insert("skybox", format!("{:?}", a.skybox));
    m.insert("header.flags", format!("{:#x}", a.flags));
    m.insert("header.ambient_color", format!("{:?}", [a.ambient_color[2], a.ambient_color[1], a.ambient_color[0], a.ambient_color[3]]));
    m.insert("header.counts", format!("{:?}", [a.n_materials, a.n_groups, a.n_portals, a.n_lights, a.n_doodad_names, a.n_doodad_defs, a.n_doodad_sets]));
    m.insert("bounding_box", format!("{:?}", [a.bounding_box_min.map(fb), a.bounding_box_max.map(fb)].concat()));
    m
}

// ------------------------------------------------------------------ root: checks

fn skybox_pred(s: &RootSpec, vi: usize) -> &'static str {
    if s.skybox.is_none() {
        "skybox-none"
    } else if vi >= WOTLK {
        "skybox-set"
    } else {
        "skybox-set-version-without-skybox"
    }
}
/// Trigger predicate attached to an item of the root projection (partitions the known findings).
fn root_item_pred(s: &RootSpec, item: &str, vi: usize, npred: &'static str) -> &'static str {
    match item {
        "groups.name" => npred,
        "bounding_box" => if s.bbox_free { "bbox-free" } else { "bbox-is-group-union" },
        "doodad_defs.name_offset" => if s.doodad_free { "doodad-offsets-free" } else { "doodad-offsets-canonical" },
        "skybox" => skybox_pred(s, vi),
        _ => "-",
    }
}
/// What the model object is expected to read back as, for target version vi.
fn expected_root(model: &WmoRoot, s: &RootSpec, vi: usize) -> Proj {
    let mut want = proj_root(model);
    let sky_written = vi >= WOTLK && s.skybox.is_some();
    want.insert("skybox", format!("{:?}", if sky_written { s.skybox.clone() } else { None }));
    want.insert("header.flags", format!("{:#x}", s.flags | if sky_written { 0x20 } else { 0 }));
    want
}

fn mohd_field(off: usize, len: usize) -> &'static str {
    // 64 bytes: the format's SMOHeader; 60 bytes: the layout the writer emits today (flags in the wmoID slot)
    match (off, len) {
        (0..=27, _) => "MOHD.counts",
        (28..=31, _) => "MOHD.ambient",
        (32..=35, 64) => "MOHD.wmo_id",
        (32..=35, _) => "MOHD.flags",
        (36..=59, _) => "MOHD.bbox",
        (60..=61, 64) => "MOHD.flags",
        (62..=63, 64) => "MOHD.num_lod",
        _ => "MOHD.tail",
    }
}

/// Chunk-wise comparison of two writes; reports every chunk (MOHD: every field group) that differs.
fn rewrite_diff(b1: &[u8], b2: &[u8], known: &[&str]) -> Vec<String> {
    let (c1, e1) = walk(b1, 0, b1.len(), known);
    let (c2, e2) = walk(b2, 0, b2.len(), known);
    let mut out = BTreeSet::new();
    if e1.is_some() || e2.is_some() {
        out.insert("framing".to_string());
    }
    let ids: BTreeSet<String> = c1.iter().chain(c2.iter()).map(|c| c.id.clone()).collect();
    for id in ids {
        let (d1, d2) = (data(b1, &c1, &id), data(b2, &c2, &id));
        if find(&c1, &id).is_some() != find(&c2, &id).is_some() {
            out.insert(id.clone());
        } else if d1 != d2 {
            if id == "MOHD" && d1.len() == d2.len() {
                for k in 0..d1.len() {
                    if d1[k] != d2[k] {
                        out.insert(mohd_field(k, d1.len()).to_string());
                    }
                }
            } else {
                out.insert(id.clone());
            }
        }
    }
    if out.is_empty() && b1 != b2 {
        out.insert("chunk-order".to_string());
    }
    out.into_iter().collect()
}
const MAIN_PARTS: [&str; 18] = ["MOHD.counts", "MOHD.ambient", "MOHD.flags", "MOHD.bbox", "MOTX", "MOMT", "MOGN", "MOGI", "MOSB", "MOPV", "MOPT", "MOPR", "MOVV", "MOVB", "MOLT", "MODS", "MODN", "MODD"];
fn rewrite_pred(s: &RootSpec, part: &str, vi: usize, npred: &'static str) -> &'static str {
    match part {
        "MOGN" => npred,
        "MOSB" | "MOHD.flags" => skybox_pred(s, vi),
        "MOHD.bbox" => root_item_pred(s, "bounding_box", vi, npred),
        "MODN" | "MODD" => root_item_pred(s, "doodad_defs.name_offset", vi, npred),
        _ => "-",
    }
}

fn check_root_case(c: &mut Case, seed: &[u8], s: &RootSpec) {
    let mut agg = Agg::default();
    let w = WmoWriter::new();
    for vi in 0..VERS.len() {
        let (ver, vname) = VERS[vi];
        let model = match build_root(seed, s, vi, false) {
            Ok(m) => m,
            Err(e) => {
                c.violate("seed-parse|root", format!("the library could not parse the independent encoder's seed root as expected: {e}"), json!({}));
                return;
            }
        };
        // ---- write
        let b1 = match lib(|| {
            let mut cur = Cursor::new(Vec::new());
            w.write_root(&mut cur, &model, ver).map(|_| cur.into_inner())
        }) {
            Err(p) => {
                agg.check("root-write-panic", &p.sig(), "-", vi, false, || (format!("write_root panicked: {}", p.msg), json!({"file": p.file})));
                continue;
            }
            Ok(Err(e)) => {
                c.count(&format!("write_err|root|{vname}"), 1);
                c.note(json!({"write_root_err": e, "version": vname}));
                continue;
            }
            Ok(Ok(b)) => b,
        };
        c.count("roots_written", 1);
        c.count(&format!("roots_written|{vname}"), 1);
        // ---- the same root into a sink that accepts short writes, and with a writer object that has seen failed writes
        // (the sink ran full at several points of the file): same bytes as the first write
        {
            let max = 1 + (c.idx % 13) as usize;
            match lib(|| {
                let mut sink = vh_common::ShortIo::new(Cursor::new(Vec::new()), max);
                w.write_root(&mut sink, &model, ver).map(|_| sink.inner.into_inner())
            }) {
                Ok(Ok(bs)) => {
                    c.count("roots_written_through_short_writes", 1);
                    agg.check("write-depends-on-sink", "root", "short-writes", vi, bs == b1, || (format!("write_root into a sink that accepts at most {max} bytes per call produced {} bytes, into a cursor {} (first difference at {})", bs.len(), b1.len(), vh_common::first_diff(&bs, &b1)), json!({"max_per_write": max})));
                }
                Ok(Err(e)) => agg.check("write-depends-on-sink", "root", "short-writes-error", vi, false, || (format!("write_root fails on a sink that accepts short writes: {e}"), json!({}))),
                Err(p) => agg.check("root-write-panic", &p.sig(), "-", vi, false, || (format!("write_root panicked: {}", p.msg), json!({"file": p.file}))),
            }
            let mut failed = 0u64;
            for k in 1..=9usize {
                let mut sink = vh_common::FailAfter::new(b1.len() * k / 10);
                if let Ok(Err(_)) = lib(|| w.write_root(&mut sink, &model, ver)) {
                    failed += 1;
                }
            }
            c.count("root_writes_failed_by_full_sink", failed);
            match lib(|| {
                let mut cur = Cursor::new(Vec::new());
                w.write_root(&mut cur, &model, ver).map(|_| cur.into_inner())
            }) {
                Ok(Ok(b)) => agg.check("write-depends-on-writer-history", "root", "after-failed-writes", vi, b == b1, || (format!("after {failed} failed write_root calls the same WmoWriter writes {} bytes for the same root, a fresh one {} (first difference at {})", b.len(), b1.len(), vh_common::first_diff(&b, &b1)), json!({"failed_writes": failed}))),
                Ok(Err(e)) => agg.check("write-depends-on-writer-history", "root", "after-failed-writes-error", vi, false, || (format!("write_root fails after earlier failed writes: {e}"), json!({}))),
                Err(p) => agg.check("root-write-panic", &p.sig(), "-", vi, false, || (format!("write_root panicked: {}", p.msg), json!({"file": p.file}))),
            }
        }

        // ---- independent walker: framing, header counts, string tables
        let (cks, ferr) = walk(&b1, 0, b1.len(), ROOT_MAGICS);
        let fpred = if !s.materials.is_empty() { "materials>0" } else { "materials=0" };
        c.count("root_framing_checked", 1);
        agg.check("chunk-framing", "root", fpred, vi, ferr.is_none(), || {
            let (last, why) = ferr.clone().unwrap();
            (format!("written root ({vname}) does not tile into chunks: after {last}: {why}"), json!({"after": last, "why": why, "file_len": b1.len()}))
        });
        if let Some((last, _)) = &ferr {
            // chunks after the break cannot be located: nothing below is meaningful for this version
            c.count("root_versions_skipped_after_framing_break", 1);
            c.count(&format!("root_framing_break_after|{last}"), 1);
            continue;
        }
        let order_ok = cks.len() >= 2 && cks[0].id == "MVER" && cks[0].hi - cks[0].lo == 4 && u32at(&b1, cks[0].lo) == ver.to_raw() && cks[1].id == "MOHD" && cks[1].hi - cks[1].lo >= 60;
        agg.check("chunk-framing", "root-mver-mohd", "-", vi, order_ok, || (format!("written root ({vname}) does not start with MVER({}), MOHD", ver.to_raw()), json!({"chunks": cks.iter().map(|k| k.id.clone()).collect::<Vec<_>>()})));
        if !order_ok {
            continue;
        }
        let mohd = data(&b1, &cks, "MOHD");
        c.count(&format!("mohd_size|{}", mohd.len()), 1);
        let modn = data(&b1, &cks, "MODN");
        let n_modn_strings = modn.split(|&b| b == 0).filter(|x| !x.is_empty()).count();
        let lens: [(&str, usize, usize, usize); 7] = [
            ("n_materials", 0, data(&b1, &cks, "MOMT").len(), 64),
            ("n_groups", 4, data(&b1, &cks, "MOGI").len(), 32),
            ("n_portals", 8, data(&b1, &cks, "MOPT").len(), 20),
            ("n_lights", 12, data(&b1, &cks, "MOLT").len(), 48),
            ("n_doodad_names", 16, n_modn_strings, 1),
            ("n_doodad_defs", 20, data(&b1, &cks, "MODD").len(), 40),
            ("n_doodad_sets", 24, data(&b1, &cks, "MODS").len(), 32),
        ];
        let model_lens = [model.materials.len(), model.groups.len(), model.portals.len(), model.lights.len(), model.doodad_defs.len(), model.doodad_defs.len(), model.doodad_sets.len()];
        for (k, (field, off, bytes, rec)) in lens.iter().enumerate() {
            let hdr = u32at(mohd, *off) as usize;
            let ok = bytes % rec == 0 && hdr == bytes / rec;
            c.count("header_count_fields_checked", 1);
            agg.check("header-count-ne-list", field, "-", vi, ok, || {
                (format!("MOHD.{field} = {hdr} but the walker finds {} bytes / {rec} per record in the list's chunk ({vname})", bytes), json!({"header": hdr, "chunk_bytes": bytes, "record": rec, "model_len": model_lens[k]}))
            });
        }
        // MOHD bounds and ambient colour as written (format offsets 0x24 and 0x1C)
        let wb: Vec<u32> = (0..6).map(|k| u32at(mohd, 36 + 4 * k)).collect();
        agg.cmp(c, "root-roundtrip|walker", "bounding_box", "-", vi, &format!("{:?}", bbb(&model.bounding_box)), &format!("{:?}", wb));
        agg.cmp(c, "root-roundtrip|walker", "header.ambient_color", "-", vi, &format!("{:?}", [s.ambient[2], s.ambient[1], s.ambient[0], s.ambient[3]]), &format!("{:?}", &mohd[28..32]));
        // MOTX: every texture at its cumulative offset; every material offset resolves to the intended string
        let motx = data(&b1, &cks, "MOTX");
        let toff = tex_offsets(&s.textures);
        for (i, t) in s.textures.iter().enumerate() {
            let got = cstr_at(motx, toff[i] as usize);
            c.count("string_offsets_resolved", 1);
            agg.check("string-offset", "MOTX", "-", vi, got.as_deref() == Some(t.as_str()), || (format!("MOTX offset {} should hold texture {i} {t:?}, holds {got:?} ({vname})", toff[i]), json!({"offset": toff[i], "want": t, "got": got})));
        }
        let momt = data(&b1, &cks, "MOMT");
        if momt.len() == 64 * s.materials.len() {
            for (i, m) in s.materials.iter().enumerate() {
                for (slot, off, want) in [("texture1", 12usize, &m.want1), ("texture2", 24usize, &m.want2)] {
                    if let Some(want) = want {
                        let o = u32at(momt, 64 * i + off);
                        let got = cstr_at(motx, o as usize);
                        c.count("string_offsets_resolved", 1);
                        agg.check("string-offset", "MOMT->MOTX", "-", vi, got.as_deref() == Some(want.as_str()), || (format!("material {i} {slot} offset {o} should resolve to {want:?}, resolves to {got:?} ({vname})"), json!({"offset": o, "want": want, "got": got})));
                    }
                }
            }
        }
        // MOGN via MOGI name offsets
        let (mogn, mogi) = (data(&b1, &cks, "MOGN"), data(&b1, &cks, "MOGI"));
        // trigger predicate for everything that depends on group-name offsets: names differ AND the writer left
        // every MOGI name offset at the placeholder 0 (any other way of getting names wrong is a different signature)
        let offsets_all_zero = mogi.len() == 32 * s.groups.len() && (0..s.groups.len()).all(|i| u32at(mogi, 32 * i + 28) == 0);
        let npred: &'static str = if !s.names_differ { "names-same" } else if offsets_all_zero { "names-differ,offsets-all-0" } else { "names-differ,offsets-set" };
        if mogi.len() == 32 * s.groups.len() {
            for (i, g) in s.groups.iter().enumerate() {
                let o = u32at(mogi, 32 * i + 28);
                let got = cstr_at(mogn, o as usize);
                c.count("string_offsets_resolved", 1);
                agg.check("string-offset", "MOGN", npred, vi, got.as_deref() == Some(g.name.as_str()), || (format!("group {i} name offset {o} should resolve to {:?}, resolves to {got:?} ({vname})", g.name), json!({"group": i, "offset": o, "want": g.name, "got": got})));
            }
        }
        // MODN via MODD name offsets: each must land on the start of a string inside MODN
        let modd = data(&b1, &cks, "MODD");
        for i in 0..modd.len() / 40 {
            let o = (u32at(modd, 40 * i) & 0x00FF_FFFF) as usize;
            let ok = o < modn.len() && modn[o] != 0 && (o == 0 || modn[o - 1] == 0);
            c.count("string_offsets_resolved", 1);
            agg.check("string-offset", "MODN", "-", vi, ok, || (format!("doodad definition {i} name offset {o} is not the start of a string in MODN ({} bytes) ({vname})", modn.len()), json!({"def": i, "offset": o})));
        }

        // ---- (a) legacy parser
        let want = expected_root(&model, s, vi);
        let r1 = match lib(|| WmoParser::new().parse_root(&mut Cursor::new(&b1))) {
            Err(p) => {
                agg.check("root-parse-panic|WmoParser", &p.sig(), "-", vi, false, || (format!("WmoParser::parse_root panicked on the writer's output: {}", p.msg), json!({})));
                None
            }
            Ok(Err(e)) => {
                agg.check("root-parse-err|WmoParser", "own-output", "-", vi, false, || (format!("WmoParser::parse_root rejected the writer's output ({vname}): {e}"), json!({"err": e})));
                None
            }
            Ok(Ok(r)) => Some(r),
        };
        if let Some(r1) = &r1 {
            c.count("roots_parsed|WmoParser", 1);
            agg.cmp(c, "root-roundtrip|WmoParser", "mver", "-", vi, &format!("{:?}", WmoVersion::from_raw(ver.to_raw())), &format!("{:?}", Some(r1.version)));
            let got = proj_root(r1);
            for (item, wv) in &want {
                agg.cmp(c, "root-roundtrip|WmoParser", item, root_item_pred(s, item, vi, npred), vi, wv, got.get(item).map(|x| x.as_str()).unwrap_or("<absent>"));
            }
            // derived data: the offset->index map must send every texture's byte offset to its index
            let okmap = r1.texture_offset_index_map.len() == s.textures.len() && toff.iter().enumerate().all(|(i, o)| r1.texture_offset_index_map.get(o) == Some(&(i as u32)));
            c.count("texture_maps_checked", 1);
            agg.check("string-offset", "texture_offset_index_map|WmoParser", "-", vi, okmap, || (format!("texture_offset_index_map does not map each texture's MOTX byte offset to its index ({vname})"), json!({"offsets": toff, "map": format!("{:?}", r1.texture_offset_index_map)})));
            // ---- (b) second write of the parsed object
            match lib(|| {
                let mut cur = Cursor::new(Vec::new());
                w.write_root(&mut cur, r1, ver).map(|_| cur.into_inner())
            }) {
                Err(p) => agg.check("root-write-panic", &p.sig(), "rewrite", vi, false, || (format!("write_root of the parsed object panicked: {}", p.msg), json!({}))),
                Ok(Err(e)) => agg.check("rewrite-not-bytewise", "root|write-err", "-", vi, false, || (format!("second write_root failed: {e}"), json!({}))),
                Ok(Ok(b2)) => {
                    c.count("root_rewrites_compared", 1);
                    if b2 == b1 {
                        c.count("root_rewrites_identical", 1);
                    }
                    let parts = rewrite_diff(&b1, &b2, ROOT_MAGICS);
                    // every part that could differ is recorded as checked so that `all` is meaningful
                    for part in MAIN_PARTS {
                        let bad = parts.iter().any(|p| p == part);
                        agg.check("rewrite-not-bytewise", &format!("root|{part}"), rewrite_pred(s, part, vi, npred), vi, !bad, || (format!("second write of the parsed root differs in {part} ({vname}); first {} bytes, second {} bytes", b1.len(), b2.len()), json!({"differing_parts": parts})));
                    }
                    for part in parts.iter().filter(|p| !MAIN_PARTS.contains(&p.as_str())) {
                        agg.check("rewrite-not-bytewise", &format!("root|{part}"), "-", vi, false, || (format!("second write of the parsed root differs: {part} ({vname})"), json!({"differing_parts": parts})));
                    }
                }
            }
        }

        // ---- (a) parse_wmo
        let mohd_last = cks.last().map(|k| k.id == "MOHD").unwrap_or(false);
        let mut api_root: Option<wow_wmo::root_parser::WmoRoot> = None;
        let mut api_failed = false;
        match lib(|| parse_wmo(&mut Cursor::new(&b1))) {
            Err(p) => agg.check("root-parse-panic|parse_wmo", &p.sig(), "-", vi, false, || (format!("parse_wmo panicked on the writer's root: {}", p.msg), json!({}))),
            Ok(Err(e)) => {
                api_failed = true;
                agg.check("root-parse-err|parse_wmo", "own-output", if mohd_last { "mohd-is-last-chunk" } else { "mohd-followed" }, vi, false, || (format!("parse_wmo rejected the writer's root ({vname}): {e}"), json!({"err": e, "chunks": cks.iter().map(|k| k.id.clone()).collect::<Vec<_>>()})))
            }
            Ok(Ok(ParsedWmo::Group(_))) => agg.check("root-roundtrip|parse_wmo", "file-type", "-", vi, false, || (format!("parse_wmo classified the written root as a group file ({vname})"), json!({}))),
            Ok(Ok(ParsedWmo::Root(a))) => {
                c.count("roots_parsed|parse_wmo", 1);
                agg.cmp(c, "root-roundtrip|parse_wmo", "mver", "-", vi, &ver.to_raw().to_string(), &a.version.to_string());
                let got = proj_root_api(&a);
                for (item, wv) in &want {
                    // visible_block_lists: no counterpart (see EXCLUSIONS); every other item is compared
                    if let Some(g) = got.get(item) {
                        agg.cmp(c, "root-roundtrip|parse_wmo", item, root_item_pred(s, item, vi, npred), vi, wv, g);
                    }
                }
                let okmap = a.texture_offset_index_map.len() == s.textures.len() && toff.iter().enumerate().all(|(i, o)| a.texture_offset_index_map.get(o) == Some(&(i as u32)));
                c.count("texture_maps_checked", 1);
                agg.check("string-offset", "texture_offset_index_map|parse_wmo", "-", vi, okmap, || (format!("texture_offset_index_map does not map each texture's MOTX byte offset to its index ({vname})"), json!({"offsets": toff, "map": format!("{:?}", a.texture_offset_index_map)})));
                api_root = Some(a);
            }
        }
        alt_readers_root(c, &mut agg, vi, &b1, &cks, api_root.as_ref(), api_failed);
    }
    agg.flush(c);
    convert_root_pairs(c, seed, s);
    editor_history_root(c, seed, s);
}

// ------------------------------------------------------------------ the other readers of the public API
//
// parse_wmo_with_metadata, discover_wmo_chunks and root_parser::parse_root_file are further ways into the same parsers: on the
// writer's bytes they must give what parse_wmo gave (which the legs above compare with the model), and the chunk list they
// report must be the one the independent walker found.

/// Everything of a root_parser::WmoRoot: the projection, the offset map and the remaining fields (Debug rendering).
fn api_root_full(a: &wow_wmo::root_parser::WmoRoot) -> BTreeMap<String, String> {
    let mut m: BTreeMap<String, String> = proj_root_api(a).into_iter().map(|(k, v)| (k.to_string(), v)).collect();
    let mut tm: Vec<(u32, u32)> = a.texture_offset_index_map.iter().map(|(k, v)| (*k, *v)).collect();
    tm.sort();
    m.insert("texture_offset_index_map".into(), format!("{tm:?}"));
    m.insert("mver".into(), a.version.to_string());
    m.insert("other".into(), format!("{:?}", (a.wmo_id, a.num_lod, &a.visible_vertices, &a.visible_blocks, &a.doodad_names, &a.portal_vertices, a.fogs.len(), a.convex_volume_planes.len())));
    m
}
fn walker_chunk_list(cks: &[Ck]) -> Vec<(String, u64, u32)> {
    cks.iter().map(|k| (k.id.clone(), (k.lo - 8) as u64, (k.hi - k.lo) as u32)).collect()
}
fn discovery_list(d: &wow_wmo::chunk_discovery::ChunkDiscovery) -> Vec<(String, u64, u32)> {
    d.chunks.iter().map(|k| (k.id.as_str().to_string(), k.offset, k.size)).collect()
}
fn discovery_clean(d: &wow_wmo::chunk_discovery::ChunkDiscovery, file_len: usize) -> bool {
    d.file_size == file_len as u64 && !d.has_malformed_chunks() && !d.has_unknown_chunks() && !d.is_truncated() && d.total_chunks() == d.chunks.len()
}

fn alt_readers_root(c: &mut Case, agg: &mut Agg, vi: usize, b1: &[u8], cks: &[Ck], base: Option<&wow_wmo::root_parser::WmoRoot>, base_failed: bool) {
    let vname = VERS[vi].1;
    let want_list = walker_chunk_list(cks);
    // ---- discover_wmo_chunks against the walker
    let disc = match lib(|| wow_wmo::discover_wmo_chunks(&mut Cursor::new(b1))) {
        Err(p) => {
            agg.check("alt-reader-panic", &format!("discover_wmo_chunks|root|{}", p.sig()), "-", vi, false, || (format!("discover_wmo_chunks panicked on the writer's root: {}", p.msg), json!({})));
            None
        }
        Ok(Err(e)) => {
            agg.check("alt-reader", "discover_wmo_chunks|root|error", "-", vi, false, || (format!("discover_wmo_chunks rejected the writer's root ({vname}): {e}"), json!({"err": e})));
            None
        }
        Ok(Ok(d)) => {
            c.count("chunk_discoveries_compared_with_walker|root", 1);
            let got = discovery_list(&d);
            agg.check("alt-reader", "discover_wmo_chunks|root|chunk-list", "-", vi, got == want_list, || (format!("discover_wmo_chunks lists other chunks (id, offset, size) than the walker finds in the written root ({vname})"), json!({"walker": format!("{want_list:?}"), "discovery": format!("{got:?}")})));
            agg.check("alt-reader", "discover_wmo_chunks|root|status", "-", vi, discovery_clean(&d, b1.len()), || (format!("discover_wmo_chunks reports file size {} (written {}), malformed {}, unknown {}, truncated {} for the writer's root ({vname})", d.file_size, b1.len(), d.malformed_count(), d.unknown_count(), d.is_truncated()), json!({})));
            Some(d)
        }
    };
    let Some(base) = base else {
        if base_failed {
            // parse_wmo refused the file: the other entry points must not read something out of it either
            if let Ok(Ok(_)) = lib(|| wow_wmo::parse_wmo_with_metadata(&mut Cursor::new(b1))) {
                agg.check("alt-reader", "parse_wmo_with_metadata|root|outcome", "-", vi, false, || (format!("parse_wmo_with_metadata accepts a root that parse_wmo rejects ({vname})"), json!({})));
            }
        }
        return;
    };
    let want = api_root_full(base);
    let compare = |c: &mut Case, agg: &mut Agg, name: &str, got: &wow_wmo::root_parser::WmoRoot| {
        let got = api_root_full(got);
        for (item, wv) in &want {
            c.count("alt_reader_items_compared", 1);
            let gv = got.get(item).map(|x| x.as_str()).unwrap_or("<absent>");
            agg.check("alt-reader", &format!("{name}|root|{item}"), "-", vi, wv == gv, || (format!("{name} and parse_wmo read {item} differently from the same written root ({vname}): parse_wmo {} {name} {}", clip(wv), clip(gv)), diff_detail(wv, gv)));
        }
    };
    // ---- parse_wmo_with_metadata against parse_wmo, its discovery against the walker
    match lib(|| wow_wmo::parse_wmo_with_metadata(&mut Cursor::new(b1))) {
        Err(p) => agg.check("alt-reader-panic", &format!("parse_wmo_with_metadata|root|{}", p.sig()), "-", vi, false, || (format!("parse_wmo_with_metadata panicked on the writer's root: {}", p.msg), json!({}))),
        Ok(Err(e)) => agg.check("alt-reader", "parse_wmo_with_metadata|root|outcome", "-", vi, false, || (format!("parse_wmo_with_metadata rejects a root that parse_wmo reads ({vname}): {e}"), json!({"err": e}))),
        Ok(Ok(res)) => {
            c.count("roots_parsed|parse_wmo_with_metadata", 1);
            let got = res.metadata().map(discovery_list);
            agg.check("alt-reader", "parse_wmo_with_metadata|root|chunk-list", "-", vi, got.as_ref() == Some(&want_list), || (format!("the metadata of parse_wmo_with_metadata lists other chunks than the walker finds in the written root ({vname})"), json!({"walker": format!("{want_list:?}"), "metadata": format!("{got:?}")})));
            match &res.wmo {
                ParsedWmo::Root(a) => compare(c, agg, "parse_wmo_with_metadata", a),
                ParsedWmo::Group(_) => agg.check("alt-reader", "parse_wmo_with_metadata|root|file-type", "-", vi, false, || (format!("parse_wmo_with_metadata classified the written root as a group file ({vname})"), json!({}))),
            }
        }
    }
    // ---- root_parser::parse_root_file on the discovery of discover_wmo_chunks
    if let Some(d) = disc {
        match lib(|| wow_wmo::root_parser::parse_root_file(&mut Cursor::new(b1), d)) {
            Err(p) => agg.check("alt-reader-panic", &format!("parse_root_file|root|{}", p.sig()), "-", vi, false, || (format!("parse_root_file panicked on the writer's root: {}", p.msg), json!({}))),
            Ok(Err(e)) => agg.check("alt-reader", "parse_root_file|root|outcome", "-", vi, false, || (format!("parse_root_file rejects a root that parse_wmo reads ({vname}): {e}"), json!({"err": e}))),
            Ok(Ok(a)) => {
                c.count("roots_parsed|parse_root_file", 1);
                compare(c, agg, "parse_root_file", &a);
            }
        }
    }
}

fn api_group_full(g: &wow_wmo::group_parser::WmoGroup) -> BTreeMap<String, String> {
    let mut m: BTreeMap<String, String> = proj_group_api(g).into_iter().map(|(k, v)| (k.to_string(), v)).collect();
    m.insert("mver".into(), g.version.to_string());
    m.insert("counts".into(), format!("{:?}", (g.n_triangles, g.n_vertices, g.group_index, g.descriptive_name_index, g.portal_start, g.portal_count, g.trans_batch_count, g.int_batch_count, g.ext_batch_count, g.group_liquid, g.area_table_id, g.flags2)));
    m
}

/// `base` = what parse_wmo read from the written group `b1`.
fn alt_readers_group(c: &mut Case, agg: &mut Agg, vi: usize, b1: &[u8], base: &wow_wmo::group_parser::WmoGroup) {
    let vname = VERS[vi].1;
    if b1.len() < 20 || u32at(b1, 16) as usize != b1.len() - 20 {
        return; // a wrong MOGP size field is judged by "mogp-size"; no chunk list to agree on
    }
    // top level of a group file: MVER, then MOGP up to the end of the file (the walker's own reading, see "group-mver-mogp")
    let want_list: Vec<(String, u64, u32)> = vec![("MVER".into(), 0, 4), ("MOGP".into(), 12, (b1.len() - 20) as u32)];
    match lib(|| wow_wmo::discover_wmo_chunks(&mut Cursor::new(b1))) {
        Err(p) => agg.check("alt-reader-panic", &format!("discover_wmo_chunks|group|{}", p.sig()), "-", vi, false, || (format!("discover_wmo_chunks panicked on the writer's group: {}", p.msg), json!({}))),
        Ok(Err(e)) => agg.check("alt-reader", "discover_wmo_chunks|group|error", "-", vi, false, || (format!("discover_wmo_chunks rejected the writer's group ({vname}): {e}"), json!({"err": e}))),
        Ok(Ok(d)) => {
            c.count("chunk_discoveries_compared_with_walker|group", 1);
            let got = discovery_list(&d);
            agg.check("alt-reader", "discover_wmo_chunks|group|chunk-list", "-", vi, got == want_list, || (format!("discover_wmo_chunks lists other top-level chunks than MVER and an MOGP that reaches the end of the written group ({vname})"), json!({"walker": format!("{want_list:?}"), "discovery": format!("{got:?}")})));
            agg.check("alt-reader", "discover_wmo_chunks|group|status", "-", vi, discovery_clean(&d, b1.len()), || (format!("discover_wmo_chunks reports file size {} (written {}), malformed {}, unknown {}, truncated {} for the writer's group ({vname})", d.file_size, b1.len(), d.malformed_count(), d.unknown_count(), d.is_truncated()), json!({})));
        }
    }
    match lib(|| wow_wmo::parse_wmo_with_metadata(&mut Cursor::new(b1))) {
        Err(p) => agg.check("alt-reader-panic", &format!("parse_wmo_with_metadata|group|{}", p.sig()), "-", vi, false, || (format!("parse_wmo_with_metadata panicked on the writer's group: {}", p.msg), json!({}))),
        Ok(Err(e)) => agg.check("alt-reader", "parse_wmo_with_metadata|group|outcome", "-", vi, false, || (format!("parse_wmo_with_metadata rejects a group that parse_wmo reads ({vname}): {e}"), json!({"err": e}))),
        Ok(Ok(res)) => {
            c.count("groups_parsed|parse_wmo_with_metadata", 1);
            let got = res.metadata().map(discovery_list);
            agg.check("alt-reader", "parse_wmo_with_metadata|group|chunk-list", "-", vi, got.as_ref() == Some(&want_list), || (format!("the metadata of parse_wmo_with_metadata lists other top-level chunks than MVER and MOGP for the written group ({vname})"), json!({"walker": format!("{want_list:?}"), "metadata": format!("{got:?}")})));
            match &res.wmo {
                ParsedWmo::Group(g) => {
                    let (want, got) = (api_group_full(base), api_group_full(g));
                    for (item, wv) in &want {
                        c.count("alt_reader_items_compared", 1);
                        let gv = got.get(item).map(|x| x.as_str()).unwrap_or("<absent>");
                        agg.check("alt-reader", &format!("parse_wmo_with_metadata|group|{item}"), "-", vi, wv == gv, || (format!("parse_wmo_with_metadata and parse_wmo read {item} differently from the same written group ({vname})"), diff_detail(wv, gv)));
                    }
                }
                ParsedWmo::Root(_) => agg.check("alt-reader", "parse_wmo_with_metadata|group|file-type", "-", vi, false, || (format!("parse_wmo_with_metadata classified the written group as a root file ({vname})"), json!({}))),
            }
        }
    }
}

// ------------------------------------------------------------------ root: editing histories (after C15-r6m1)
//
// The count clause quantifies over every root the API can produce, not only over roots whose header was filled in by
// hand: an editor session adds and removes elements of every list in any order (refused removals included) and saves;
// the walker then counts the records in the file. Expectation = a plain tally of the accepted operations.
/// What an editor session left behind: the saved root, what it has to read back as, and the loaded groups as saved.
struct EdOut {
    root_bytes: Vec<u8>,
    want: Proj,
    bbox_bits: [u32; 6],
    bbox_is_union: bool,
    doodads_canonical: bool,
    groups: Vec<(usize, Proj, Result<Vec<u8>, String>)>,
    root_modified: bool,
}
/// The fold both the parser and the editor use for "bounds of the whole object" (zeros without groups).
fn union_of_group_infos(root: &WmoRoot) -> [u32; 6] {
    if root.groups.is_empty() {
        return [fb(0.0); 6];
    }
    let mut b = [f32::MAX, f32::MAX, f32::MAX, f32::MIN, f32::MIN, f32::MIN];
    for g in &root.groups {
        let bb = &g.bounding_box;
        b[0] = b[0].min(bb.min.x);
        b[1] = b[1].min(bb.min.y);
        b[2] = b[2].min(bb.min.z);
        b[3] = b[3].max(bb.max.x);
        b[4] = b[4].max(bb.max.y);
        b[5] = b[5].max(bb.max.z);
    }
    b.map(fb)
}
/// Group index for an editor operation: mostly one of the loaded groups, sometimes any index up to one past the end.
fn gpick(r: &mut Rng, ed: &wow_wmo::WmoEditor) -> usize {
    let n = ed.group_count() + 2;
    let loaded: Vec<usize> = (0..n).filter(|&i| ed.group(i).is_some()).collect();
    if loaded.is_empty() || r.chance(1, 4) { r.usize(n) } else { *r.pick(&loaded) }
}
fn vbits(ed: &wow_wmo::WmoEditor, gi: usize) -> Option<Vec<[u32; 3]>> {
    ed.group(gi).map(|g| g.vertices.iter().map(v3b).collect())
}

fn editor_history_root(c: &mut Case, seed: &[u8], s: &RootSpec) {
    let vi = (c.idx % VERS.len() as u64) as usize;
    let (ver, vname) = VERS[vi];
    let Ok(model) = build_root(seed, s, vi, false) else { return };
    let mut r = Rng::for_case(0xED17, c.idx, 15);
    let (pm, pd, ps, pl) = (model.materials.first().cloned(), model.doodad_defs.first().cloned(), model.doodad_sets.first().cloned(), model.lights.first().cloned());
    // materials, groups, doodad definitions, doodad sets, textures, lights
    let mut tally = [model.materials.len(), model.groups.len(), model.doodad_defs.len(), model.doodad_sets.len(), model.textures.len(), model.lights.len()];
    // up to two of the root's groups are loaded into the session (vertices ordinary finite numbers, so that recalculated bounds
    // are unambiguous)
    let n_load = model.groups.len().min(r.usize(3));
    let mut loads: Vec<WmoGroup> = (0..n_load)
        .map(|k| {
            let mut gr = Rng::for_case(0xED18, c.idx, k as u64);
            let mut gs = gen_group(&mut gr, 3 + k as u64, 6, None);
            gs.verts = (0..gs.verts.len()).map(|_| [fnice(&mut gr), fnice(&mut gr), fnice(&mut gr)]).collect();
            gs.gidx = k as u32;
            build_group(&gs, gs.flags)
        })
        .collect();
    let mut model = Some(model);
    let nops = 1 + r.usize(16);
    let mut hist: Vec<String> = Vec::new();
    let res = lib(|| -> Result<EdOut, String> {
        let mut ed = wow_wmo::WmoEditor::new(model.take().unwrap());
        for g in loads.drain(..) {
            let gi = g.header.group_index;
            ed.add_group(g).map_err(|e| format!("SAVE add_group({gi}): {e}"))?;
            hist.push(format!("add_group({gi})"));
        }
        for _ in 0..nops {
            let k = r.usize(20);
            // removal index: usually inside the list, sometimes one past the end (a refused operation between accepted ones)
            let pick = |r: &mut Rng, n: usize| if n == 0 || r.chance(1, 6) { n } else { r.usize(n) };
            match k {
                0 => {
                    if let Some(m) = &pm {
                        ed.add_material(m.clone());
                        tally[0] += 1;
                        hist.push("add_material".into());
                    }
                }
                1 => {
                    let i = pick(&mut r, tally[0]);
                    let ok = ed.remove_material(i).is_ok();
                    if ok {
                        tally[0] -= 1;
                    }
                    hist.push(format!("remove_material({i})={ok}"));
                }
                2 => {
                    ed.create_group(format!("edited_{}", hist.len()));
                    tally[1] += 1;
                    hist.push("create_group".into());
                }
                3 => {
                    let i = pick(&mut r, tally[1]);
                    let ok = ed.remove_group(i).is_ok();
                    if ok {
                        tally[1] -= 1;
                    }
                    hist.push(format!("remove_group({i})={ok}"));
                }
                4 | 5 => {
                    if let Some(d) = &pd {
                        ed.add_doodad(d.clone());
                        tally[2] += 1;
                        hist.push("add_doodad".into());
                    }
                }
                6 => {
                    let i = pick(&mut r, tally[2]);
                    let ok = ed.remove_doodad(i).is_ok();
                    if ok {
                        tally[2] -= 1;
                    }
                    hist.push(format!("remove_doodad({i})={ok}"));
                }
                7 => {
                    if let Some(d) = &ps {
                        ed.add_doodad_set(d.clone());
                        tally[3] += 1;
                        hist.push("add_doodad_set".into());
                    }
                }
                8 => {
                    let i = pick(&mut r, tally[3]);
                    let ok = ed.remove_doodad_set(i).is_ok();
                    if ok {
                        tally[3] -= 1;
                    }
                    hist.push(format!("remove_doodad_set({i})={ok}"));
                }
                9 => {
                    ed.add_texture(format!("edited\\tex_{}.blp", hist.len()));
                    tally[4] += 1;
                    hist.push("add_texture".into());
                }
                10 => {
                    let i = pick(&mut r, tally[4]);
                    let ok = ed.remove_texture(i).is_ok();
                    if ok {
                        tally[4] -= 1;
                    }
                    hist.push(format!("remove_texture({i})={ok}"));
                }
                11 | 12 => {
                    // the vertex list of a loaded group after add_vertex = the list before + that vertex; a refusal changes nothing
                    let gi = gpick(&mut r, &ed);
                    let v = mkv3([fnice(&mut r), fnice(&mut r), fnice(&mut r)]);
                    let pre = vbits(&ed, gi);
                    let got = ed.add_vertex(gi, v).ok();
                    let post = vbits(&ed, gi);
                    hist.push(format!("add_vertex({gi})={}", got.is_some()));
                    let want = match (got, &pre) {
                        (Some(i), Some(p)) if i == p.len() => {
                            let mut w = p.clone();
                            w.push(v3b(&v));
                            Some(w)
                        }
                        (Some(i), _) => return Err(format!("VERTS|add_vertex|accepted for group {gi} ({} vertices before, loaded: {}) and returned index {i}", pre.as_ref().map(|p| p.len()).unwrap_or(0), pre.is_some())),
                        (None, p) => p.clone(),
                    };
                    if post != want {
                        return Err(format!("VERTS|add_vertex|group {gi}: {:?} vertices before, {:?} after, accepted: {}", pre.as_ref().map(|p| p.len()), post.as_ref().map(|p| p.len()), got.is_some()));
                    }
                }
                13 => {
                    let gi = gpick(&mut r, &ed);
                    let pre = vbits(&ed, gi);
                    let vx = pick(&mut r, pre.as_ref().map(|p| p.len()).unwrap_or(0));
                    let got = ed.remove_vertex(gi, vx).ok().map(|v| v3b(&v));
                    let post = vbits(&ed, gi);
                    hist.push(format!("remove_vertex({gi},{vx})={}", got.is_some()));
                    let want = match (&got, &pre) {
                        (Some(v), Some(p)) if vx < p.len() && p[vx] == *v => {
                            let mut w = p.clone();
                            w.remove(vx);
                            Some(w)
                        }
                        (Some(_), _) => return Err(format!("VERTS|remove_vertex|accepted for group {gi}, vertex {vx} of {:?}, and returned something other than that vertex", pre.as_ref().map(|p| p.len()))),
                        (None, p) => (*p).clone(),
                    };
                    if post != want {
                        return Err(format!("VERTS|remove_vertex|group {gi}, vertex {vx}: {:?} vertices before, {:?} after, accepted: {}", pre.as_ref().map(|p| p.len()), post.as_ref().map(|p| p.len()), got.is_some()));
                    }
                }
                14 => {
                    let gi = gpick(&mut r, &ed);
                    let ok = ed.recalculate_group_bounding_box(gi).is_ok();
                    hist.push(format!("recalculate_group_bounding_box({gi})={ok}"));
                }
                15 => {
                    let ok = ed.recalculate_global_bounding_box().is_ok();
                    hist.push(format!("recalculate_global_bounding_box={ok}"));
                }
                16 => {
                    // edits through root_mut: the lists grow behind the header's back
                    let sub = r.usize(5);
                    let root = ed.root_mut();
                    match sub {
                        0 => root.header.ambient_color = mkcol(col_any(&mut r)),
                        1 => {
                            if let Some(l) = &pl {
                                root.lights.push(l.clone());
                                tally[5] += 1;
                            }
                        }
                        2 => root.visible_block_lists.push(vec![1, 2, (r.next_u32() as u16).min(0xFFFE)]),
                        3 => {
                            root.textures.push(format!("edited\\rm_{}.blp", hist.len()));
                            tally[4] += 1;
                        }
                        _ => {
                            if let Some(m) = &pm {
                                root.materials.push(m.clone());
                                tally[0] += 1;
                            }
                        }
                    }
                    hist.push(format!("root_mut:{}", ["ambient", "push-light", "push-visible-list", "push-texture", "push-material"][sub]));
                }
                17 => {
                    let i = pick(&mut r, tally[0]);
                    let some = if let Some(m) = ed.material_mut(i) {
                        m.shader = r.next_u32();
                        m.blend_mode = r.next_u32();
                        m.diffuse_color = mkcol(col_any(&mut r));
                        m.flags = WmoMaterialFlags::from_bits_truncate(r.next_u32() & 0xFFF);
                        true
                    } else {
                        false
                    };
                    hist.push(format!("material_mut({i})={some}"));
                }
                18 => {
                    let i = pick(&mut r, tally[4]);
                    let n = hist.len();
                    let some = if let Some(t) = ed.texture_mut(i) {
                        *t = format!("edited\\tm_{n}.blp");
                        true
                    } else {
                        false
                    };
                    hist.push(format!("texture_mut({i})={some}"));
                }
                _ => {
                    let gi = gpick(&mut r, &ed);
                    let sub = r.usize(4);
                    let some = if let Some(g) = ed.group_mut(gi) {
                        match sub {
                            0 => g.vertices.push(mkv3([fnice(&mut r), fnice(&mut r), fnice(&mut r)])),
                            1 => g.header.flags = WmoGroupFlags::from_bits_truncate(r.next_u32() & 0x3FFFF),
                            2 => g.indices.extend([r.next_u32() as u16, r.next_u32() as u16, r.next_u32() as u16]),
                            _ => g.vertex_colors = Some((0..1 + r.usize(4)).map(|_| mkcol(col_any(&mut r))).collect()),
                        }
                        true
                    } else {
                        false
                    };
                    hist.push(format!("group_mut({gi}):{}={some}", ["push-vertex", "flags", "push-indices", "colours"][sub]));
                }
            }
        }
        let root = ed.root();
        let lens = [root.materials.len(), root.groups.len(), root.doodad_defs.len(), root.doodad_sets.len(), root.textures.len(), root.lights.len()];
        if lens != tally {
            return Err(format!("LISTS {lens:?}"));
        }
        // what the session holds is what the saved file has to read back as: skybox and its flag as the target version allows,
        // header counts = list lengths (whatever the in-memory header says)
        let mut want = proj_root(root);
        let sky_written = vi >= WOTLK && root.skybox.is_some();
        want.insert("skybox", format!("{:?}", if sky_written { root.skybox.clone() } else { None }));
        want.insert("header.flags", format!("{:#x}", (root.header.flags.bits() & !0x20) | if sky_written { 0x20 } else { 0 }));
        want.insert("header.counts", format!("{:?}", [root.materials.len(), root.groups.len(), root.portals.len(), root.lights.len(), root.doodad_defs.len(), root.doodad_defs.len(), root.doodad_sets.len()].map(|x| x as u32)));
        let bbox_bits = bbb(&root.bounding_box);
        let bbox_is_union = bbox_bits == union_of_group_infos(root);
        let doodads_canonical = root.doodad_defs.iter().map(|d| d.name_offset).eq(canonical_doodad_offsets(root.doodad_defs.len()));
        let mut cur = Cursor::new(Vec::new());
        ed.save_root(&mut cur).map_err(|e| format!("SAVE {e}"))?;
        let mut groups = Vec::new();
        for gi in 0..ed.group_count() + 3 {
            if groups.len() >= 4 {
                break;
            }
            if let Some(g) = ed.group(gi) {
                let want = proj_group(g);
                let mut gc = Cursor::new(Vec::new());
                let res = ed.save_group(&mut gc, gi).map(|_| gc.into_inner()).map_err(|e| e.to_string());
                groups.push((gi, want, res));
            }
        }
        Ok(EdOut { root_bytes: cur.into_inner(), want, bbox_bits, bbox_is_union, doodads_canonical, groups, root_modified: ed.is_root_modified() })
    });
    c.count("editor_histories", 1);
    c.count("editor_history_ops", hist.len() as u64);
    for h in &hist {
        let name = h.split(['(', '=', ':']).next().unwrap_or("");
        if ["remove_texture", "add_vertex", "remove_vertex", "recalculate_group_bounding_box", "recalculate_global_bounding_box", "root_mut", "material_mut", "texture_mut", "group_mut", "add_group"].contains(&name) {
            c.count(&format!("editor_history_op|{name}"), 1);
            if h.ends_with("=true") {
                c.count(&format!("editor_history_op_accepted|{name}"), 1);
            }
        }
    }
    let out = match res {
        Err(p) => {
            c.violate(format!("editor-history-panic|{}", p.sig()), format!("editor session panicked after {hist:?}: {}", p.msg), json!({"history": hist}));
            return;
        }
        Ok(Err(e)) if e.starts_with("LISTS") => {
            c.violate("editor-history|lists-ne-tally", format!("after {hist:?} the editor's lists have lengths {e} (materials, groups, doodad defs, doodad sets, textures, lights), the accepted operations give {tally:?}"), json!({"history": hist}));
            return;
        }
        Ok(Err(e)) if e.starts_with("VERTS|") => {
            let op = e.split('|').nth(1).unwrap_or("?").to_string();
            c.violate(format!("editor-history|vertices-ne-tally|{op}"), format!("after {hist:?}: {}", e.splitn(3, '|').nth(2).unwrap_or("")), json!({"history": hist}));
            return;
        }
        Ok(Err(e)) => {
            c.count("editor_history_save_err", 1);
            c.note(json!({"editor_history_save_err": e, "history": hist}));
            return;
        }
        Ok(Ok(o)) => o,
    };
    if out.root_modified {
        c.count("editor_history_root_marked_modified", 1);
    }
    let b = &out.root_bytes;
    let (cks, ferr) = walk(b, 0, b.len(), ROOT_MAGICS);
    if ferr.is_some() || find(&cks, "MOHD").is_none() {
        // framing of saved roots is judged in check_root_case; without it nothing can be counted here
        c.count("editor_history_unwalkable", 1);
        return;
    }
    let mohd = data(b, &cks, "MOHD");
    let modn = data(b, &cks, "MODN");
    let n_modn_strings = modn.split(|&x| x == 0).filter(|x| !x.is_empty()).count();
    let fields: [(&str, usize, usize, usize, usize); 7] = [
        ("n_materials", 0, data(b, &cks, "MOMT").len(), 64, tally[0]),
        ("n_groups", 4, data(b, &cks, "MOGI").len(), 32, tally[1]),
        ("n_lights", 12, data(b, &cks, "MOLT").len(), 48, tally[5]),
        ("n_doodad_names", 16, n_modn_strings, 1, tally[2]),
        ("n_doodad_defs", 20, data(b, &cks, "MODD").len(), 40, tally[2]),
        ("n_doodad_sets", 24, data(b, &cks, "MODS").len(), 32, tally[3]),
        ("textures", usize::MAX, data(b, &cks, "MOTX").split(|&x| x == 0).filter(|x| !x.is_empty()).count(), 1, tally[4]),
    ];
    for (field, off, bytes, rec, want) in fields {
        c.count("editor_history_counts_checked", 1);
        let in_file = bytes / rec;
        if bytes % rec != 0 || in_file != want {
            c.violate(format!("editor-history|list-ne-tally|{field}"), format!("after {hist:?} the saved root ({vname}) holds {bytes} bytes / {rec} of {field}, the accepted operations leave {want}"), json!({"history": hist, "version": vname}));
        } else if off != usize::MAX && u32at(mohd, off) as usize != in_file {
            c.violate(format!("header-count-ne-list|{field}|editor-history"), format!("after {hist:?} MOHD.{field} = {} but the saved root ({vname}) holds {in_file} records in the list's chunk", u32at(mohd, off)), json!({"history": hist, "version": vname, "header": u32at(mohd, off), "in_file": in_file}));
        }
    }
    // ---- save -> parse of the edited root: the file reads back as what the session held
    if mohd.len() >= 60 {
        let wb: Vec<u32> = (0..6).map(|k| u32at(mohd, 36 + 4 * k)).collect();
        c.count("editor_history_items_compared", 1);
        if wb[..] != out.bbox_bits[..] {
            c.violate("editor-history|save-root-walker|bounding_box", format!("after {hist:?} the saved root ({vname}) stores bounds {wb:?} in MOHD, the session holds {:?}", out.bbox_bits), json!({"history": hist, "version": vname}));
        }
    }
    match lib(|| WmoParser::new().parse_root(&mut Cursor::new(b))) {
        Err(p) => c.violate(format!("editor-history-panic|parse_root|{}", p.sig()), format!("WmoParser::parse_root panicked on the root saved after {hist:?}: {}", p.msg), json!({"history": hist})),
        Ok(Err(e)) => c.violate("editor-history|save-root-parse-err", format!("WmoParser::parse_root rejects the root saved after {hist:?} ({vname}): {e}"), json!({"history": hist, "err": e})),
        Ok(Ok(p)) => {
            c.count("editor_history_roots_parsed", 1);
            let got = proj_root(&p);
            for (item, wv) in &out.want {
                // the two deliberate parser/writer substitutions (known findings of the main leg) are compared only where
                // they are the identity: bounds that are the union of the group boxes, doodad name offsets in canonical position
                if (*item == "bounding_box" && !out.bbox_is_union) || (*item == "doodad_defs.name_offset" && !out.doodads_canonical) {
                    c.count("editor_history_items_left_to_known_substitutions", 1);
                    continue;
                }
                c.count("editor_history_items_compared", 1);
                if got[item] != *wv {
                    c.violate(format!("editor-history|save-root-roundtrip|{item}"), format!("after {hist:?} the saved root ({vname}) reads back with another {item}: session {} file {}", clip(wv), clip(&got[item])), json!({"history": hist, "version": vname, "diff": diff_detail(wv, &got[item])}));
                }
            }
        }
    }
    // ---- the loaded groups as saved by the session
    for (gi, want, res) in &out.groups {
        let gb = match res {
            Err(e) => {
                c.count("editor_history_save_group_err", 1);
                c.note(json!({"editor_history_save_group_err": e, "group": gi, "history": hist}));
                continue;
            }
            Ok(gb) => gb,
        };
        c.count("editor_history_groups_saved", 1);
        let top_ok = gb.len() >= 88 && &gb[0..4] == b"REVM" && u32at(gb, 8) == ver.to_raw() && &gb[12..16] == b"PGOM" && u32at(gb, 16) as usize == gb.len() - 20;
        if !top_ok {
            c.violate("editor-history|save-group-framing", format!("after {hist:?} group {gi} saved by the session ({vname}) is not MVER + an MOGP with a 68-byte header that reaches the end of the file"), json!({"history": hist, "head": vh_common::hex(&gb[..gb.len().min(24)]), "len": gb.len()}));
            continue;
        }
        match lib(|| parse_wmo(&mut Cursor::new(gb))) {
            Err(p) => c.violate(format!("editor-history-panic|parse_wmo|{}", p.sig()), format!("parse_wmo panicked on group {gi} saved after {hist:?}: {}", p.msg), json!({"history": hist})),
            Ok(Ok(ParsedWmo::Group(g))) => {
                c.count("editor_history_groups_parsed", 1);
                for (item, gv) in &proj_group_api(&g) {
                    if *item == "doodad_refs" {
                        continue; // see EXCLUSIONS
                    }
                    c.count("editor_history_items_compared", 1);
                    if want[item] != *gv {
                        c.violate(format!("editor-history|save-group-roundtrip|{item}"), format!("after {hist:?} group {gi} saved by the session ({vname}) reads back with other {item}: session {} file {}", clip(&want[item]), clip(gv)), json!({"history": hist, "version": vname, "diff": diff_detail(&want[item], gv)}));
                    }
                }
            }
            Ok(Ok(ParsedWmo::Root(_))) => c.violate("editor-history|save-group-roundtrip|file-type", format!("parse_wmo classified group {gi} saved after {hist:?} as a root file"), json!({"history": hist})),
            Ok(Err(e)) => c.violate("editor-history|save-group-parse-err", format!("parse_wmo rejects group {gi} saved after {hist:?} ({vname}): {e}"), json!({"history": hist, "err": e})),
        }
    }
}


// ------------------------------------------------------------------ root: conversions over all version pairs

fn convert_root_pairs(c: &mut Case, seed: &[u8], s: &RootSpec) {
    let conv = WmoConverter::new();
    let w = WmoWriter::new();
    {
        for (from, to) in conversion_pairs(c.idx) {
            let pair = format!("{}->{}", VERS[from].1, VERS[to].1);
            // source: the spec as a valid root of version `from`; expectation: the spec as a valid root of version
            // `to`, restricted to what `from` could carry (skybox only if both support it, shadow-batch material
            // flags only if both are MoP)
            let (Ok(mut obj), Ok(mut exp)) = (build_root(seed, s, from, true), build_root(seed, s, from.min(to), true)) else {
                c.violate("seed-parse|root", "seed parse failed while building conversion objects", json!({}));
                return;
            };
            exp.version = VERS[to].0;
            // both versions on the same side of the extended-materials boundary carry the same material flag word (the
            // write -> parse legs above show every bit coming back in every version): between such versions the
            // shadow-batch bits are content representable in both and stay (after C15-r6m2)
            if (from < MOP) == (to < MOP) && from != to {
                for (k, x) in s.materials.iter().enumerate() {
                    obj.materials[k].flags = WmoMaterialFlags::from_bits_truncate(x.flags);
                    exp.materials[k].flags = WmoMaterialFlags::from_bits_truncate(x.flags);
                }
                c.count("root_conversions_with_raw_material_flags", 1);
            }
            match lib(|| conv.convert_root(&mut obj, VERS[to].0)) {
                Err(p) => {
                    c.violate(format!("convert-panic|root|{}|{pair}", p.sig()), format!("convert_root panicked: {}", p.msg), json!({}));
                    continue;
                }
                Ok(Err(e)) => {
                    c.count("convert_err|root", 1);
                    c.violate(format!("convert|root.error|{pair}"), format!("convert_root {pair} returned an error for a supported pair: {e}"), json!({"err": e}));
                    continue;
                }
                Ok(Ok(())) => {}
            }
            c.count("root_conversions", 1);
            if obj.version != VERS[to].0 {
                c.violate(format!("convert|root.version|{pair}"), format!("after convert_root {pair} the version field is {:?}", obj.version), json!({}));
            }
            let (got, want) = (proj_root(&obj), proj_root(&exp));
            for (item, wv) in &want {
                c.count("convert_items_compared", 1);
                let gv = &got[item];
                if gv != wv {
                    c.violate(format!("convert|root.{item}|{pair}"), format!("convert_root {pair} changed {item}: want {} got {}", clip(wv), clip(gv)), diff_detail(wv, gv));
                }
            }
            // the converted object and the expectation must also serialise identically for the target version
            let wr = |r: &WmoRoot| {
                lib(|| {
                    let mut cur = Cursor::new(Vec::new());
                    w.write_root(&mut cur, r, VERS[to].0).map(|_| cur.into_inner())
                })
            };
            if let (Ok(Ok(a)), Ok(Ok(b))) = (wr(&obj), wr(&exp)) {
                c.count("convert_bytes_compared", 1);
                if a != b {
                    let parts = rewrite_diff(&b, &a, ROOT_MAGICS);
                    c.violate(format!("convert|root.bytes|{pair}"), format!("converted root serialises differently from the same content built for the target version: {parts:?}"), json!({"parts": parts}));
                }
            }
        }
    }
}

// ------------------------------------------------------------------ group: spec, generator, builder

struct BatchS {
    flags: [u8; 10],
    mat: u16,
    start: u32,
    count: u16,
    sv: u16,
    ev: u16,
    large: bool,
}
struct BspS {
    axis: u8, // 0 = x, 1 = y, 2 = z (axis-aligned unit normal: the only planes the on-disk node can carry)
    neg: bool,
    dist: f32,
    ch: [i16; 2],
    first: u16,
    n: u16,
}
struct LiqS {
    ty: u32,
    flags: u32,
    w: u32,
    h: u32,
    verts: Vec<([f32; 3], f32)>,
    tiles: Option<Vec<u8>>,
}
struct GroupSpec {
    name_off: u32,
    flags: u32,
    bb: [f32; 6],
    gidx: u32,
    materials: Vec<u16>,
    verts: Vec<[f32; 3]>,
    normals: Vec<[f32; 3]>,
    tcs: Vec<[f32; 2]>,
    indices: Vec<u16>,
    colors: Option<Vec<[u8; 4]>>,
    batches: Vec<BatchS>,
    bsp: Option<Vec<BspS>>,
    liquid: Option<LiqS>,
    drefs: Option<Vec<u16>>,
    pattern: String,
}

fn gen_group(r: &mut Rng, idx: u64, many_max: u64, force: Option<(usize, usize)>) -> GroupSpec {
    let mut e = [0u64; 9];
    for x in e.iter_mut() {
        *x = match idx {
            0 => 0,
            1 => 1,
            2 => 2,
            _ => r.below(3),
        };
    }
    let names = ["vtx", "nrm", "tcs", "idx", "col", "bat", "bsp", "liq", "drf"];
    if let Some((fk, _)) = force {
        e[fk] = 2; // the forced list takes the "many" branch of the Option-valued lists
    }
    let pattern: String = names
        .iter()
        .zip(e.iter())
        .enumerate()
        .map(|(k, (n, x))| match force {
            Some((fk, fnum)) if fk == k => format!("{n}{}", big_tag(fnum)),
            _ => format!("{n}{}", ["0", "1", "m"][*x as usize]),
        })
        .collect::<Vec<_>>()
        .join(":");
    let n_of = |k: usize, r: &mut Rng| -> usize {
        match force {
            Some((fk, fnum)) if fk == k => fnum,
            _ => n_of(e[k], r, many_max),
        }
    };
    let verts = (0..n_of(0, r)).map(|_| v3any(r)).collect();
    let normals = (0..n_of(1, r)).map(|_| v3any(r)).collect();
    let tcs = (0..n_of(2, r)).map(|_| [fany(r), fany(r)]).collect();
    let indices = (0..n_of(3, r) * 3).map(|_| r.next_u32() as u16).collect();
    let colors = match e[4] {
        0 => if r.bool() { None } else { Some(vec![]) },
        _ => Some((0..n_of(4, r)).map(|_| col_any(r)).collect()),
    };
    let batches = (0..n_of(5, r))
        .map(|_| {
            let b = r.bytes(10);
            let mut flags = [0u8; 10];
            flags.copy_from_slice(&b);
            BatchS { flags, mat: r.next_u32() as u16, start: r.next_u32(), count: r.next_u32() as u16, sv: r.next_u32() as u16, ev: r.next_u32() as u16, large: r.bool() }
        })
        .collect();
    let bsp = match e[6] {
        0 => if r.bool() { None } else { Some(vec![]) },
        _ => Some(
            (0..n_of(6, r))
                .map(|_| BspS { axis: r.below(3) as u8, neg: r.bool(), dist: fany(r), ch: [r.next_u32() as i16, r.next_u32() as i16], first: r.next_u32() as u16, n: r.next_u32() as u16 })
                .collect(),
        ),
    };
    let liquid = match e[7] {
        0 => None,
        k => {
            let (w, h) = if k == 1 { (1, 1) } else { (1 + r.below(4) as u32, 1 + r.below(4) as u32) };
            Some(LiqS {
                ty: 1000 + (r.next_u32() & 0xFFFF),
                flags: r.next_u32(),
                w,
                h,
                verts: (0..w * h).map(|_| ([fnice(r), fnice(r), fnice(r)], fnice(r))).collect(),
                tiles: if r.bool() { Some(r.bytes(((w - 1) * (h - 1)) as usize)) } else { None },
            })
        }
    };
    let drefs = match e[8] {
        0 => if r.bool() { None } else { Some(vec![]) },
        _ => Some((0..n_of(8, r)).map(|_| r.next_u32() as u16).collect()),
    };
    GroupSpec {
        name_off: r.next_u32(),
        flags: r.next_u32() & 0x3FFFF,
        bb: [fany(r), fany(r), fany(r), fany(r), fany(r), fany(r)],
        gidx: r.below(65536) as u32,
        materials: (0..r.usize(4)).map(|_| r.next_u32() as u16).collect(),
        verts,
        normals,
        tcs,
        indices,
        colors,
        batches,
        bsp,
        liquid,
        drefs,
        pattern,
    }
}

fn group_desc(s: &GroupSpec) -> Value {
    json!({"kind": "group", "pattern": s.pattern, "vertices": s.verts.len(), "normals": s.normals.len(), "tex_coords": s.tcs.len(), "indices": s.indices.len(),
        "colors": s.colors.as_ref().map(|x| x.len()), "batches": s.batches.len(), "bsp_nodes": s.bsp.as_ref().map(|x| x.len()),
        "liquid": s.liquid.as_ref().map(|l| json!({"w": l.w, "h": l.h, "tiles": l.tiles.is_some()})), "doodad_refs": s.drefs.as_ref().map(|x| x.len()),
        "flags": format!("{:#x}", s.flags), "name_offset": s.name_off, "group_index": s.gidx})
}

/// Flags the library's feature model allows for a group of version vi (MOUNT_ALLOWED only from Legion on,
/// the three scene-graph / motion / exterior-BSP bits only from Cataclysm on).
fn valid_group_flags(flags: u32, vi: usize) -> u32 {
    let mut f = if vi < LEGION { flags & !WmoGroupFlags::MOUNT_ALLOWED.bits() } else { flags };
    if vi < CATA {
        f &= !(WmoGroupFlags::HAS_MORE_MOTION_TYPES | WmoGroupFlags::USE_SCENE_GRAPH | WmoGroupFlags::EXTERIOR_BSP).bits();
    }
    f
}

/// Struct literals: unavoidable here, the legacy group types have neither `Default` nor a working parser.
fn build_group(s: &GroupSpec, flags: u32) -> WmoGroup {
    let mut g = build_group_exact(s, flags);
    // spare capacity everywhere: a count taken from capacity() instead of len() must show
    g.vertices.reserve(5);
    g.normals.reserve(5);
    g.tex_coords.reserve(5);
    g.batches.reserve(5);
    g.indices.reserve(5);
    if let Some(v) = g.vertex_colors.as_mut() {
        v.reserve(5);
    }
    if let Some(v) = g.bsp_nodes.as_mut() {
        v.reserve(5);
    }
    if let Some(v) = g.doodad_refs.as_mut() {
        v.reserve(5);
    }
    if let Some(l) = g.liquid.as_mut() {
        l.vertices.reserve(5);
    }
    g
}
fn build_group_exact(s: &GroupSpec, flags: u32) -> WmoGroup {
    let zero = Vec3::default();
    WmoGroup {
        header: WmoGroupHeader {
            flags: WmoGroupFlags::from_bits_truncate(flags),
            bounding_box: BoundingBox { min: mkv3([s.bb[0], s.bb[1], s.bb[2]]), max: mkv3([s.bb[3], s.bb[4], s.bb[5]]) },
            name_offset: s.name_off,
            group_index: s.gidx,
        },
        materials: s.materials.clone(),
        vertices: s.verts.iter().map(|v| mkv3(*v)).collect(),
        normals: s.normals.iter().map(|v| mkv3(*v)).collect(),
        tex_coords: s
            .tcs
            .iter()
            .map(|t| {
                let mut x = TexCoord::default();
                x.u = t[0];
                x.v = t[1];
                x
            })
            .collect(),
        batches: s.batches.iter().map(|b| WmoBatch { flags: b.flags, material_id: b.mat, start_index: b.start, count: b.count, start_vertex: b.sv, end_vertex: b.ev, use_large_material_id: b.large }).collect(),
        indices: s.indices.clone(),
        vertex_colors: s.colors.as_ref().map(|v| v.iter().map(|x| mkcol(*x)).collect()),
        bsp_nodes: s.bsp.as_ref().map(|v| {
            v.iter()
                .map(|n| {
                    let mut nv = zero;
                    let one = if n.neg { -1.0 } else { 1.0 };
                    match n.axis {
                        0 => nv.x = one,
                        1 => nv.y = one,
                        _ => nv.z = one,
                    }
                    WmoBspNode { plane: WmoPlane { normal: nv, distance: n.dist }, children: n.ch, first_face: n.first, num_faces: n.n }
                })
                .collect()
        }),
        liquid: s.liquid.as_ref().map(|l| WmoLiquid {
            liquid_type: l.ty,
            flags: l.flags,
            width: l.w,
            height: l.h,
            vertices: l.verts.iter().map(|(p, h)| WmoLiquidVertex { position: mkv3(*p), height: *h }).collect(),
            tile_flags: l.tiles.clone(),
        }),
        doodad_refs: s.drefs.clone(),
    }
}

// ------------------------------------------------------------------ group: projections

fn bsp_axis(n: &Vec3) -> u16 {
    if n.x != 0.0 { 0 } else if n.y != 0.0 { 1 } else { 2 }
}
fn batch_row(first12: &[u8], start: u32, count: u16, sv: u16, ev: u16, fl: u8, mat: u8) -> String {
    format!("({:?},{start},{count},{sv},{ev},{fl},{mat})", first12)
}
/// Projection of a legacy WmoGroup in on-disk terms (the shapes the walker and parse_wmo projections use).
/// `Some(empty)` and `None` are the same content (nothing is written for either).
fn proj_group(g: &WmoGroup) -> Proj {
    let mut m = Proj::new();
    m.insert("vertices", format!("{:?}", g.vertices.iter().map(v3b).collect::<Vec<_>>()));
    m.insert("normals", format!("{:?}", g.normals.iter().map(v3b).collect::<Vec<_>>()));
    m.insert("tex_coords", format!("{:?}", g.tex_coords.iter().map(|t| [fb(t.u), fb(t.v)]).collect::<Vec<_>>()));
    m.insert("indices", format!("{:?}", g.indices));
    m.insert("colors", format!("{:?}", g.vertex_colors.as_ref().map(|v| v.iter().map(colb).collect::<Vec<_>>()).unwrap_or_default()));
    m.insert(
        "batches",
        g.batches
            .iter()
            .map(|b| {
                let mut f = b.flags.to_vec();
                f.extend(b.material_id.to_le_bytes());
                batch_row(&f, b.start_index, b.count, b.start_vertex, b.end_vertex, b.use_large_material_id as u8, b.material_id as u8)
            })
            .collect::<Vec<_>>()
            .join(";"),
    );
    m.insert(
        "bsp_nodes",
        format!("{:?}", g.bsp_nodes.as_ref().map(|v| v.iter().map(|n| (bsp_axis(&n.plane.normal), n.children[0], n.children[1], n.num_faces, n.first_face as u32, fb(n.plane.distance))).collect::<Vec<_>>()).unwrap_or_default()),
    );
    m.insert("doodad_refs", format!("{:?}", g.doodad_refs.clone().unwrap_or_default()));
    m.insert(
        "liquid",
        match &g.liquid {
            None => "none".into(),
            Some(l) => format!("{:?}", (l.width, l.height, l.width.wrapping_sub(1), l.height.wrapping_sub(1), l.vertices.iter().map(|v| fb(v.height)).collect::<Vec<_>>(), l.tile_flags.clone().unwrap_or_default())),
        },
    );
    m.insert("liquid.present", format!("{}", g.liquid.is_some()));
    m.insert("header.name_offset", format!("{}", g.header.name_offset));
    m.insert("header.flags", format!("{:#x}", g.header.flags.bits()));
    m.insert("header.bounding_box", format!("{:?}", bbb(&g.header.bounding_box)));
    m
}
/// Fields of the legacy in-memory type that have no place in the on-disk projection (conversions compare them too).
fn proj_group_extra(g: &WmoGroup) -> Proj {
    let mut m = Proj::new();
    m.insert("materials", format!("{:?}", g.materials));
    m.insert("header.group_index", format!("{}", g.header.group_index));
    m.insert(
        "liquid.legacy",
        match &g.liquid {
            None => "none".into(),
            Some(l) => format!("{:?}", (l.liquid_type, l.flags, l.vertices.iter().map(|v| v3b(&v.position)).collect::<Vec<_>>())),
        },
    );
    m
}

/// Independent decode of the sub-chunks found by the walker, written against the format description
/// (MOVT 12, MOVI 2, MONR 12, MOTV 8, MOCV BGRA 4, MOBA 24, MOBN 16 = flags,neg,pos,nFaces,faceStart,dist,
/// MLIQ 30-byte header + 8-byte vertices + 1-byte tiles, MODR 2).  Only chunks present in `cks` yield an item.
fn decode_group_chunks(buf: &[u8], cks: &[Ck]) -> Proj {
    let mut m = Proj::new();
    let recs = |id: &str, n: usize| -> Option<Vec<&[u8]>> {
        let c = find(cks, id)?;
        let d = &buf[c.lo..c.hi];
        if d.len() % n != 0 {
            return Some(vec![]);
        }
        Some(d.chunks(n).collect())
    };
    let bad = |id: &str| -> bool { find(cks, id).map(|c| c.hi - c.lo).unwrap_or(0) > 0 };
    let v3list = |id: &str| recs(id, 12).map(|r| format!("{:?}", r.iter().map(|x| [u32at(x, 0), u32at(x, 4), u32at(x, 8)]).collect::<Vec<_>>()));
    for (item, id) in [("vertices", "MOVT"), ("normals", "MONR")] {
        if let Some(s) = v3list(id) {
            m.insert(item, if s == "[]" && bad(id) { format!("<{id} size not a multiple of 12>") } else { s });
        }
    }
    if let Some(r) = recs("MOTV", 8) {
        m.insert("tex_coords", format!("{:?}", r.iter().map(|x| [u32at(x, 0), u32at(x, 4)]).collect::<Vec<_>>()));
    }
    if let Some(r) = recs("MOVI", 2) {
        m.insert("indices", format!("{:?}", r.iter().map(|x| u16at(x, 0)).collect::<Vec<_>>()));
    }
    if let Some(r) = recs("MOCV", 4) {
        m.insert("colors", format!("{:?}", r.iter().map(|x| [x[2], x[1], x[0], x[3]]).collect::<Vec<_>>()));
    }
    if let Some(r) = recs("MOBA", 24) {
        m.insert("batches", r.iter().map(|x| batch_row(&x[0..12], u32at(x, 12), u16at(x, 16), u16at(x, 18), u16at(x, 20), x[22], x[23])).collect::<Vec<_>>().join(";"));
    }
    if let Some(r) = recs("MOBN", 16) {
        m.insert("bsp_nodes", format!("{:?}", r.iter().map(|x| (u16at(x, 0), i16at(x, 2), i16at(x, 4), u16at(x, 6), u32at(x, 8), u32at(x, 12))).collect::<Vec<_>>()));
    }
    if let Some(r) = recs("MODR", 2) {
        m.insert("doodad_refs", format!("{:?}", r.iter().map(|x| u16at(x, 0)).collect::<Vec<_>>()));
    }
    if let Some(c) = find(cks, "MLIQ") {
        let d = &buf[c.lo..c.hi];
        let s = if d.len() < 30 {
            format!("<MLIQ of {} bytes: shorter than its 30-byte header>", d.len())
        } else {
            let (xv, yv, xt, yt) = (u32at(d, 0) as u64, u32at(d, 4) as u64, u32at(d, 8) as u64, u32at(d, 12) as u64);
            if xv > 4096 || yv > 4096 || xt > 4096 || yt > 4096 || 30 + 8 * xv * yv + xt * yt != d.len() as u64 {
                format!("<MLIQ of {} bytes does not hold xverts {xv} x yverts {yv} vertices and xtiles {xt} x ytiles {yt} tiles>", d.len())
            } else {
                let nv = (xv * yv) as usize;
                let hs: Vec<u32> = (0..nv).map(|i| u32at(d, 30 + 8 * i + 4)).collect();
                format!("{:?}", (xv as u32, yv as u32, xt as u32, yt as u32, hs, d[30 + 8 * nv..].to_vec()))
            }
        };
        m.insert("liquid", s);
    }
    m
}

fn proj_group_api(g: &wow_wmo::group_parser::WmoGroup) -> Proj {
    let mut m = Proj::new();
    m.insert("vertices", format!("{:?}", g.vertex_positions.iter().map(|v| [fb(v.x), fb(v.y), fb(v.z)]).collect::<Vec<_>>()));
    m.insert("normals", format!("{:?}", g.vertex_normals.iter().map(|v| [fb(v.x), fb(v.y), fb(v.z)]).collect::<Vec<_>>()));
    m.insert("tex_coords", format!("{:?}", g.texture_coords.iter().map(|t| [fb(t.u), fb(t.v)]).collect::<Vec<_>>()));
    m.insert("indices", format!("{:?}", g.vertex_indices));
    m.insert("colors", format!("{:?}", g.vertex_colors.iter().map(|c| [c.r, c.g, c.b, c.a]).collect::<Vec<_>>()));
    m.insert(
        "batches",
        g.render_batches
            .iter()
            .map(|b| {
                let mut f = Vec::new();
                for x in b.bounding_box_min.iter().chain(b.bounding_box_max.iter()) {
                    f.extend(x.to_le_bytes());
                }
                batch_row(&f, b.start_index, b.count, b.min_index, b.max_index, b.flags, b.material_id)
            })
            .collect::<Vec<_>>()
            .join(";"),
    );
    m.insert("bsp_nodes", format!("{:?}", g.bsp_nodes.iter().map(|n| (n.flags, n.neg_child, n.pos_child, n.n_faces, n.face_start, fb(n.plane_distance))).collect::<Vec<_>>()));
    m.insert("doodad_refs", format!("{:?}", g.doodad_refs));
    m.insert("liquid.present", format!("{}", g.liquid_header.is_some()));
    m.insert("header.name_offset", format!("{}", g.group_name_index));
    m.insert("header.flags", format!("{:#x}", g.flags));
    m.insert("header.bounding_box", format!("{:?}", g.bounding_box.iter().map(|f| fb(*f)).collect::<Vec<_>>()));
    m
}

// ------------------------------------------------------------------ group: checks

fn check_group_case(c: &mut Case, s: &GroupSpec) {
    let mut agg = Agg::default();
    let w = WmoWriter::new();
    let lpred = if s.liquid.is_some() { "liquid-present" } else { "no-liquid" };
    for vi in 0..VERS.len() {
        let (ver, vname) = VERS[vi];
        let model = build_group(s, s.flags);
        let want = proj_group(&model);
        let write = |g: &WmoGroup| {
            lib(|| {
                let mut cur = Cursor::new(Vec::new());
                w.write_group(&mut cur, g, ver).map(|_| cur.into_inner())
            })
        };
        let b1 = match write(&model) {
            Err(p) => {
                agg.check("group-write-panic", &p.sig(), lpred, vi, false, || (format!("write_group panicked: {}", p.msg), json!({"file": p.file})));
                continue;
            }
            Ok(Err(e)) => {
                c.count(&format!("write_err|group|{vname}"), 1);
                c.note(json!({"write_group_err": e, "version": vname}));
                continue;
            }
            Ok(Ok(b)) => b,
        };
        c.count("groups_written", 1);
        c.count(&format!("groups_written|{vname}"), 1);
        // ---- the same group into sinks of other shapes (after C15-r3m3 / C15-r6m3): a stream that already holds data in
        // front of the writer's position (root + groups back to back, a container header) and / or behind it (a buffer or
        // file reused for a group that became shorter). What the writer wrote is the stretch from where it started to where
        // it stopped: those bytes are the group, whatever stood in front stays, and a fresh write gives the same bytes.
        {
            let mut r = Rng::for_case(0x51AC, c.idx, vi as u64);
            for shape in 0..3 {
                let pre = if shape == 1 { 0 } else { 1 + r.usize(300) };
                let post = if shape == 0 { 0 } else { 1 + r.usize(2 * b1.len() + 64) };
                let mut buf = vec![0xA5u8; pre];
                buf.extend(std::iter::repeat(0x5Au8).take(if shape == 0 { 0 } else { b1.len() + post }));
                let res = lib(|| {
                    let mut cur = Cursor::new(buf);
                    cur.set_position(pre as u64);
                    w.write_group(&mut cur, &model, ver).map(|_| (cur.position() as usize, cur.into_inner()))
                });
                let name = ["behind-a-prefix", "over-longer-content", "behind-a-prefix-over-longer-content"][shape];
                c.count("group_sink_shapes_checked", 1);
                match res {
                    Err(p) => agg.check("group-write-panic", &p.sig(), name, vi, false, || (format!("write_group panicked on a stream {name}: {}", p.msg), json!({}))),
                    Ok(Err(e)) => agg.check("write-depends-on-sink", "group", &format!("{name}-error"), vi, false, || (format!("write_group fails on a stream {name}: {e}"), json!({}))),
                    Ok(Ok((end, out))) => {
                        let ok = end == pre + b1.len() && out.len() >= end && out[pre..end] == b1[..] && out[..pre].iter().all(|&x| x == 0xA5);
                        agg.check("write-depends-on-sink", "group", name, vi, ok, || {
                            let d = if end <= out.len() && end >= pre { vh_common::first_diff(&out[pre..end], &b1) } else { 0 };
                            (format!("write_group into a stream holding {pre} bytes in front of and {} bytes from the start position on: the writer stopped at {end} (a fresh write is {} bytes long, so {} expected), the bytes between start and stop {} the fresh write (first difference at {d}), prefix intact: {}", out.len().saturating_sub(pre).min(b1.len() + post), b1.len(), pre + b1.len(), if end <= out.len() && end >= pre && out[pre..end] == b1[..] { "equal" } else { "differ from" }, out[..pre.min(out.len())].iter().all(|&x| x == 0xA5)), json!({"prefix": pre, "old_content": b1.len() + post, "stopped_at": end, "fresh_len": b1.len()}))
                        });
                    }
                }
            }
        }

        // ---- walker: MVER, MOGP and its back-patched size
        let top_ok = b1.len() >= 20 && &b1[0..4] == b"REVM" && u32at(&b1, 4) == 4 && u32at(&b1, 8) == ver.to_raw() && &b1[12..16] == b"PGOM";
        agg.check("chunk-framing", "group-mver-mogp", "-", vi, top_ok, || (format!("written group ({vname}) does not start with MVER({}) followed by MOGP", ver.to_raw()), json!({"head": vh_common::hex(&b1[..b1.len().min(24)])})));
        if !top_ok {
            continue;
        }
        let mogp_size = u32at(&b1, 16) as usize;
        let measured = b1.len() - 20;
        c.count("mogp_sizes_checked", 1);
        agg.check("mogp-size", "MOGP", "-", vi, mogp_size == measured, || (format!("MOGP size field {mogp_size} but the chunk's data extends {measured} bytes to the end of the file ({vname})"), json!({"field": mogp_size, "measured": measured})));
        let (lo, hi) = (20usize, b1.len());
        // sub-chunks start after the 68-byte group header of the format; detect what was actually written
        let starts_ok = |h: usize| lo + h == hi || (lo + h + 8 <= hi && GROUP_SUB.iter().any(|m| m.bytes().rev().eq(b1[lo + h..lo + h + 4].iter().copied())));
        // (36 is probed first: with a 36-byte header the first sub-chunks can happen to end exactly 68 bytes in,
        // whereas a 68-byte header carries counts and ids, never a chunk magic, at byte 36)
        let hlen = if starts_ok(36) {
            36
        } else if starts_ok(68) {
            68
        } else {
            agg.check("group-roundtrip|walker", "mogp-header", "header-unrecognised", vi, false, || (format!("no sub-chunk starts 68 (or 36) bytes into MOGP ({vname})"), json!({"mogp_bytes": measured})));
            continue;
        };
        c.count(&format!("mogp_header_len|{hlen}"), 1);
        agg.check("group-roundtrip|walker", "mogp-header", if hlen == 36 { "header-36-bytes" } else { "header-68-bytes" }, vi, hlen == 68, || {
            (format!("the written MOGP header is {hlen} bytes (name, flags, box, u16, group index); the format and the crate's own group parser use the 68-byte header ({vname})"), json!({"header_len": hlen}))
        });
        let (cks, ferr) = walk(&b1, lo + hlen, hi, GROUP_SUB);
        c.count("group_framing_checked", 1);
        agg.check("group-chunk-framing", &ferr.as_ref().map(|e| e.0.clone()).unwrap_or_else(|| "sub-chunks".into()), lpred, vi, ferr.is_none(), || {
            let (last, why) = ferr.clone().unwrap();
            (format!("sub-chunks of the written MOGP do not tile it: after {last}: {why} ({vname})"), json!({"after": last, "why": why, "chunks": cks.iter().map(|k| format!("{}:{}", k.id, k.hi - k.lo)).collect::<Vec<_>>()}))
        });
        let got = decode_group_chunks(&b1, &cks);
        for (item, id) in [("vertices", "MOVT"), ("indices", "MOVI"), ("normals", "MONR"), ("tex_coords", "MOTV"), ("colors", "MOCV"), ("batches", "MOBA"), ("bsp_nodes", "MOBN"), ("liquid", "MLIQ"), ("doodad_refs", "MODR")] {
            let empty = if item == "liquid" { "none" } else if item == "batches" { "" } else { "[]" };
            let pred = if item == "liquid" { lpred } else { "-" };
            if item == "liquid" && vi >= WOD && s.liquid.is_some() {
                // the walker's MLIQ layout is the format's (MVER 17); from Wod on the crate writes its own 16-byte vertices under
                // its own MVER numbers, for which there is no independent description: framing (above) and presence (parse_wmo) only
                c.count("liquid_layout_from_wod_on_observed_not_judged|walker", 1);
                continue;
            }
            if item == "doodad_refs" {
                // not among the lists the statement names: observed and tallied, never a violation
                let g = got.get(item).map(|x| x.as_str()).unwrap_or(empty);
                let unreached = !got.contains_key(item) && ferr.is_some() && want[item] != empty;
                c.count(if unreached { "extra_doodad_refs_unreached_after_framing_break|walker" } else if g == want[item] { "extra_doodad_refs_equal|walker" } else { "extra_doodad_refs_differ|walker" }, 1);
                continue;
            }
            match got.get(item) {
                Some(g) => agg.cmp(c, "group-roundtrip|walker", item, pred, vi, &want[item], g),
                None if ferr.is_some() && want[item] != empty => c.count("group_lists_unreached_after_framing_break", 1),
                None => agg.cmp(c, "group-roundtrip|walker", item, pred, vi, &want[item], empty),
            }
            let _ = id;
        }
        // header fields
        let h = &b1[lo..lo + hlen];
        if hlen == 68 {
            agg.cmp(c, "group-roundtrip|walker", "header.name_offset", "-", vi, &want["header.name_offset"], &format!("{}", u32at(h, 0)));
            agg.cmp(c, "group-roundtrip|walker", "header.flags", "-", vi, &want["header.flags"], &format!("{:#x}", u32at(h, 8)));
            agg.cmp(c, "group-roundtrip|walker", "header.bounding_box", "-", vi, &want["header.bounding_box"], &format!("{:?}", (0..6).map(|k| u32at(h, 12 + 4 * k)).collect::<Vec<_>>()));
        } else {
            // compatibility decode of the 36-byte header the writer emits today; keeps the header fields under
            // observation while the 68-byte defect is a known finding
            agg.cmp(c, "group-roundtrip|walker36", "header.name_offset", "-", vi, &want["header.name_offset"], &format!("{}", u32at(h, 0)));
            agg.cmp(c, "group-roundtrip|walker36", "header.flags", "-", vi, &want["header.flags"], &format!("{:#x}", u32at(h, 4)));
            agg.cmp(c, "group-roundtrip|walker36", "header.bounding_box", "-", vi, &want["header.bounding_box"], &format!("{:?}", (0..6).map(|k| u32at(h, 8 + 4 * k)).collect::<Vec<_>>()));
            agg.cmp(c, "group-roundtrip|walker36", "header.group_index", "-", vi, &format!("{}", s.gidx), &format!("{}", u16at(h, 34)));
        }

        // ---- (a) parse_wmo (the only library parser that reads group files)
        if hlen == 36 {
            // the parser consumes 68 header bytes: every item would differ; one signature for the one defect
            agg.check("group-roundtrip|parse_wmo", "all-content", "header-36-bytes", vi, false, || (format!("parse_wmo reads a 68-byte MOGP header, the writer emitted 36: no content of the group can read back ({vname})"), json!({})));
        }
        if mogp_size < 68 {
            // parse_group_file computes `size - 68` unchecked; not called (it would request ~4 GiB)
            c.count("parse_wmo_not_called_mogp_lt_68", 1);
        } else {
            match lib(|| parse_wmo(&mut Cursor::new(&b1))) {
                Err(p) => agg.check("group-parse-panic|parse_wmo", &p.sig(), if hlen == 36 { "header-36-bytes" } else { "-" }, vi, false, || (format!("parse_wmo panicked on the writer's group: {}", p.msg), json!({}))),
                Ok(Err(e)) => agg.check("group-parse-err|parse_wmo", "own-output", if hlen == 36 { "header-36-bytes" } else { "-" }, vi, false, || (format!("parse_wmo rejected the writer's group ({vname}): {e}"), json!({"err": e}))),
                Ok(Ok(ParsedWmo::Root(_))) => agg.check("group-roundtrip|parse_wmo", "file-type", "-", vi, false, || (format!("parse_wmo classified the written group as a root file ({vname})"), json!({}))),
                Ok(Ok(ParsedWmo::Group(g))) => {
                    c.count("groups_parsed|parse_wmo", 1);
                    agg.cmp(c, "group-roundtrip|parse_wmo", "mver", "-", vi, &ver.to_raw().to_string(), &g.version.to_string());
                    alt_readers_group(c, &mut agg, vi, &b1, &g);
                    if hlen == 68 {
                        let got = proj_group_api(&g);
                        for (item, gv) in &got {
                            if *item == "doodad_refs" {
                                c.count(if *gv == want[item] { "extra_doodad_refs_equal|parse_wmo" } else { "extra_doodad_refs_differ|parse_wmo" }, 1);
                                continue;
                            }
                            let pred = if item.starts_with("liquid") { lpred } else { "-" };
                            agg.cmp(c, "group-roundtrip|parse_wmo", item, pred, vi, &want[item], gv);
                        }
                    }
                }
            }
        }

        // ---- (a)/(b) legacy group parser: returns the writer's own type, so a second write is possible
        match lib(|| WmoGroupParser::new().parse_group(&mut Cursor::new(&b1), s.gidx)) {
            Err(p) => agg.check("group-parse-panic|WmoGroupParser", &p.sig(), "-", vi, false, || (format!("WmoGroupParser::parse_group panicked: {}", p.msg), json!({}))),
            Ok(Err(e)) => {
                c.count("group_rewrite_not_checkable", 1);
                agg.check("group-parse-err|WmoGroupParser", "own-output", "-", vi, false, || (format!("WmoGroupParser::parse_group rejected the writer's group ({vname}): {e}"), json!({"err": e})))
            }
            Ok(Ok(g)) => {
                c.count("groups_parsed|WmoGroupParser", 1);
                let mut wantl = want.clone();
                wantl.extend(proj_group_extra(&model));
                let mut gotl = proj_group(&g);
                gotl.extend(proj_group_extra(&g));
                for (item, wv) in &wantl {
                    let pred = if item.starts_with("liquid") { lpred } else { "-" };
                    agg.cmp(c, "group-roundtrip|WmoGroupParser", item, pred, vi, wv, &gotl[item]);
                }
                match write(&g) {
                    Ok(Ok(b2)) => {
                        c.count("group_rewrites_compared", 1);
                        agg.check("rewrite-not-bytewise", "group", lpred, vi, b2 == b1, || (format!("second write of the parsed group differs ({vname}): first difference at byte {}", vh_common::first_diff(&b1, &b2)), json!({"len1": b1.len(), "len2": b2.len()})));
                    }
                    _ => agg.check("rewrite-not-bytewise", "group|write-failed", lpred, vi, false, || ("second write_group failed".into(), json!({}))),
                }
            }
        }
        // the writer must at least be a function of its input
        if let Ok(Ok(b1b)) = write(&model) {
            c.count("group_write_repeats", 1);
            agg.check("rewrite-not-bytewise", "group|same-object-twice", "-", vi, b1b == b1, || ("writing the same group object twice gave different bytes".into(), json!({})));
        }
    }
    agg.flush(c);

    // ---- (d) conversions over all version pairs
    let conv = WmoConverter::new();
    {
        for (from, to) in conversion_pairs(c.idx) {
            let pair = format!("{}->{}", VERS[from].1, VERS[to].1);
            let mut obj = build_group(s, valid_group_flags(s.flags, from));
            let mut exp = build_group(s, valid_group_flags(s.flags, from.min(to)));
            match lib(|| conv.convert_group(&mut obj, VERS[to].0, VERS[from].0)) {
                Err(p) => {
                    c.violate(format!("convert-panic|group|{}|{pair}", p.sig()), format!("convert_group panicked: {}", p.msg), json!({}));
                    continue;
                }
                Ok(Err(e)) => {
                    c.count("convert_err|group", 1);
                    c.violate(format!("convert|group.error|{pair}"), format!("convert_group {pair} returned an error for a supported pair: {e}"), json!({"err": e}));
                    continue;
                }
                Ok(Ok(())) => {}
            }
            c.count("group_conversions", 1);
            // bit 0x2 of the liquid flag word is the crate's marker for its Wod+ liquid layout, not content that both versions
            // represent: across that boundary the bit is left to the converter (taken over into the expectation), every other
            // bit of the word must stay
            if (from < WOD) != (to < WOD) {
                if let (Some(lo), Some(le)) = (obj.liquid.as_ref(), exp.liquid.as_mut()) {
                    le.flags = (le.flags & !0x2) | (lo.flags & 0x2);
                    c.count("group_conversions_across_the_liquid_layout_boundary", 1);
                }
            }
            let (mut got, mut want) = (proj_group(&obj), proj_group(&exp));
            got.extend(proj_group_extra(&obj));
            want.extend(proj_group_extra(&exp));
            for (item, wv) in &want {
                c.count("convert_items_compared", 1);
                if &got[item] != wv {
                    c.violate(format!("convert|group.{item}|{pair}"), format!("convert_group {pair} changed {item}: want {} got {}", clip(wv), clip(&got[item])), diff_detail(wv, &got[item]));
                }
            }
            let wr = |g: &WmoGroup| {
                lib(|| {
                    let mut cur = Cursor::new(Vec::new());
                    w.write_group(&mut cur, g, VERS[to].0).map(|_| cur.into_inner())
                })
            };
            let direct = wr(&obj);
            if let (Ok(Ok(a)), Ok(Ok(b))) = (&direct, wr(&exp)) {
                c.count("convert_bytes_compared", 1);
                if *a != b {
                    c.violate(format!("convert|group.bytes|{pair}"), format!("converted group serialises differently from the same content built for the target version (first difference at byte {})", vh_common::first_diff(a, &b)), json!({}));
                }
            }
            // the same conversion through the editor session (load root + group, convert_to_version, save_group): what it saves is
            // the group converted and written for the version the session now has
            let targets: Vec<(WmoVersion, String)> = vec![(VERS[to].0, pair.clone())];
            for (tver, pair) in targets {
            let a: Result<Result<Vec<u8>, String>, PanicInfo> = if tver == VERS[to].0 { match &direct { Ok(Ok(x)) => Ok(Ok(x.clone())), _ => Ok(Err("direct conversion not available".into())) } } else { Ok(Ok(Vec::new())) };
            if let (Ok(Ok(a)), Ok(mut root)) = (&a, WmoParser::new().parse_root(&mut Cursor::new(seed_root()))) {
                root.version = VERS[from].0;
                let mut g = build_group(s, valid_group_flags(s.flags, from));
                g.header.group_index = 0;
                let saved = lib(|| -> Result<Vec<u8>, wow_wmo::WmoError> {
                    let mut ed = wow_wmo::WmoEditor::new(root);
                    ed.add_group(g)?;
                    ed.convert_to_version(tver)?;
                    let mut cur = Cursor::new(Vec::new());
                    ed.save_group(&mut cur, 0)?;
                    Ok(cur.into_inner())
                });
                c.count("editor_sessions", 1);
                match saved {
                    Err(p) => c.violate(format!("convert-panic|editor|{}|{pair}", p.sig()), format!("editor session panicked: {}", p.msg), json!({})),
                    Ok(Err(e)) => {
                        c.count("editor_session_err", 1);
                        c.note(json!({"editor_session_err": format!("{pair}: {e}")}));
                    }
                    Ok(Ok(e)) => {
                        c.count("editor_saves_compared", 1);
                        // group_index is part of the header: compare with the direct conversion of the same group at index 0
                        let mut g0 = build_group(s, valid_group_flags(s.flags, from));
                        g0.header.group_index = 0;
                        let wr_t = |g: &WmoGroup| {
                            lib(|| {
                                let mut cur = Cursor::new(Vec::new());
                                w.write_group(&mut cur, g, tver).map(|_| cur.into_inner())
                            })
                        };
                        let want = lib(|| conv.convert_group(&mut g0, tver, VERS[from].0)).ok().and_then(|r| r.ok()).and_then(|_| wr_t(&g0).ok()).and_then(|r| r.ok()).unwrap_or_else(|| a.clone());
                        if e != want {
                            c.violate(format!("convert|editor-save-group.bytes|{pair}"), format!("WmoEditor: load, convert_to_version({tver:?}), save_group wrote bytes that differ from converting and writing the same group for that version (first difference at byte {})", vh_common::first_diff(&e, &want)), json!({}));
                        }
                    }
                }
            }
            }
        }
    }
}

// ------------------------------------------------------------------ main

fn main() {
    let mut run = Run::new();
    let thorough = run.args.thorough();
    THOROUGH.store(thorough, std::sync::atomic::Ordering::Relaxed);
    let (n_root, n_group, many_max): (u64, u64, u64) = if thorough { (250_000, 250_000, 40) } else { (9_000, 9_000, 9) };
    let seed = seed_root();
    let (mut root_samples, mut group_samples) = (0, 0);
    run.extra("versions", json!(VERS.iter().map(|v| v.1).collect::<Vec<_>>()));
    run.extra("conversion_pairs_per_object", json!(conversion_pairs(0).len()));
    // Boundary-size cases behind the regular index space: one list at a time is given a length at / just beyond / well beyond 4096
    // elements (the length up to which the parsers pre-allocate; real city-sized objects have several thousand definitions, vertices, ...),
    // the other lists stay random empty / one / many. (kind, list number, length); the liquid grid (group list 7) is not a flat list.
    let mut big: Vec<(bool, usize, usize)> = Vec::new();
    let mut brng = Rng::new(run.args.seed ^ 0xC15_B16);
    for rep in 0..if thorough { 6 } else { 1 } {
        for is_root in [true, false] {
            for k in (0..9).filter(|&k| is_root || k != 7) {
                let far = 4098 + brng.usize(1500);
                for n in if rep == 0 { vec![4096, 4097, far] } else { vec![far] } {
                    big.push((is_root, k, n));
                }
            }
        }
    }
    run.extra("boundary_size_cases", json!(big.len()));
    for idx in 0..n_root + n_group + big.len() as u64 {
        if !run.want(idx) {
            continue;
        }
        let mut rng = run.rng(idx, 0);
        if idx >= n_root + n_group {
            let (is_root, k, n) = big[(idx - n_root - n_group) as usize];
            if is_root {
                let spec = gen_root(&mut rng, idx, many_max, Some((k, n)));
                let class = format!("root|{}|n{}b{}d{}", spec.pattern, spec.names_differ as u8, spec.bbox_free as u8, spec.doodad_free as u8);
                run.case(idx, &class, root_desc(&spec), |c| check_root_case(c, &seed, &spec));
            } else {
                let spec = gen_group(&mut rng, idx, many_max, Some((k, n)));
                let class = format!("group|{}", spec.pattern);
                run.case(idx, &class, group_desc(&spec), |c| check_group_case(c, &spec));
            }
        } else if idx < n_root {
            let spec = gen_root(&mut rng, idx, many_max, None);
            let class = format!("root|{}|n{}b{}d{}", spec.pattern, spec.names_differ as u8, spec.bbox_free as u8, spec.doodad_free as u8);
            let desc = root_desc(&spec);
            if root_samples < 2 {
                // on the unchanged tree every case carries a known finding, so vh_common (which samples held cases only)
                // writes no sample; the supervisor module takes its samples from here
                root_samples += 1;
                run.extra("sample_cases", json!([{"i": idx, "class": class, "desc": desc}]));
            }
            run.case(idx, &class, desc, |c| check_root_case(c, &seed, &spec));
        } else {
            let spec = gen_group(&mut rng, idx - n_root, many_max, None);
            let class = format!("group|{}", spec.pattern);
            let desc = group_desc(&spec);
            if group_samples < 2 {
                group_samples += 1;
                run.extra("sample_cases", json!([{"i": idx, "class": class, "desc": desc}]));
            }
            run.case(idx, &class, desc, |c| check_group_case(c, &spec));
        }
    }
    run.done();
}
