//! TEMPORARY development bin (ADT + WMO modules only) — deleted before delivery.
#[path = "../c05_common.rs"]
mod c05_common;
#[path = "../c05_fmt_adt.rs"]
mod fmt_adt;
#[path = "../c05_fmt_wmo.rs"]
mod fmt_wmo;
#[global_allocator]
static A: c05_common::SiteAlloc = c05_common::SiteAlloc;
fn main() {
    let mut f = fmt_adt::formats();
    f.extend(fmt_wmo::formats());
    c05_common::worker_main(f, 2000, 50_000);
}
