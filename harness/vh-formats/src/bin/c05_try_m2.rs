//! TEMPORARY development bin (M2/skin/anim module only) — deleted before delivery.
#[path = "../c05_common.rs"]
mod c05_common;
#[path = "../c05_fmt_m2.rs"]
mod fmt_m2;
#[global_allocator]
static A: c05_common::SiteAlloc = c05_common::SiteAlloc;
fn main() {
    c05_common::worker_main(fmt_m2::formats(), 2000, 50_000);
}
