//! C16 — BLP encode -> parse is exact; lossless encodings preserve pixels. DESIGN.md §6 C16.
//!
//! One case = (image size, content class, target, mipmaps on/off, filter). For every case:
//!   x = image_to_blp(img)                     (a converter Err is a refusal: tallied, trivial case)
//!   bytes = encode_blp(x) / encode_blp0(x)    y = parse_blp(bytes) / parse_blp_with_externals(...)
//!   (a) y == x
//!   (b) with mipmaps the chain of y halves both dimensions down to 1x1 (level count from the larger side),
//!       checked on the stored data of every level (lengths / decoded JPEG dimensions), not on the header alone
//!   (c) an independent walker reads magic, dimensions and the 16 (offset,size) pairs straight from the bytes:
//!       every non-empty pair lies inside the file, behind the header/palette, and no two pairs overlap
//!   (d) raw3: blp_to_image(y,0) == source pixels;  raw1: every decoded colour is an entry of the palette read
//!       from the file bytes (and the entry selected by the stored index), decoded alpha is a quantisation of the
//!       source alpha to the declared depth.  JPEG / DXT: structure only.
//! Signatures are built from (clause | version | encoding | mip | structural trigger), never from sizes or content.

use image::{DynamicImage, GrayAlphaImage, GrayImage, ImageBuffer, Luma, LumaA, Rgb, Rgb32FImage, RgbImage, Rgba, Rgba32FImage, RgbaImage};
use serde_json::{Value, json};
use std::collections::HashSet;
use vh_common::{Case, Rng, Run, trap};
use wow_blp::convert::{AlphaBits, Blp2Format, BlpOldFormat, BlpTarget, DxtAlgorithm, FilterType, blp_to_image, image_to_blp};
use wow_blp::encode::{encode_blp, encode_blp0};
use wow_blp::parser::{load_blp_from_buf, no_mipmaps, parse_blp, parse_blp_with_externals, preloaded_mipmaps};
use wow_blp::types::{BlpContent, BlpImage};

// ------------------------------------------------------------------ case space ----

const SIZES: &[(u32, u32)] = &[(1, 1), (1, 2), (2, 1), (3, 5), (7, 8), (16, 16), (17, 31), (64, 1), (1, 64), (255, 256), (512, 512), (300, 200)];
/// further fixed sizes: small squares, non-square sizes whose sides share an octave (full chain even with the chain defect), texture-like 256x64
// the last two need all 16 entries of the mipmap locator table (floor(log2(side)) == 15)
const EXTRA_SIZES: &[(u32, u32)] = &[(32768, 1), (1, 40000), (1, 65535), (65535, 1), (2, 65534), (2, 2), (4, 4), (8, 8), (5, 7), (12, 9), (33, 63), (100, 127), (256, 64), (8, 2), (5, 1)];
const CONTENTS: &[&str] = &["transparent", "opaque", "le256", "gt256", "gradient"];
const FILTERS3: &[&str] = &["nearest", "triangle", "lanczos3"];
const FILTERS5: &[&str] = &["nearest", "triangle", "catmullrom", "gaussian", "lanczos3"];

#[derive(Clone, Copy, Debug, PartialEq)]
enum Enc {
    Raw1(u8),
    Raw3,
    Jpeg(bool),
    Dxt(u8, bool),
}

#[derive(Clone, Copy, Debug, PartialEq)]
struct Tgt {
    ver: u8,
    enc: Enc,
}

impl Tgt {
    fn ver_name(&self) -> &'static str {
        ["blp0", "blp1", "blp2"][self.ver as usize]
    }
    fn enc_name(&self) -> &'static str {
        match self.enc {
            Enc::Raw1(_) => "raw1",
            Enc::Raw3 => "raw3",
            Enc::Jpeg(_) => "jpeg",
            Enc::Dxt(1, _) => "dxt1",
            Enc::Dxt(3, _) => "dxt3",
            Enc::Dxt(_, _) => "dxt5",
        }
    }
    /// full target name (evidence / class), e.g. "blp1|raw1|a4", "blp2|dxt3|alpha1"
    fn name(&self) -> String {
        match self.enc {
            Enc::Raw1(d) => format!("{}|raw1|a{d}", self.ver_name()),
            Enc::Raw3 => format!("{}|raw3", self.ver_name()),
            Enc::Jpeg(a) => format!("{}|jpeg|alpha{}", self.ver_name(), a as u8),
            Enc::Dxt(_, a) => format!("{}|{}|alpha{}", self.ver_name(), self.enc_name(), a as u8),
        }
    }
    fn alpha_depth_class(&self) -> u8 {
        match self.enc {
            Enc::Raw1(d) => d,
            Enc::Raw3 => 8,
            Enc::Jpeg(a) => if a { 8 } else { 0 },
            Enc::Dxt(1, a) => a as u8,
            Enc::Dxt(_, a) => if a { 8 } else { 0 },
        }
    }
}

fn all_targets() -> Vec<Tgt> {
    let mut v = vec![];
    for ver in [0u8, 1] {
        for d in [0u8, 1, 4, 8] {
            v.push(Tgt { ver, enc: Enc::Raw1(d) });
        }
        for a in [false, true] {
            v.push(Tgt { ver, enc: Enc::Jpeg(a) });
        }
    }
    for d in [0u8, 1, 4, 8] {
        v.push(Tgt { ver: 2, enc: Enc::Raw1(d) });
    }
    v.push(Tgt { ver: 2, enc: Enc::Raw3 });
    for a in [false, true] {
        v.push(Tgt { ver: 2, enc: Enc::Jpeg(a) });
    }
    for k in [1u8, 3, 5] {
        for a in [false, true] {
            v.push(Tgt { ver: 2, enc: Enc::Dxt(k, a) });
        }
    }
    v
}

fn alpha_bits(d: u8) -> AlphaBits {
    match d {
        0 => AlphaBits::NoAlpha,
        1 => AlphaBits::Bit1,
        4 => AlphaBits::Bit4,
        _ => AlphaBits::Bit8,
    }
}

fn dxt_algo(name: &str) -> DxtAlgorithm {
    match name {
        "cluster" => DxtAlgorithm::ClusterFit,
        "iterative" => DxtAlgorithm::IterativeClusterFit,
        _ => DxtAlgorithm::RangeFit,
    }
}

fn blp_target(t: Tgt, algo: &str) -> BlpTarget {
    let old = |e: Enc| match e {
        Enc::Raw1(d) => BlpOldFormat::Raw1 { alpha_bits: alpha_bits(d) },
        Enc::Jpeg(a) => BlpOldFormat::Jpeg { has_alpha: a },
        _ => unreachable!(),
    };
    match t.ver {
        0 => BlpTarget::Blp0(old(t.enc)),
        1 => BlpTarget::Blp1(old(t.enc)),
        _ => BlpTarget::Blp2(match t.enc {
            Enc::Raw1(d) => Blp2Format::Raw1 { alpha_bits: alpha_bits(d) },
            Enc::Raw3 => Blp2Format::Raw3,
            Enc::Jpeg(a) => Blp2Format::Jpeg { has_alpha: a },
            Enc::Dxt(1, a) => Blp2Format::Dxt1 { has_alpha: a, compress_algorithm: dxt_algo(algo) },
            Enc::Dxt(3, a) => Blp2Format::Dxt3 { has_alpha: a, compress_algorithm: dxt_algo(algo) },
            Enc::Dxt(_, a) => Blp2Format::Dxt5 { has_alpha: a, compress_algorithm: dxt_algo(algo) },
        }),
    }
}

fn filter(name: &str) -> FilterType {
    match name {
        "nearest" => FilterType::Nearest,
        "triangle" => FilterType::Triangle,
        "catmullrom" => FilterType::CatmullRom,
        "gaussian" => FilterType::Gaussian,
        _ => FilterType::Lanczos3,
    }
}

#[derive(Clone, Debug)]
struct Spec {
    w: u32,
    h: u32,
    content: &'static str,
    tgt: Tgt,
    mip: bool,
    filter: &'static str,
    algo: &'static str,
    origin: &'static str,
    /// "auto": the generator's own Rgba8 / Rgb8 image; otherwise the DynamicImage variant the generated content is recast into
    src: &'static str,
}

/// DynamicImage variants other than Rgb8 / Rgba8 (image_to_blp takes any variant and converts with the image crate's into_rgba8)
const SRC_KINDS: &[&str] = &["Luma8", "LumaA8", "Luma16", "LumaA16", "Rgb16", "Rgba16", "Rgb32F", "Rgba32F"];
const VARIANT_SIZES: &[(u32, u32)] = &[(1, 1), (2, 2), (3, 5), (5, 3), (7, 8), (8, 2), (16, 16), (17, 31), (9, 4), (4, 4), (33, 7), (1, 9), (6, 6), (32, 32), (13, 1)];

fn random_size(rng: &mut Rng) -> (u32, u32) {
    match rng.below(12) {
        // non-square powers of two (the shapes real textures have): 256x64, 8x2, 4x16 ...
        0 | 1 => {
            let a = 1u32 << rng.below(10);
            let b = 1u32 << rng.below(10);
            (a, b)
        }
        // one side tiny
        2 => {
            if rng.bool() {
                (rng.range(1, 3) as u32, rng.range(1, 130) as u32)
            } else {
                (rng.range(1, 130) as u32, rng.range(1, 3) as u32)
            }
        }
        // around multiples of 4 / 8
        3 | 4 => {
            let a = (rng.range(1, 12) * 4) as i64 + rng.range(0, 2) as i64 - 1;
            let b = (rng.range(1, 12) * 4) as i64 + rng.range(0, 2) as i64 - 1;
            (a.max(1) as u32, b.max(1) as u32)
        }
        // both sides in the same octave [2^k, 2^(k+1)): non-square, yet both sides reach 1 at the same level
        5 | 6 | 7 => {
            let k = rng.below(8) as u32;
            let lo = 1u64 << k;
            (rng.range(lo, 2 * lo - 1) as u32, rng.range(lo, 2 * lo - 1) as u32)
        }
        8 => (rng.range(1, 200) as u32, rng.range(1, 200) as u32),
        9 => {
            let a = rng.range(1, 40) as u32;
            (a, a)
        }
        _ => (rng.range(1, 40) as u32, rng.range(1, 40) as u32),
    }
}

fn build_specs(thorough: bool, seed: u64) -> Vec<Spec> {
    let targets = all_targets();
    let mut sizes: Vec<(u32, u32)> = SIZES.to_vec();
    sizes.extend(EXTRA_SIZES);
    sizes.sort_by_key(|&(w, h)| w * h); // small first: case indices of the small sizes are the same in both tiers
    let mut v = vec![];
    // grid: sizes x contents x targets x (mip off | mip on x filters); thorough: all five filters, two images per point
    let filters: &[&'static str] = if thorough { FILTERS5 } else { FILTERS3 };
    for _rep in 0..(if thorough { 2 } else { 1 }) {
        for &(w, h) in &sizes {
            for &content in CONTENTS {
                for &tgt in &targets {
                    v.push(Spec { w, h, content, tgt, mip: false, filter: "nearest", algo: "range", origin: "grid", src: "auto" });
                    let rot = v.len() % filters.len();
                    for (fi, &f) in filters.iter().enumerate() {
                        // quick: the large images (slow) meet one filter per point, rotating
                        if !thorough && w * h >= 60000 && fi != rot {
                            continue;
                        }
                        v.push(Spec { w, h, content, tgt, mip: true, filter: f, algo: "range", origin: "grid", src: "auto" });
                    }
                }
            }
        }
    }
    // every small shape: all (w,h) in 1..=N x 1..=N x targets x mip on/off; content and filter rotate
    let n_small = if thorough { 20u32 } else { 9 };
    for w in 1..=n_small {
        for h in 1..=n_small {
            for (ti, &tgt) in targets.iter().enumerate() {
                for mip in [false, true] {
                    let k = (w + 3 * h) as usize + ti + seed as usize;
                    let content = CONTENTS[k % CONTENTS.len()];
                    let f = FILTERS5[(k / 5) % FILTERS5.len()];
                    v.push(Spec { w, h, content, tgt, mip, filter: if mip { f } else { "nearest" }, algo: "range", origin: "small-exhaustive", src: "auto" });
                }
            }
        }
    }
    // random sizes
    let n_random = if thorough { 150000 } else { 3000 };
    let mut rng = Rng::for_case(seed, 0xC16, 77);
    for k in 0..n_random {
        let (w, h) = random_size(&mut rng);
        let tgt = targets[(k + rng.usize(3)) % targets.len()];
        let content = *rng.pick(CONTENTS);
        let mip = rng.chance(2, 3);
        let f = *rng.pick(FILTERS5);
        let algo = if w * h <= 64 * 64 { *rng.pick(&["range", "cluster", "iterative"]) } else { "range" };
        v.push(Spec { w, h, content, tgt, mip, filter: if mip { f } else { "nearest" }, algo, origin: "random", src: "auto" });
    }
    // other DynamicImage variants as sources: variants x targets x mip on/off, size / content / filter rotating (appended after
    // the older blocks so that their case indices stay what they were)
    let reps = if thorough { 40usize } else { 3 };
    for rep in 0..reps {
        for (ki, &src) in SRC_KINDS.iter().enumerate() {
            for (ti, &tgt) in targets.iter().enumerate() {
                for mip in [false, true] {
                    let k = rep * 7 + ki * 3 + ti + mip as usize + seed as usize;
                    let (w, h) = if thorough && rep >= 15 { random_size(&mut rng) } else { VARIANT_SIZES[k % VARIANT_SIZES.len()] };
                    let (w, h) = (w.min(300), h.min(300));
                    let content = CONTENTS[(k / 3) % CONTENTS.len()];
                    let f = FILTERS5[(k / 2) % FILTERS5.len()];
                    v.push(Spec { w, h, content, tgt, mip, filter: if mip { f } else { "nearest" }, algo: "range", origin: "source-variant", src });
                }
            }
        }
    }
    v
}

// ------------------------------------------------------------------ images ----

fn gen_image(rng: &mut Rng, w: u32, h: u32, content: &str) -> (DynamicImage, String) {
    let n = (w as usize) * (h as usize);
    let variant;
    let mut img = RgbaImage::new(w, h);
    match content {
        "transparent" => {
            let mode = rng.below(3);
            variant = ["rgb-zero", "rgb-const", "rgb-noise"][mode as usize].to_string();
            let cst = [rng.next_u32() as u8, rng.next_u32() as u8, rng.next_u32() as u8];
            for p in img.pixels_mut() {
                let c = match mode {
                    0 => [0, 0, 0],
                    1 => cst,
                    _ => {
                        let r = rng.next_u32();
                        [r as u8, (r >> 8) as u8, (r >> 16) as u8]
                    }
                };
                *p = Rgba([c[0], c[1], c[2], 0]);
            }
        }
        "opaque" => {
            let k = *rng.pick(&[1usize, 2, 16, 4096]);
            let pal: Vec<[u8; 3]> = (0..k.min(64)).map(|_| { let r = rng.next_u32(); [r as u8, (r >> 8) as u8, (r >> 16) as u8] }).collect();
            let as_rgb = rng.bool();
            variant = format!("{}colours-{}", k, if as_rgb { "Rgb8" } else { "Rgba8" });
            for p in img.pixels_mut() {
                let c = if k > 64 { let r = rng.next_u32(); [r as u8, (r >> 8) as u8, (r >> 16) as u8] } else { pal[rng.usize(pal.len())] };
                *p = Rgba([c[0], c[1], c[2], 255]);
            }
            if as_rgb {
                let mut rgb = RgbImage::new(w, h);
                for (x, y, p) in img.enumerate_pixels() {
                    rgb.put_pixel(x, y, Rgb([p[0], p[1], p[2]]));
                }
                return (DynamicImage::ImageRgb8(rgb), variant);
            }
        }
        "le256" => {
            let k = *rng.pick(&[1usize, 2, 3, 16, 200, 256]);
            let pal: Vec<[u8; 3]> = (0..k).map(|_| { let r = rng.next_u32(); [r as u8, (r >> 8) as u8, (r >> 16) as u8] }).collect();
            let amode = rng.below(3);
            variant = format!("{}colours-alpha-{}", k, ["binary", "edges", "any"][amode as usize]);
            const EDGES: [u8; 8] = [0, 1, 8, 127, 128, 136, 254, 255];
            for p in img.pixels_mut() {
                let c = pal[rng.usize(k)];
                let a = match amode {
                    0 => if rng.chance(2, 5) { 255 } else { 0 },
                    1 => *rng.pick(&EDGES),
                    _ => rng.next_u32() as u8,
                };
                *p = Rgba([c[0], c[1], c[2], a]);
            }
        }
        "gt256" => {
            variant = "noise".into();
            for p in img.pixels_mut() {
                let r = rng.next_u64();
                *p = Rgba([r as u8, (r >> 8) as u8, (r >> 16) as u8, (r >> 24) as u8]);
            }
        }
        _ => {
            // gradients: r along x, g along y, b along the diagonal; alpha over the linear pixel index (all 256 values when n >= 256)
            let amode = rng.below(2);
            variant = ["alpha-by-index", "alpha-by-x"][amode as usize].to_string();
            let dx = (w.max(2) - 1) as u64;
            let dy = (h.max(2) - 1) as u64;
            let dn = (n.max(2) - 1) as u64;
            for (x, y, p) in img.enumerate_pixels_mut() {
                let i = y as u64 * w as u64 + x as u64;
                let a = if amode == 0 { i * 255 / dn } else { x as u64 * 255 / dx };
                *p = Rgba([(x as u64 * 255 / dx) as u8, (y as u64 * 255 / dy) as u8, ((x as u64 + y as u64) * 255 / (dx + dy)) as u8, a as u8]);
            }
        }
    }
    (DynamicImage::ImageRgba8(img), variant)
}

fn more_than_256_colours(img: &RgbaImage) -> bool {
    let mut s: HashSet<u32> = HashSet::new();
    for p in img.pixels() {
        s.insert(u32::from_le_bytes([p[0], p[1], p[2], 0]));
        if s.len() > 256 {
            return true;
        }
    }
    false
}

/// The generated RGBA content recast into another DynamicImage variant. Luma takes the red channel; 16 bit samples are the 8 bit value
/// spread over the range (v * 257), with or without a jitter that makes the conversion back to 8 bits round; float samples are
/// v / 255, one image in three stretched to [-0.25, 1.25] (the conversion to 8 bits clamps). The source pixels the laws refer
/// to are the image crate's own to_rgba8() view of the result.
fn to_variant(rng: &mut Rng, base: &RgbaImage, kind: &str) -> DynamicImage {
    let (w, h) = base.dimensions();
    let jitter = rng.bool();
    let stretch = rng.below(3) == 0;
    fn s16(rng: &mut Rng, jitter: bool, v: u8) -> u16 {
        let j = if jitter { rng.range(0, 256) as i32 - 128 } else { 0 };
        (v as i32 * 257 + j).clamp(0, 65535) as u16
    }
    let f = |v: u8| -> f32 {
        let x = v as f32 / 255.0;
        if stretch { x * 1.5 - 0.25 } else { x }
    };
    match kind {
        "Luma8" => DynamicImage::ImageLuma8(GrayImage::from_fn(w, h, |x, y| Luma([base.get_pixel(x, y)[0]]))),
        "LumaA8" => DynamicImage::ImageLumaA8(GrayAlphaImage::from_fn(w, h, |x, y| { let p = base.get_pixel(x, y); LumaA([p[0], p[3]]) })),
        "Luma16" => {
            let mut im: ImageBuffer<Luma<u16>, Vec<u16>> = ImageBuffer::new(w, h);
            for (x, y, q) in im.enumerate_pixels_mut() {
                *q = Luma([s16(rng, jitter, base.get_pixel(x, y)[0])]);
            }
            DynamicImage::ImageLuma16(im)
        }
        "LumaA16" => {
            let mut im: ImageBuffer<LumaA<u16>, Vec<u16>> = ImageBuffer::new(w, h);
            for (x, y, q) in im.enumerate_pixels_mut() {
                let p = base.get_pixel(x, y);
                *q = LumaA([s16(rng, jitter, p[0]), s16(rng, jitter, p[3])]);
            }
            DynamicImage::ImageLumaA16(im)
        }
        "Rgb16" => {
            let mut im: ImageBuffer<Rgb<u16>, Vec<u16>> = ImageBuffer::new(w, h);
            for (x, y, q) in im.enumerate_pixels_mut() {
                let p = base.get_pixel(x, y);
                *q = Rgb([s16(rng, jitter, p[0]), s16(rng, jitter, p[1]), s16(rng, jitter, p[2])]);
            }
            DynamicImage::ImageRgb16(im)
        }
        "Rgba16" => {
            let mut im: ImageBuffer<Rgba<u16>, Vec<u16>> = ImageBuffer::new(w, h);
            for (x, y, q) in im.enumerate_pixels_mut() {
                let p = base.get_pixel(x, y);
                *q = Rgba([s16(rng, jitter, p[0]), s16(rng, jitter, p[1]), s16(rng, jitter, p[2]), s16(rng, jitter, p[3])]);
            }
            DynamicImage::ImageRgba16(im)
        }
        "Rgb32F" => DynamicImage::ImageRgb32F(Rgb32FImage::from_fn(w, h, |x, y| { let p = base.get_pixel(x, y); Rgb([f(p[0]), f(p[1]), f(p[2])]) })),
        _ => DynamicImage::ImageRgba32F(Rgba32FImage::from_fn(w, h, |x, y| { let p = base.get_pixel(x, y); Rgba([f(p[0]), f(p[1]), f(p[2]), f(p[3])]) })),
    }
}

fn variant_name(img: &DynamicImage) -> &'static str {
    match img {
        DynamicImage::ImageLuma8(_) => "Luma8",
        DynamicImage::ImageLumaA8(_) => "LumaA8",
        DynamicImage::ImageRgb8(_) => "Rgb8",
        DynamicImage::ImageRgba8(_) => "Rgba8",
        DynamicImage::ImageLuma16(_) => "Luma16",
        DynamicImage::ImageLumaA16(_) => "LumaA16",
        DynamicImage::ImageRgb16(_) => "Rgb16",
        DynamicImage::ImageRgba16(_) => "Rgba16",
        DynamicImage::ImageRgb32F(_) => "Rgb32F",
        DynamicImage::ImageRgba32F(_) => "Rgba32F",
        _ => "other",
    }
}

// ------------------------------------------------------------------ expectations ----

/// The chain the statement describes: halve both sides (never below 1) until 1x1; count from the larger side.
fn expected_chain(w: u32, h: u32, mip: bool) -> Vec<(u32, u32)> {
    let mut v = vec![(w, h)];
    if mip {
        let (mut a, mut b) = (w, h);
        while a > 1 || b > 1 {
            a = (a / 2).max(1);
            b = (b / 2).max(1);
            v.push((a, b));
        }
    }
    v
}

fn div_ceil(a: u64, b: u64) -> u64 {
    a.div_ceil(b)
}

/// Stored size of one level for the encodings whose size is a function of the dimensions.
fn level_size(enc: Enc, a: u32, b: u32) -> Option<u64> {
    let n = a as u64 * b as u64;
    match enc {
        Enc::Raw1(d) => Some(n + div_ceil(n * d as u64, 8)),
        Enc::Raw3 => Some(4 * n),
        Enc::Dxt(k, _) => Some(div_ceil(a as u64, 4) * div_ceil(b as u64, 4) * if k == 1 { 8 } else { 16 }),
        Enc::Jpeg(_) => None,
    }
}

fn content_level_sizes(c: &BlpContent) -> Vec<u64> {
    match c {
        BlpContent::Jpeg(j) => j.images.iter().map(|i| i.len() as u64).collect(),
        BlpContent::Raw1(r) => r.images.iter().map(|i| (i.indexed_rgb.len() + i.indexed_alpha.len()) as u64).collect(),
        BlpContent::Raw3(r) => r.images.iter().map(|i| i.pixels.len() as u64 * 4).collect(),
        BlpContent::Dxt1(d) | BlpContent::Dxt3(d) | BlpContent::Dxt5(d) => d.images.iter().map(|i| i.content.len() as u64).collect(),
    }
}

/// Serialised bytes of level i as the format stores them (used to compare with what the file's table points at).
fn content_level_bytes(c: &BlpContent, i: usize) -> Option<Vec<u8>> {
    match c {
        BlpContent::Jpeg(j) => j.images.get(i).cloned(),
        BlpContent::Raw1(r) => r.images.get(i).map(|im| { let mut v = im.indexed_rgb.clone(); v.extend(&im.indexed_alpha); v }),
        BlpContent::Raw3(r) => r.images.get(i).map(|im| im.pixels.iter().flat_map(|p| p.to_le_bytes()).collect()),
        BlpContent::Dxt1(d) | BlpContent::Dxt3(d) | BlpContent::Dxt5(d) => d.images.get(i).map(|im| im.content.clone()),
    }
}

/// First structural difference between the texture before encoding and after parsing.
fn first_difference(x: &BlpImage, y: &BlpImage) -> (&'static str, String) {
    let (hx, hy) = (&x.header, &y.header);
    if hx.version != hy.version {
        return ("header-version", format!("{:?} vs {:?}", hx.version, hy.version));
    }
    if hx.content != hy.content {
        return ("header-content", format!("{:?} vs {:?}", hx.content, hy.content));
    }
    if hx.flags != hy.flags {
        return ("header-flags", format!("{:?} vs {:?}", hx.flags, hy.flags));
    }
    if hx.width != hy.width || hx.height != hy.height {
        return ("header-dimensions", format!("{}x{} vs {}x{}", hx.width, hx.height, hy.width, hy.height));
    }
    if hx.mipmap_locator != hy.mipmap_locator {
        return ("header-locator", format!("{:?} vs {:?}", hx.mipmap_locator, hy.mipmap_locator));
    }
    if std::mem::discriminant(&x.content) != std::mem::discriminant(&y.content) {
        return ("content-kind", format!("{:?} vs {:?}", x.compression_type(), y.compression_type()));
    }
    let (sx, sy) = (content_level_sizes(&x.content), content_level_sizes(&y.content));
    if sx.len() != sy.len() {
        return ("level-count", format!("{} levels before encode, {} after parse (sizes {:?} vs {:?})", sx.len(), sy.len(), sx, sy));
    }
    for i in 0..sx.len() {
        if sx[i] != sy[i] {
            return ("level-size", format!("level {i}: {} bytes before encode, {} after parse", sx[i], sy[i]));
        }
        if content_level_bytes(&x.content, i) != content_level_bytes(&y.content, i) {
            return ("level-data", format!("level {i} differs"));
        }
    }
    ("palette-or-jpeg-header", "levels equal; colour map / JPEG header / format tag differ".into())
}

// ------------------------------------------------------------------ independent header walker ----

fn le32(b: &[u8], o: usize) -> Option<u32> {
    b.get(o..o + 4).map(|s| u32::from_le_bytes([s[0], s[1], s[2], s[3]]))
}

#[derive(Debug, Default)]
struct Walk {
    ver: u8,
    content: u32,
    alpha_bits: u32,
    compression: Option<u8>,
    has_mips: u32,
    w: u32,
    h: u32,
    table: Option<(Vec<u32>, Vec<u32>)>,
    /// first byte after the fixed header (+ palette for direct content, + JPEG header block for JPEG content)
    data_start: u64,
    palette_at: usize,
}

/// Reads the header as the format documentation describes it (BLP0/1: magic, content, alphaBits, w, h, extra, hasMips,
/// [16 offsets, 16 sizes for BLP1]; BLP2: magic, content, compression u8, alphaBits u8, alphaType u8, hasMips u8, w, h, 16+16).
fn walk_header(b: &[u8]) -> Result<Walk, String> {
    let magic = b.get(0..4).ok_or("file shorter than the magic")?;
    let ver = match magic {
        b"BLP0" => 0u8,
        b"BLP1" => 1,
        b"BLP2" => 2,
        _ => return Err(format!("magic {:?}", magic)),
    };
    let mut k = Walk { ver, ..Default::default() };
    k.content = le32(b, 4).ok_or("truncated header")?;
    let mut pos;
    if ver == 2 {
        let f = b.get(8..12).ok_or("truncated header")?;
        k.compression = Some(f[0]);
        k.alpha_bits = f[1] as u32;
        k.has_mips = f[3] as u32;
        k.w = le32(b, 12).ok_or("truncated header")?;
        k.h = le32(b, 16).ok_or("truncated header")?;
        pos = 20;
    } else {
        k.alpha_bits = le32(b, 8).ok_or("truncated header")?;
        k.w = le32(b, 12).ok_or("truncated header")?;
        k.h = le32(b, 16).ok_or("truncated header")?;
        k.has_mips = le32(b, 24).ok_or("truncated header")?;
        pos = 28;
    }
    if ver >= 1 {
        let mut offs = vec![];
        let mut sizes = vec![];
        for i in 0..16 {
            offs.push(le32(b, pos + 4 * i).ok_or("truncated offset table")?);
        }
        for i in 0..16 {
            sizes.push(le32(b, pos + 64 + 4 * i).ok_or("truncated size table")?);
        }
        k.table = Some((offs, sizes));
        pos += 128;
    }
    k.palette_at = pos;
    if k.content == 0 {
        // JPEG: u32 header length; the writer leaves two further bytes outside the counted length
        let hl = le32(b, pos).ok_or("truncated JPEG header length")? as u64;
        k.data_start = pos as u64 + 4 + hl;
    } else {
        k.data_start = pos as u64 + 1024;
    }
    Ok(k)
}

// ------------------------------------------------------------------ the check ----

struct Ctx<'a> {
    spec: &'a Spec,
}

impl Ctx<'_> {
    /// clause | version | encoding | mip | structural detail
    fn sig(&self, clause: &str, extra: &str) -> String {
        let t = self.spec.tgt;
        let mut s = format!("{clause}|{}|{}|mip{}", t.ver_name(), t.enc_name(), self.spec.mip as u8);
        if !extra.is_empty() {
            s.push('|');
            s.push_str(extra);
        }
        s
    }
}

fn alpha_law(c: &mut Case, cx: &Ctx, d: u8, src: &RgbaImage, dec: &RgbaImage) {
    // depth 0: no alpha is stored, the decoded image is opaque. depth d: levels 0..2^d-1, expanded back to 8 bits as q*255/(2^d-1).
    let levels: u32 = if d == 0 { 0 } else { (1u32 << d) - 1 };
    let mut seen: [Option<u8>; 256] = [None; 256];
    let (mut fl, mut ro, mut ce, mut total) = (0u64, 0u64, 0u64, 0u64);
    for (i, (s, o)) in src.pixels().zip(dec.pixels()).enumerate() {
        let (a, got) = (s[3], o[3]);
        total += 1;
        if d == 0 {
            if got != 255 {
                c.violate(cx.sig("raw1-alpha", "depth0|decoded-not-opaque"), format!("alpha depth 0 but decoded pixel {i} has alpha {got} (source alpha {a})"), json!({"pixel": i, "source_alpha": a, "decoded_alpha": got}));
                return;
            }
            continue;
        }
        let num = a as u32 * levels; // a*levels/255
        let lo = num / 255;
        let hi = num.div_ceil(255);
        let rd = (2 * num + 255) / 510;
        let ex = |q: u32| (q * 255 / levels) as u8;
        if got == ex(lo) { fl += 1; }
        if got == ex(rd) { ro += 1; }
        if got == ex(hi) { ce += 1; }
        if got != ex(lo) && got != ex(hi) {
            c.violate(
                cx.sig("raw1-alpha", &format!("depth{d}|not-a-neighbouring-level")),
                format!("alpha depth {d}: source alpha {a} decoded as {got}; the neighbouring representable levels are {} and {} (pixel {i})", ex(lo), ex(hi)),
                json!({"pixel": i, "source_alpha": a, "decoded_alpha": got, "floor": ex(lo), "ceil": ex(hi)}),
            );
            return;
        }
        match seen[a as usize] {
            None => seen[a as usize] = Some(got),
            Some(prev) if prev != got => {
                c.violate(
                    cx.sig("raw1-alpha", &format!("depth{d}|not-a-function-of-source-alpha")),
                    format!("alpha depth {d}: source alpha {a} decoded as {prev} at one pixel and as {got} at pixel {i}"),
                    json!({"pixel": i, "source_alpha": a, "decoded_alpha": [prev, got]}),
                );
                return;
            }
            _ => {}
        }
    }
    // a quantiser is monotone: a larger source alpha never decodes to a smaller one
    let mut last: Option<(usize, u8)> = None;
    for (a, v) in seen.iter().enumerate() {
        if let Some(g) = v {
            if let Some((pa, pg)) = last {
                if *g < pg {
                    c.violate(cx.sig("raw1-alpha", &format!("depth{d}|not-monotone")), format!("alpha depth {d}: source alpha {pa} decodes to {pg} but the larger {a} decodes to {g}"), json!({"a0": pa, "g0": pg, "a1": a, "g1": g}));
                    return;
                }
            }
            last = Some((a, *g));
        }
    }
    c.count(&format!("alpha_checks_d{d}"), total);
    // quantising to a depth = scaling to the level range the decoder expands from (q * 255 / levels) and rounding by one rule:
    // which rule (down / nearest / up) is the encoder's choice, but it is one rule for every pixel of the image (after
    // C16-r6m3: a shift by 8 - d bits rounds down near 0 and up near 255 on that scale)
    if d > 0 && total > 0 && fl != total && ro != total && ce != total {
        let pick = |want_floor: bool| {
            src.pixels().zip(dec.pixels()).find_map(|(s, o)| {
                let num = s[3] as u32 * levels;
                let (lo, hi) = (num / 255, num.div_ceil(255));
                let ex = |q: u32| (q * 255 / levels) as u8;
                (lo != hi && o[3] == ex(if want_floor { lo } else { hi }) && (2 * num + 255) / 510 == if want_floor { hi } else { lo }).then_some((s[3], o[3]))
            })
        };
        c.violate(
            cx.sig("raw1-alpha", &format!("depth{d}|no-single-rounding-rule")),
            format!("alpha depth {d}: of {total} pixels {fl} agree with rounding down, {ro} with rounding to nearest, {ce} with rounding up - no rule explains all of them (rounded down although nearer the upper level: {:?}; rounded up although nearer the lower level: {:?}, as (source, decoded))", pick(true), pick(false)),
            json!({"pixels": total, "floor": fl, "nearest": ro, "ceil": ce}),
        );
        return;
    }
    if d > 0 {
        c.count(&format!("alpha_d{d}_consistent_with_floor"), fl);
        c.count(&format!("alpha_d{d}_consistent_with_round"), ro);
        c.count(&format!("alpha_d{d}_consistent_with_ceil"), ce);
    }
}


/// Laws for the levels below level 0. Their source is the library's own resampling of the source image, so nothing is demanded
/// that depends on how the resampler works: a resampling filter without negative weights (nearest, triangle, gaussian) - and any
/// normalised filter on a constant plane - yields values between the smallest and the largest source value of the channel, and
/// the nearest filter yields values that occur in the source. Returns false after reporting a violation.
fn source_range_ok(filter: &str, lo: u8, hi: u8) -> bool {
    lo == hi || matches!(filter, "nearest" | "triangle" | "gaussian")
}

fn lower_level_alpha_law(c: &mut Case, cx: &Ctx, d: u8, level: usize, src: &RgbaImage, dec: &RgbaImage) -> bool {
    let levels: u32 = if d == 0 { 0 } else { (1u32 << d) - 1 };
    let ex = |q: u32| if levels == 0 { 255u8 } else { (q * 255 / levels) as u8 };
    let mut present = [false; 256];
    for p in src.pixels() {
        present[p[3] as usize] = true;
    }
    let lo = (0..256usize).find(|&a| present[a]).unwrap_or(0) as u8;
    let hi = (0..256usize).rev().find(|&a| present[a]).unwrap_or(255) as u8;
    if d == 0 {
        if let Some((i, p)) = dec.pixels().enumerate().find(|(_, p)| p[3] != 255) {
            c.violate(cx.sig("raw1-alpha", "depth0|lower-level|decoded-not-opaque"), format!("alpha depth 0 but pixel {i} of level {level} decodes with alpha {}", p[3]), json!({"level": level, "pixel": i, "decoded_alpha": p[3]}));
            return false;
        }
        c.count("lower_level_alpha_checks_d0", dec.pixels().len() as u64);
        return true;
    }
    // representable levels neighbouring the extreme source alphas
    let least = ex(lo as u32 * levels / 255);
    let most = ex((hi as u32 * levels).div_ceil(255));
    // decoded values that quantise a source alpha (floor or ceil neighbour of some alpha present in the source)
    let mut reachable = [false; 256];
    for a in 0..256usize {
        if present[a] {
            reachable[ex(a as u32 * levels / 255) as usize] = true;
            reachable[ex((a as u32 * levels).div_ceil(255)) as usize] = true;
        }
    }
    let range_law = source_range_ok(cx.spec.filter, lo, hi);
    let member_law = cx.spec.filter == "nearest";
    for (i, p) in dec.pixels().enumerate() {
        let got = p[3];
        // every decoded alpha is one of the 2^d representable levels
        if (got as u32 * levels) % 255 != 0 && ex((got as u32 * levels + 127) / 255) != got {
            c.violate(cx.sig("raw1-alpha", &format!("depth{d}|lower-level|not-a-representable-level")), format!("alpha depth {d}: pixel {i} of level {level} decodes with alpha {got}, which is not one of the {} representable levels", levels + 1), json!({"level": level, "pixel": i, "decoded_alpha": got}));
            return false;
        }
        if range_law && (got < least || got > most) {
            c.violate(
                cx.sig("raw1-alpha", &format!("depth{d}|lower-level|outside-source-alpha-range")),
                format!("alpha depth {d}, filter {}: pixel {i} of level {level} decodes with alpha {got}; the source alphas span {lo}..={hi}, whose quantisations span {least}..={most}", cx.spec.filter),
                json!({"level": level, "pixel": i, "decoded_alpha": got, "source_alpha_min": lo, "source_alpha_max": hi, "least": least, "most": most}),
            );
            return false;
        }
        if member_law && !reachable[got as usize] {
            c.violate(
                cx.sig("raw1-alpha", &format!("depth{d}|lower-level|nearest-not-a-source-alpha")),
                format!("alpha depth {d}, nearest filter: pixel {i} of level {level} decodes with alpha {got}, which is not the quantisation of any alpha occurring in the source"),
                json!({"level": level, "pixel": i, "decoded_alpha": got}),
            );
            return false;
        }
    }
    c.count(&format!("lower_level_alpha_checks_d{d}"), dec.pixels().len() as u64);
    if range_law {
        c.count("lower_level_alpha_range_checks", dec.pixels().len() as u64);
    }
    if member_law {
        c.count("lower_level_alpha_membership_checks", dec.pixels().len() as u64);
    }
    true
}

static SCRATCH: std::sync::OnceLock<std::path::PathBuf> = std::sync::OnceLock::new();

fn run_case(c: &mut Case, spec: &Spec, rng: &mut Rng) {
    let t = spec.tgt;
    let tname = t.name();
    let (mut img, _variant) = gen_image(rng, spec.w, spec.h, spec.content);
    if spec.src != "auto" {
        img = to_variant(rng, &img.to_rgba8(), spec.src);
    }
    // the source pixels: the image crate's own RGBA8 view of the source image (exact for Rgb8 / Rgba8 sources)
    let src = img.to_rgba8();
    c.count("images_generated", 1);
    c.count(&format!("source_variant|{}", variant_name(&img)), 1);
    if spec.src != "auto" {
        c.count("source_variant_cases", 1);
    }
    if more_than_256_colours(&src) {
        c.count("images_with_more_than_256_colours", 1);
    }
    let cx = Ctx { spec };

    // ---- convert
    let conv = trap(|| image_to_blp(img.clone(), spec.mip, blp_target(t, spec.algo), filter(spec.filter)));
    let x = match conv {
        Err(p) => {
            c.violate(format!("panic|image_to_blp|{}|{}|{}", t.ver_name(), t.enc_name(), p.sig()), format!("image_to_blp panicked: {}", p.msg), json!({"func": p.func}));
            return;
        }
        Ok(Err(e)) => {
            c.count(&format!("convert_refused|{tname}"), 1);
            c.note(json!({"convert_refused": format!("{e}"), "target": tname, "w": spec.w, "h": spec.h}));
            c.nontrivial = false;
            return;
        }
        Ok(Ok(x)) => x,
    };
    c.count(&format!("convert_ok|{tname}"), 1);
    c.count("images_x_targets_converted", 1);

    let chain = expected_chain(spec.w, spec.h, spec.mip);
    let x_levels = x.image_count();
    let x_sizes = content_level_sizes(&x.content);

    // ---- (b) on the converted texture itself: does the converter produce the whole chain?
    // Trigger predicates of the two triaged defects are evaluated here, on the texture before encoding.
    //  D1 "converter-chain-short": image_to_blp stored fewer levels than halving down to 1x1 takes.
    //  D2 "dxt-blocks-by-area<by-dims": some stored DXT level needs more 4x4 blocks by its dimensions than ceil(pixels/16).
    let short_chain = spec.mip && x_levels < chain.len();
    if spec.mip {
        c.count("converter_chains_checked", 1);
        if x_levels != chain.len() {
            // the specific shape of D1: the chain ends as soon as the *smaller* side has reached 1
            let by_min_side = 1 + (31 - spec.w.min(spec.h).leading_zeros()) as usize;
            if x_levels == by_min_side && x_levels < chain.len() {
                c.count("trigger_converter_chain_short", 1);
                c.violate(
                    "mip-chain|converter|stops-when-smaller-side-reaches-1",
                    format!("{}x{} with mipmaps ({}): image_to_blp stored {x_levels} level(s), the last one {:?}; halving both sides down to 1x1 takes {} levels", spec.w, spec.h, tname, chain[x_levels - 1], chain.len()),
                    json!({"w": spec.w, "h": spec.h, "levels": x_levels, "expected": chain.len(), "last_level": [chain[x_levels - 1].0, chain[x_levels - 1].1]}),
                );
            } else {
                let how = if x_levels < chain.len() { "stops-before-1x1" } else { "too-many-levels" };
                c.violate(
                    cx.sig("mip-chain", &format!("converter|{how}")),
                    format!("{}x{} with mipmaps: image_to_blp stored {x_levels} level(s), halving both sides down to 1x1 takes {}", spec.w, spec.h, chain.len()),
                    json!({"w": spec.w, "h": spec.h, "levels": x_levels, "expected": chain.len()}),
                );
            }
        }
    }
    let area_blocks = |a: u32, b: u32| div_ceil(a as u64 * b as u64, 16);
    let dims_blocks = |a: u32, b: u32| div_ceil(a as u64, 4) * div_ceil(b as u64, 4);
    let dxt_block: u64 = match t.enc { Enc::Dxt(1, _) => 8, Enc::Dxt(..) => 16, _ => 0 };
    let dxt_area_pred = dxt_block > 0 && chain.iter().take(x_levels.max(1)).any(|&(a, b)| area_blocks(a, b) < dims_blocks(a, b));
    if dxt_area_pred {
        c.count("trigger_dxt_blocks_by_area_lt_by_dims", 1);
    }

    // ---- encode
    let (bytes, externals): (Vec<u8>, Vec<Vec<u8>>) = if t.ver == 0 {
        match trap(|| encode_blp0(&x)) {
            Err(p) => {
                c.violate(format!("panic|encode_blp0|{}|{}|{}", t.ver_name(), t.enc_name(), p.sig()), format!("encode_blp0 panicked: {}", p.msg), json!({"func": p.func}));
                return;
            }
            Ok(Err(e)) => {
                encode_error(c, &cx, &tname, &format!("{e:?}"), &format!("{e}"));
                return;
            }
            Ok(Ok(r)) => (r.blp_bytes, r.blp_mipmaps),
        }
    } else {
        match trap(|| encode_blp(&x)) {
            Err(p) => {
                c.violate(format!("panic|encode_blp|{}|{}|{}", t.ver_name(), t.enc_name(), p.sig()), format!("encode_blp panicked: {}", p.msg), json!({"func": p.func}));
                return;
            }
            Ok(Err(e)) => {
                encode_error(c, &cx, &tname, &format!("{e:?}"), &format!("{e}"));
                return;
            }
            Ok(Ok(b)) => (b, vec![]),
        }
    };
    c.count(&format!("encode_ok|{tname}"), 1);
    c.count("bytes_encoded", bytes.len() as u64 + externals.iter().map(|m| m.len() as u64).sum::<u64>());

    // ---- (c) independent walk of the bytes (done before parsing: it does not depend on the parser)
    let walk = match walk_header(&bytes) {
        Ok(k) => k,
        Err(e) => {
            c.violate(cx.sig("file-header", "unreadable"), format!("independent header walker cannot read the encoded file: {e}"), json!({"len": bytes.len()}));
            return;
        }
    };
    c.count("headers_walked", 1);
    if walk.ver != t.ver || walk.w != spec.w || walk.h != spec.h {
        c.violate(cx.sig("file-header", "version-or-dimensions-ne-source"), format!("file says BLP{} {}x{}, source was BLP{} {}x{}", walk.ver, walk.w, walk.h, t.ver, spec.w, spec.h), json!({}));
    }
    if (walk.has_mips != 0) != spec.mip {
        c.violate(cx.sig("file-header", "has-mipmaps-flag-ne-request"), format!("file hasMips={}, requested mipmaps={}", walk.has_mips, spec.mip), json!({}));
    }
    let flen = bytes.len() as u64;
    let mut table_levels: Vec<(u64, u64)> = vec![];
    if let Some((offs, sizes)) = &walk.table {
        let mut pairs: Vec<(u64, u64, usize)> = vec![];
        for i in 0..16 {
            let (o, s) = (offs[i] as u64, sizes[i] as u64);
            c.count("table_pairs_examined", 1);
            if s == 0 {
                // an empty entry: nothing stored. Only its offset can be wrong.
                if o > flen {
                    c.violate(cx.sig("mip-table", "outside-file|empty-entry"), format!("entry {i}: offset {o} (size 0) beyond the file length {flen}"), json!({"entry": i, "offset": o, "file_len": flen}));
                }
                continue;
            }
            c.count("table_pairs_nonempty", 1);
            if o + s > flen {
                c.violate(cx.sig("mip-table", "outside-file"), format!("entry {i}: offset {o} + size {s} = {} beyond the file length {flen}", o + s), json!({"entry": i, "offset": o, "size": s, "file_len": flen}));
            }
            if o < walk.data_start {
                c.violate(cx.sig("mip-table", "overlap|header"), format!("entry {i}: offset {o} lies inside the header / palette / JPEG header block which ends at {}", walk.data_start), json!({"entry": i, "offset": o, "data_start": walk.data_start}));
            }
            pairs.push((o, s, i));
        }
        table_levels = pairs.iter().map(|p| (p.0, p.1)).collect();
        let mut sorted = pairs.clone();
        sorted.sort();
        for k in 1..sorted.len() {
            c.count("table_pair_overlap_checks", 1);
            let (po, ps, pi) = sorted[k - 1];
            let (o, _s, i) = sorted[k];
            if po + ps > o {
                c.violate(cx.sig("mip-table", "overlap"), format!("entries {pi} ({po}+{ps}) and {i} (offset {o}) overlap"), json!({"a": [po, ps], "b_offset": o}));
                break;
            }
        }
        // non-empty entries are a prefix of the table, in level order
        if pairs.iter().enumerate().any(|(k, p)| p.2 != k) {
            c.violate(cx.sig("mip-table", "gap-in-table"), "non-empty (offset,size) entries are not a prefix of the table".to_string(), json!({"entries": pairs.iter().map(|p| p.2).collect::<Vec<_>>()}));
        }
    } else {
        // BLP0: no table in the file; the levels are the external mip files
        c.count("blp0_external_files", externals.len() as u64);
        for (i, m) in externals.iter().enumerate() {
            if let (Some(exp), Some(&(a, b))) = (chain.get(i).and_then(|&(a, b)| level_size(t.enc, a, b)), chain.get(i)) {
                c.count("blp0_external_sizes_checked", 1);
                if m.len() as u64 != exp {
                    c.violate(cx.sig("mip-chain", "external-level-size"), format!("external mip file {i} has {} bytes, a {a}x{b} level needs {exp}", m.len()), json!({"level": i}));
                }
            }
        }
    }

    // ---- parse
    let parsed = if t.ver == 0 {
        let ext = &externals;
        trap(|| parse_blp_with_externals(&bytes, |i| preloaded_mipmaps(ext, i)).map_err(|e| (format!("{e}"), format!("{e:?}"))))
    } else {
        trap(|| parse_blp(&bytes).map_err(|e| (format!("{e}"), format!("{e:?}"))))
    };
    let y = match parsed {
        Err(p) => {
            c.violate(format!("panic|parse_blp|{}|{}|{}", t.ver_name(), t.enc_name(), p.sig()), format!("parser panicked on the encoder's output: {}", p.msg), json!({"func": p.func}));
            return;
        }
        Ok(Err((e, dbg))) => {
            let kind = err_kind(&dbg);
            // D1 seen through BLP0: the parser asks for the external file of the first level the converter did not produce
            if short_chain && t.ver == 0 && kind == "MissingImage" && dbg.contains(&format!("MissingImage({x_levels})")) && externals.len() == x_levels {
                c.count("d1_blp0_parse_stops_at_first_missing_level", 1);
                c.count("cases_cut_short_by_known_defect", 1);
                return;
            }
            c.violate(cx.sig("parse-rejects-encoded", &kind), format!("parser rejects the encoder's own output ({} bytes, {} external files): {e}", bytes.len(), externals.len()), json!({"err": e, "levels_before_encode": x_levels, "expected_levels": chain.len()}));
            return;
        }
        Ok(Ok(y)) => y,
    };
    c.count("parsed_ok", 1);
    entry_point_legs(c, &cx, &bytes, &y);
    // ---- the same texture through the file interface, on a path that held a larger texture before (its files stay behind:
    // a longer main file, external level files beyond the ones this texture has), and - BLP0 - through a callback that can
    // serve more levels than the texture has: the same structure as the in-memory parse
    if t.ver == 0 {
        let mut stale = externals.clone();
        stale.extend([vec![0xAB; 4], vec![0xCD; 1], vec![1, 2, 3, 4, 5, 6, 7, 8, 9]]);
        match trap(|| parse_blp_with_externals(&bytes, |i| preloaded_mipmaps(&stale, i)).map_err(|e| format!("{e}"))) {
            Ok(Ok(y2)) => {
                c.count("blp0_parsed_with_surplus_external_files", 1);
                if y2 != y {
                    c.violate(cx.sig("parse-depends-on-surplus-externals", "callback"), format!("a callback that can serve {} external files for a texture of {} levels changes the parsed structure ({} images instead of {})", stale.len(), externals.len(), y2.image_count(), y.image_count()), json!({}));
                }
            }
            Ok(Err(e)) => c.violate(cx.sig("parse-depends-on-surplus-externals", "callback-error"), format!("parse fails when the callback can serve more external files than needed: {e}"), json!({})),
            Err(p) => c.violate(format!("panic|parse_blp|{}|{}|{}", t.ver_name(), t.enc_name(), p.sig()), p.msg.clone(), json!({})),
        }
    }
    if bytes.len() < (1 << 20) && (c.idx % 5 == 0 || t.ver == 0) {
        if let Some(dir) = SCRATCH.get() {
            let path = dir.join(format!("c16-{}-tex.blp", std::process::id()));
            let mut prior = bytes.clone();
            prior.extend(std::iter::repeat_n(0x5Au8, 3000));
            let _ = std::fs::write(&path, &prior);
            let nstale = externals.len() + 3;
            for i in 0..nstale {
                if let Some(mp) = wow_blp::path::make_mipmap_path(&path, i) {
                    let _ = std::fs::write(mp, vec![0x77u8; 1 + 37 * i]);
                }
            }
            match trap(|| wow_blp::encode::save_blp(&x, &path).map_err(|e| format!("{e}")).and_then(|_| wow_blp::parser::load_blp(&path).map_err(|e| format!("{e}")))) {
                Ok(Ok(y3)) => {
                    c.count("saved_and_loaded_over_a_larger_texture", 1);
                    if y3 != y {
                        c.violate(cx.sig("file-roundtrip-differs", "path-held-a-larger-texture"), format!("save_blp + load_blp on a path that held a larger texture yields {} images, the in-memory parse {}", y3.image_count(), y.image_count()), json!({}));
                    }
                }
                Ok(Err(e)) => c.violate(cx.sig("file-roundtrip-fails", "path-held-a-larger-texture"), format!("save_blp + load_blp fails for a texture that encodes and parses in memory: {e}"), json!({})),
                Err(p) => c.violate(format!("panic|save_load_blp|{}|{}|{}", t.ver_name(), t.enc_name(), p.sig()), p.msg.clone(), json!({})),
            }
            let _ = std::fs::remove_file(&path);
            for i in 0..nstale {
                if let Some(mp) = wow_blp::path::make_mipmap_path(&path, i) {
                    let _ = std::fs::remove_file(mp);
                }
            }
        }
    }

    // ---- (a) structural identity
    // yn = y with the consequences of D1 / D2 undone, each only where its exact shape is present; everything else stays as parsed
    // and is compared strictly, so a different defect inside the same sub-space still shows.
    let mut yn = y.clone();
    if short_chain {
        // D1 downstream: JPEG/DXT parsers read header.mipmaps_count()+1 levels; the (0,0) table entries of the levels the converter
        // never made come back as empty levels
        let ys = content_level_sizes(&yn.content);
        if ys.len() > x_levels && ys[x_levels..].iter().all(|&s| s == 0) {
            truncate_levels(&mut yn.content, x_levels);
            c.count("d1_empty_levels_for_missing_chain_tail", (ys.len() - x_levels) as u64);
        }
    }
    let mut d2_levels = 0u64;
    if dxt_area_pred {
        let n = x_levels.min(yn.image_count());
        for (i, &(a, b)) in chain.iter().enumerate().take(n) {
            let (ab, db) = (area_blocks(a, b) * dxt_block, dims_blocks(a, b) * dxt_block);
            if ab < db {
                let (xb, yb) = (content_level_bytes(&x.content, i).unwrap_or_default(), content_level_bytes(&yn.content, i).unwrap_or_default());
                if xb.len() as u64 == db && yb.len() as u64 == ab && xb[..ab as usize] == yb[..] {
                    set_dxt_level(&mut yn.content, i, xb);
                    d2_levels += 1;
                }
            }
        }
        if d2_levels > 0 {
            c.count("d2_levels_truncated_to_area_blocks", d2_levels);
            c.violate(
                "parse-ne-encoded|blp2|dxt|level-truncated-to-ceil(pixels/16)-blocks",
                format!("{}x{} {}: parse_blp returns {d2_levels} level(s) cut to ceil(w*h/16) blocks although ceil(w/4)*ceil(h/4) blocks were encoded (first sizes: encoded {:?}, parsed {:?})", spec.w, spec.h, tname, &x_sizes[..x_sizes.len().min(4)], &content_level_sizes(&y.content)[..y.image_count().min(4)]),
                json!({"w": spec.w, "h": spec.h, "encoded_sizes": x_sizes, "parsed_sizes": content_level_sizes(&y.content)}),
            );
        }
    }
    c.count("structures_compared", 1);
    if yn != x {
        let (kind, text) = first_difference(&x, &yn);
        c.violate(cx.sig("parse-ne-encoded", kind), format!("parse(encode(x)) != x: {text}"), json!({"difference": kind, "levels_before_encode": x_levels, "levels_after_parse": y.image_count(), "expected_levels": chain.len()}));
    } else if y == x {
        c.count("structures_equal", 1);
    } else {
        c.count("structures_equal_modulo_known_defects", 1);
    }

    // ---- (b) the chain of the parsed texture
    let y_levels = yn.image_count();
    c.count("mip_levels_present", y_levels as u64);
    if spec.mip {
        c.count("mip_chains_checked", 1);
        // the library's own arithmetic, against the independent one
        if y.header.mipmaps_count() + 1 != chain.len() {
            c.violate(cx.sig("mip-chain", "header-count"), format!("header.mipmaps_count()+1 = {} but halving {}x{} down to 1x1 takes {} levels", y.header.mipmaps_count() + 1, spec.w, spec.h, chain.len()), json!({"w": spec.w, "h": spec.h}));
        }
        for (i, &(a, b)) in chain.iter().enumerate() {
            c.count("mip_level_dims_checked", 1);
            if y.header.mipmap_size(i) != (a, b) {
                c.violate(cx.sig("mip-chain", "header-level-size"), format!("header.mipmap_size({i}) = {:?}, halving gives {a}x{b}", y.header.mipmap_size(i)), json!({"level": i}));
                break;
            }
        }
        // (already reported on x when the converter itself made the wrong number of levels)
        if y_levels != chain.len() && x_levels == chain.len() {
            let how = if y_levels < chain.len() { "stops-before-1x1" } else { "too-many-levels" };
            c.violate(
                cx.sig("mip-chain", how),
                format!("{}x{} with mipmaps: {y_levels} level(s) after parsing, halving both sides down to 1x1 takes {} (last stored level is {:?})", spec.w, spec.h, chain.len(), chain.get(y_levels.saturating_sub(1))),
                json!({"levels": y_levels, "expected": chain.len(), "w": spec.w, "h": spec.h}),
            );
        }
    } else if y_levels != 1 {
        c.violate(cx.sig("mip-chain", "levels-without-mipmaps"), format!("mipmaps off but {y_levels} levels stored"), json!({"levels": y_levels}));
    }
    // stored data of each level has the size of its halved dimensions; every level decodes to those dimensions
    let sizes = content_level_sizes(&yn.content);
    for (i, &(a, b)) in chain.iter().enumerate().take(y_levels) {
        c.count("mip_levels_checked", 1);
        if let Some(exp) = level_size(t.enc, a, b) {
            c.count("mip_level_sizes_checked", 1);
            if sizes[i] != exp {
                c.violate(cx.sig("mip-chain", "level-data-size"), format!("level {i} ({a}x{b}) holds {} bytes, its dimensions need {exp}", sizes[i]), json!({"level": i, "a": a, "b": b, "have": sizes[i], "need": exp}));
                break;
            }
        }
        match trap(|| blp_to_image(&y, i).map_err(|e| format!("{e}"))) {
            Err(p) => {
                c.violate(format!("panic|blp_to_image|{}|{}|{}", t.ver_name(), t.enc_name(), p.sig()), format!("blp_to_image(level {i}) panicked: {}", p.msg), json!({"func": p.func, "level": i}));
                break;
            }
            Ok(Err(e)) => {
                c.violate(cx.sig("mip-chain", "level-does-not-decode"), format!("level {i} ({a}x{b}) of the parsed texture does not decode: {e}"), json!({"level": i, "err": e}));
                break;
            }
            Ok(Ok(im)) => {
                c.count("mip_levels_decoded", 1);
                if (im.width(), im.height()) != (a, b) {
                    c.violate(cx.sig("mip-chain", "decoded-level-dimensions"), format!("level {i} decodes to {}x{}, halving gives {a}x{b}", im.width(), im.height()), json!({"level": i}));
                    break;
                }
            }
        }
    }
    if spec.mip && y_levels > 0 && y_levels == chain.len() {
        c.count("chains_ending_at_1x1", (chain[y_levels - 1] == (1, 1)) as u64);
    }

    // ---- BlpImage::mipmap_info(): the library's own summary of the chain - one entry per stored level, numbered in order, with
    // the halved dimensions, their product, and the stored size of the level (as held in the parsed structure and as the file's
    // table / the external file says)
    match trap(|| y.mipmap_info()) {
        Err(p) => c.violate(format!("panic|mipmap_info|{}|{}|{}", t.ver_name(), t.enc_name(), p.sig()), format!("mipmap_info panicked: {}", p.msg), json!({"func": p.func})),
        Ok(info) => {
            c.count("mipmap_info_views", 1);
            let ysz = content_level_sizes(&y.content);
            if info.len() != y.image_count() {
                c.violate(cx.sig("mipmap-info", "entry-count"), format!("mipmap_info() has {} entries for {} stored levels", info.len(), y.image_count()), json!({"entries": info.len(), "levels": y.image_count()}));
            }
            for (i, m) in info.iter().enumerate() {
                c.count("mipmap_info_levels_checked", 1);
                let located: Option<u64> = if t.ver == 0 { externals.get(i).map(|e| e.len() as u64) } else if table_levels.len() == y.image_count() { table_levels.get(i).map(|p| p.1) } else { None };
                if located.is_some() {
                    c.count("mipmap_info_sizes_compared_with_locator", 1);
                }
                let bad = if m.level != i {
                    Some("level-number")
                } else if chain.get(i).is_some_and(|&d| d != (m.width, m.height)) {
                    Some("dimensions")
                } else if m.pixel_count as u64 != m.width as u64 * m.height as u64 {
                    Some("pixel-count")
                } else if ysz.get(i) != Some(&(m.data_size as u64)) {
                    Some("data-size-ne-stored-level")
                } else if located.is_some_and(|l| l != m.data_size as u64) {
                    Some("data-size-ne-locator")
                } else {
                    None
                };
                if let Some(what) = bad {
                    c.violate(
                        cx.sig("mipmap-info", what),
                        format!("mipmap_info()[{i}] = level {} {}x{} pixels {} size {}; the level is {:?}, stores {:?} bytes, located size {:?}", m.level, m.width, m.height, m.pixel_count, m.data_size, chain.get(i), ysz.get(i), located),
                        json!({"entry": i, "level": m.level, "width": m.width, "height": m.height, "pixel_count": m.pixel_count, "data_size": m.data_size}),
                    );
                    break;
                }
            }
        }
    }

    // ---- BlpJpeg::full_jpeg(i): shared header + level i is a complete JPEG stream of the level's dimensions; nothing beyond the chain
    if let (Enc::Jpeg(_), Some(j)) = (t.enc, y.content_jpeg()) {
        for (i, &(a, b)) in chain.iter().enumerate().take(y.image_count()) {
            match trap(|| j.full_jpeg(i)) {
                Err(p) => {
                    c.violate(format!("panic|full_jpeg|{}|{}|{}", t.ver_name(), t.enc_name(), p.sig()), format!("full_jpeg({i}) panicked: {}", p.msg), json!({"func": p.func}));
                    break;
                }
                Ok(None) => {
                    c.violate(cx.sig("full-jpeg", "none-for-a-stored-level"), format!("full_jpeg({i}) is None although {} levels are stored", y.image_count()), json!({"level": i}));
                    break;
                }
                Ok(Some(buf)) => {
                    c.count("full_jpeg_levels", 1);
                    match trap(|| image::ImageReader::with_format(std::io::Cursor::new(&buf), image::ImageFormat::Jpeg).decode().map(|im| (im.width(), im.height())).map_err(|e| format!("{e}"))) {
                        Ok(Ok(dims)) if dims == (a, b) => c.count("full_jpeg_levels_decoded_to_level_dimensions", 1),
                        Ok(Ok(dims)) => {
                            c.violate(cx.sig("full-jpeg", "decoded-dimensions"), format!("full_jpeg({i}) decodes to {}x{}, the level is {a}x{b}", dims.0, dims.1), json!({"level": i}));
                            break;
                        }
                        Ok(Err(e)) => {
                            c.violate(cx.sig("full-jpeg", "does-not-decode"), format!("full_jpeg({i}) ({} bytes) is not a decodable JPEG stream: {e}", buf.len()), json!({"level": i, "err": e}));
                            break;
                        }
                        Err(p) => {
                            c.violate(cx.sig("full-jpeg", "decoder-panics"), format!("decoding full_jpeg({i}) panicked: {}", p.msg), json!({"level": i, "func": p.func}));
                            break;
                        }
                    }
                }
            }
        }
        c.count("full_jpeg_beyond_last_level_probed", 1);
        if j.full_jpeg(y.image_count()).is_some() {
            c.violate(cx.sig("full-jpeg", "some-beyond-the-last-level"), format!("full_jpeg({}) returns data although only {} levels are stored", y.image_count(), y.image_count()), json!({}));
        }
    }

    // ---- (c) continued: the table describes exactly the stored levels, and points at their bytes
    if walk.table.is_some() {
        if table_levels.len() != y_levels {
            c.violate(cx.sig("mip-table", "entries-ne-levels"), format!("{} non-empty table entries for {y_levels} stored levels", table_levels.len()), json!({"entries": table_levels.len(), "levels": y_levels}));
        }
        for (i, &(o, s)) in table_levels.iter().enumerate() {
            if o + s > flen {
                continue;
            }
            if let Some(want) = content_level_bytes(&x.content, i) {
                c.count("table_level_bytes_compared", 1);
                if bytes[o as usize..(o + s) as usize] != want[..] {
                    c.violate(cx.sig("mip-table", "entry-does-not-point-at-level-bytes"), format!("table entry {i} ({o}+{s}) does not hold the bytes of level {i} ({} bytes)", want.len()), json!({"entry": i}));
                    break;
                }
            }
        }
    }

    // ---- (d) pixel laws
    match t.enc {
        Enc::Raw3 => {
            if let Ok(Ok(dec)) = trap(|| blp_to_image(&y, 0)) {
                let dec = dec.to_rgba8();
                c.count("raw3_pixels_compared", src.pixels().len() as u64);
                if dec.dimensions() != src.dimensions() {
                    c.violate(cx.sig("raw3-pixels", "dimensions"), "decoded dimensions differ from the source".to_string(), json!({}));
                } else if let Some((i, (s, d))) = src.pixels().zip(dec.pixels()).enumerate().find(|(_, (s, d))| s != d) {
                    c.violate(format!("raw3-pixels|{}", t.ver_name()), format!("raw BGRA: pixel {i} decoded as {:?}, source {:?}", d.0, s.0), json!({"pixel": i, "source": s.0, "decoded": d.0}));
                } else {
                    c.count("raw3_images_exact", 1);
                }
                // the levels below: every channel inside what a resampling of the source channel can give
                let mut lo = [255u8; 4];
                let mut hi = [0u8; 4];
                for p in src.pixels() {
                    for k in 0..4 {
                        lo[k] = lo[k].min(p[k]);
                        hi[k] = hi[k].max(p[k]);
                    }
                }
                'levels: for (li, &(a, b)) in chain.iter().enumerate().take(y_levels).skip(1) {
                    let Ok(Ok(dl)) = trap(|| blp_to_image(&y, li)) else { break };
                    let dl = dl.to_rgba8();
                    if dl.dimensions() != (a, b) {
                        break;
                    }
                    for k in 0..4 {
                        if !source_range_ok(spec.filter, lo[k], hi[k]) {
                            continue;
                        }
                        c.count("raw3_lower_level_channel_range_checks", dl.pixels().len() as u64);
                        if let Some((i, p)) = dl.pixels().enumerate().find(|(_, p)| p[k] < lo[k] || p[k] > hi[k]) {
                            let ch = ["r", "g", "b", "a"][k];
                            c.violate(
                                format!("raw3-pixels|{}|lower-level|outside-source-range|{}", t.ver_name(), if k == 3 { "alpha" } else { "colour" }),
                                format!("raw BGRA, filter {}: pixel {i} of level {li} decodes with {ch}={}; the source values of that channel span {}..={}", spec.filter, p[k], lo[k], hi[k]),
                                json!({"level": li, "pixel": i, "channel": ch, "decoded": p[k], "source_min": lo[k], "source_max": hi[k]}),
                            );
                            break 'levels;
                        }
                    }
                }
                // informative only: the stored bytes really are B,G,R,A
                if let Some(&(o, s)) = table_levels.first() {
                    if o + s <= flen && s == 4 * src.pixels().len() as u64 {
                        let ok = src.pixels().enumerate().all(|(i, p)| bytes[o as usize + 4 * i..o as usize + 4 * i + 4] == [p[2], p[1], p[0], p[3]]);
                        c.count(if ok { "raw3_file_bytes_are_bgra" } else { "raw3_file_bytes_not_bgra" }, 1);
                    }
                }
            }
        }
        Enc::Raw1(d) => {
            // palette and level-0 indices read from the bytes, not from the parsed structure
            let pal: Vec<[u8; 3]> = (0..256).filter_map(|k| bytes.get(walk.palette_at + 4 * k..walk.palette_at + 4 * k + 3)).map(|s| [s[0], s[1], s[2]]).collect();
            let n = src.pixels().len();
            let idx: Option<&[u8]> = if t.ver == 0 { externals.first().and_then(|m| m.get(..n)) } else { table_levels.first().and_then(|&(o, _)| bytes.get(o as usize..o as usize + n)) };
            if pal.len() != 256 {
                c.violate(cx.sig("raw1-palette", "not-256-entries-in-file"), format!("only {} palette entries fit in the file", pal.len()), json!({}));
            } else if let Ok(Ok(dec)) = trap(|| blp_to_image(&y, 0)) {
                let dec = dec.to_rgba8();
                if dec.dimensions() != src.dimensions() {
                    c.violate(cx.sig("raw1-pixels", "dimensions"), "decoded dimensions differ from the source".to_string(), json!({}));
                } else {
                    let set: HashSet<[u8; 3]> = pal.iter().copied().collect();
                    c.count("raw1_palette_distinct_entries", set.len() as u64);
                    let mut bad = None;
                    let mut bad_idx = None;
                    for (i, p) in dec.pixels().enumerate() {
                        let rgb = [p[0], p[1], p[2]];
                        if !set.contains(&rgb) {
                            bad = Some((i, rgb));
                            break;
                        }
                        if let Some(ix) = idx {
                            if pal[ix[i] as usize] != rgb && bad_idx.is_none() {
                                bad_idx = Some((i, rgb, ix[i]));
                            }
                        }
                    }
                    c.count("raw1_palette_membership_checks", n as u64);
                    if let Some((i, rgb)) = bad {
                        c.violate(cx.sig("raw1-colour-not-in-palette", &format!("a{d}")), format!("decoded pixel {i} has colour {rgb:?} which is not one of the 256 palette entries stored in the file"), json!({"pixel": i, "colour": rgb}));
                    } else if let Some((i, rgb, ix)) = bad_idx {
                        c.violate(cx.sig("raw1-colour-not-the-indexed-entry", &format!("a{d}")), format!("decoded pixel {i} has colour {rgb:?} but its stored index {ix} selects {:?}", pal[ix as usize]), json!({"pixel": i, "colour": rgb, "index": ix}));
                    } else if idx.is_some() {
                        c.count("raw1_index_checks", n as u64);
                    }
                    alpha_law(c, &cx, d, &src, &dec);
                    // the levels below: colours from the same palette (the entry the level's stored index selects), alpha inside
                    // what a resampling of the source alpha can give
                    for (li, &(a, b)) in chain.iter().enumerate().take(y_levels).skip(1) {
                        let Ok(Ok(dl)) = trap(|| blp_to_image(&y, li)) else { break };
                        let dl = dl.to_rgba8();
                        if dl.dimensions() != (a, b) {
                            break; // reported under mip-chain above
                        }
                        c.count("raw1_lower_levels_checked", 1);
                        let nl = (a as usize) * (b as usize);
                        let idx_l: Option<&[u8]> = if t.ver == 0 { externals.get(li).and_then(|m| m.get(..nl)) } else { table_levels.get(li).and_then(|&(o, _)| bytes.get(o as usize..o as usize + nl)) };
                        let mut ok = true;
                        for (i, p) in dl.pixels().enumerate() {
                            let rgb = [p[0], p[1], p[2]];
                            if !set.contains(&rgb) {
                                c.violate(cx.sig("raw1-colour-not-in-palette", &format!("a{d}|lower-level")), format!("pixel {i} of level {li} decodes with colour {rgb:?} which is not one of the 256 palette entries stored in the file"), json!({"level": li, "pixel": i, "colour": rgb}));
                                ok = false;
                                break;
                            }
                            if let Some(ix) = idx_l {
                                if pal[ix[i] as usize] != rgb {
                                    c.violate(cx.sig("raw1-colour-not-the-indexed-entry", &format!("a{d}|lower-level")), format!("pixel {i} of level {li} decodes with colour {rgb:?} but its stored index {} selects {:?}", ix[i], pal[ix[i] as usize]), json!({"level": li, "pixel": i, "colour": rgb, "index": ix[i]}));
                                    ok = false;
                                    break;
                                }
                            }
                        }
                        if !ok {
                            break;
                        }
                        c.count("raw1_lower_level_palette_checks", nl as u64);
                        if !lower_level_alpha_law(c, &cx, d, li, &src, &dl) {
                            break;
                        }
                    }
                }
            }
        }
        _ => {
            c.count("lossy_structure_only", 1);
        }
    }
}

/// The other ways into the parser: they read the same bytes, so they return what parse_blp returns.
///  * BLP1 / BLP2 (everything is inside the file): load_blp_from_buf, parse_blp_with_externals with the no_mipmaps helper and
///    with a callback that offers unrelated external files all yield the structure parse_blp yields.
///  * BLP0 (every level, level 0 included, is an external file): without the external files parse_blp,
///    parse_blp_with_externals(no_mipmaps) and load_blp_from_buf meet the same situation, so they agree: all refuse, or all
///    return the same structure.
fn entry_point_legs(c: &mut Case, cx: &Ctx, bytes: &[u8], y: &BlpImage) {
    let t = cx.spec.tgt;
    type R = Result<Result<BlpImage, String>, vh_common::PanicInfo>;
    let junk: Vec<Vec<u8>> = vec![vec![0xEE; 5], vec![], vec![0x11; 70000]];
    let via_buf: R = trap(|| load_blp_from_buf(bytes).map_err(|e| format!("{e}")));
    let via_none: R = trap(|| parse_blp_with_externals(bytes, no_mipmaps).map_err(|e| err_kind(&format!("{e:?}"))));
    let mut panicked = false;
    for (name, r) in [("load_blp_from_buf", &via_buf), ("parse_blp_with_externals+no_mipmaps", &via_none)] {
        if let Err(p) = r {
            c.violate(format!("panic|{name}|{}|{}|{}", t.ver_name(), t.enc_name(), p.sig()), format!("{name} panicked on the encoder's output: {}", p.msg), json!({"func": p.func}));
            panicked = true;
        }
    }
    if panicked {
        return;
    }
    let (via_buf, via_none) = (via_buf.unwrap(), via_none.unwrap());
    if t.ver != 0 {
        for (name, r) in [("load_blp_from_buf", &via_buf), ("parse_blp_with_externals+no_mipmaps", &via_none)] {
            c.count(&format!("entry_point_compared|{name}"), 1);
            match r {
                Ok(y2) if y2 == y => c.count(&format!("entry_point_equal_parse_blp|{name}"), 1),
                Ok(y2) => {
                    let (kind, text) = first_difference(y, y2);
                    c.violate(cx.sig("entry-points-disagree", &format!("{name}|{kind}")), format!("{name} returns a structure different from parse_blp on the same bytes: {text}"), json!({"entry": name, "difference": kind}));
                }
                Err(e) => c.violate(cx.sig("entry-points-disagree", &format!("{name}|refuses-what-parse_blp-accepts")), format!("{name} refuses bytes parse_blp accepts: {e}"), json!({"entry": name, "err": e})),
            }
        }
        // a callback offering external files is of no concern to a file that holds all its levels
        c.count("entry_point_compared|parse_blp_with_externals+unrelated-externals", 1);
        match trap(|| parse_blp_with_externals(bytes, |i| preloaded_mipmaps(&junk, i)).map_err(|e| format!("{e}"))) {
            Ok(Ok(y2)) if &y2 == y => c.count("entry_point_equal_parse_blp|parse_blp_with_externals+unrelated-externals", 1),
            Ok(Ok(y2)) => {
                let (kind, text) = first_difference(y, &y2);
                c.violate(cx.sig("entry-points-disagree", &format!("externals-offered-to-internal-file|{kind}")), format!("offering external files to a {} file changes the parsed structure: {text}", t.ver_name()), json!({"difference": kind}));
            }
            Ok(Err(e)) => c.violate(cx.sig("entry-points-disagree", "externals-offered-to-internal-file|refused"), format!("offering external files to a {} file makes the parse fail: {e}", t.ver_name()), json!({"err": e})),
            Err(p) => c.violate(format!("panic|parse_blp_with_externals|{}|{}|{}", t.ver_name(), t.enc_name(), p.sig()), p.msg.clone(), json!({"func": p.func})),
        }
    } else {
        let via_plain = match trap(|| parse_blp(bytes).map_err(|e| err_kind(&format!("{e:?}")))) {
            Ok(r) => r,
            Err(p) => {
                c.violate(format!("panic|parse_blp|{}|{}|{}", t.ver_name(), t.enc_name(), p.sig()), format!("parse_blp panicked on a BLP0 main file: {}", p.msg), json!({"func": p.func}));
                return;
            }
        };
        c.count("blp0_parsed_without_externals_by_three_entry_points", 1);
        match (&via_plain, &via_none, &via_buf) {
            (Err(a), Err(b), Err(_)) => {
                if a != b {
                    c.violate(cx.sig("entry-points-disagree", "blp0-without-externals|error-kinds"), format!("without external files parse_blp fails with {a}, parse_blp_with_externals(no_mipmaps) with {b}"), json!({"parse_blp": a, "with_no_mipmaps": b}));
                } else {
                    c.count(&format!("blp0_without_externals_refused_by_all|{a}"), 1);
                }
            }
            (Ok(a), Ok(b), Ok(d)) => {
                if a != b || a != d {
                    c.violate(cx.sig("entry-points-disagree", "blp0-without-externals|structures"), "without external files the three entry points return different structures".to_string(), json!({}));
                } else {
                    c.count("blp0_without_externals_accepted_by_all", 1);
                }
            }
            _ => {
                let how = format!("parse_blp={} no_mipmaps={} load_blp_from_buf={}", if via_plain.is_ok() { "ok" } else { "err" }, if via_none.is_ok() { "ok" } else { "err" }, if via_buf.is_ok() { "ok" } else { "err" });
                c.violate(cx.sig("entry-points-disagree", "blp0-without-externals|ok-vs-err"), format!("without external files the entry points disagree: {how}"), json!({"outcomes": how}));
            }
        }
    }
}

/// Innermost variant name of the parser error (from its Debug form; Context wrappers skipped) — no numbers, no paths.
fn err_kind(dbg: &str) -> String {
    for v in ["MissingImage", "OutOfBounds", "UnexpectedEof", "ExternalMipmap", "WrongMagic", "Blp2NoExternalMips", "Blp2UnknownCompression", "Blp2UnknownAlphaType", "UnknownAlphaType", "Blp2UnexpectedJpegCompression"] {
        if dbg.contains(v) {
            return v.to_string();
        }
    }
    "other".into()
}

fn truncate_levels(c: &mut BlpContent, n: usize) {
    match c {
        BlpContent::Jpeg(j) => j.images.truncate(n),
        BlpContent::Raw1(r) => r.images.truncate(n),
        BlpContent::Raw3(r) => r.images.truncate(n),
        BlpContent::Dxt1(d) | BlpContent::Dxt3(d) | BlpContent::Dxt5(d) => d.images.truncate(n),
    }
}

fn set_dxt_level(c: &mut BlpContent, i: usize, bytes: Vec<u8>) {
    if let BlpContent::Dxt1(d) | BlpContent::Dxt3(d) | BlpContent::Dxt5(d) = c {
        if let Some(im) = d.images.get_mut(i) {
            im.content = bytes;
        }
    }
}

fn encode_error(c: &mut Case, cx: &Ctx, tname: &str, dbg: &str, text: &str) {
    // A layout inconsistency between the converter's own locator and content is a failure of the property
    // (the converted texture cannot be encoded); anything else (dimension limits, unsupported combination) is a refusal.
    let variant = dbg.split(|ch: char| !ch.is_alphanumeric()).next().unwrap_or("");
    if variant == "InvalidOffset" || variant == "InvalidMipmapSize" {
        c.violate(cx.sig("encode-rejects-converted", variant), format!("encoder rejects the texture image_to_blp produced: {text}"), json!({"err": text}));
    } else if (variant == "WidthTooHigh" || variant == "HeightTooHigh") && cx.spec.w <= 65535 && cx.spec.h <= 65535 {
        // the encoder's own stated limit is 65,535 in each dimension: a size within it is not a dimension refusal
        c.violate(cx.sig("encode-refuses-dimensions-within-its-limit", variant), format!("encoder refuses a {}x{} texture although it states support up to 65,535: {text}", cx.spec.w, cx.spec.h), json!({"err": text, "w": cx.spec.w, "h": cx.spec.h}));
    } else {
        c.count(&format!("encode_refused|{tname}"), 1);
        c.note(json!({"encode_refused": text, "target": tname}));
        c.nontrivial = false;
    }
}

fn main() {
    let mut run = Run::new();
    let thorough = run.args.thorough();
    let _ = SCRATCH.set(std::path::PathBuf::from(&run.args.scratch));
    let specs = build_specs(thorough, run.args.seed);
    run.extra("case_space", json!(specs.len()));
    let mut classes: HashSet<String> = HashSet::new();
    for (i, spec) in specs.iter().enumerate() {
        let idx = i as u64;
        if !run.want(idx) {
            continue;
        }
        let mut rng = run.rng(idx, 0);
        let mut class = format!("{}|mip{}|{}x{}|{}|{}", spec.tgt.name(), spec.mip as u8, spec.w, spec.h, spec.content, spec.filter);
        if spec.src != "auto" {
            class.push_str(&format!("|src={}", spec.src));
        }
        let desc: Value = json!({"w": spec.w, "h": spec.h, "content": spec.content, "target": spec.tgt.name(), "mipmaps": spec.mip, "filter": spec.filter, "dxt_algorithm": spec.algo, "from": spec.origin, "source_image": spec.src});
        classes.insert(format!("{},{},a{}", spec.w % 8, spec.h % 8, spec.tgt.alpha_depth_class()));
        run.case(idx, &class, desc, |c| run_case(c, spec, &mut rng));
    }
    let mut cl: Vec<String> = classes.into_iter().collect();
    cl.sort();
    run.extra("wmod8_hmod8_alphadepth_classes", json!(cl));
    run.done();
}
