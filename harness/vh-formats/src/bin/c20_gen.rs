//! C20 helper — input files for the CLI sub-command sweep + the library's own verdict on each (DESIGN.md §6 C20).
//!
//! `c20_gen --out DIR --seed N --tier quick|thorough --journal FILE [--start K]`
//!     writes, for every non-MPQ format family, a few valid files (the C05 seeds: library writers / independent
//!     encoders), prefix truncations and single-field / chunk-structure corruptions of them (the C05 structured
//!     mutator), and one journal line per file:
//!         {"e":"B","i":k}                      before the library is called on file k
//!         {"e":"F","i":k, "file":…, "family":…, "fmt":…, "class":…, "mut":…, "runs":[…]}
//!     `runs` = the CLI invocations to perform on that file (argv with {in}/{out} placeholders), each with the verdict
//!     of *the specific library call chain that sub-command wraps* (read off warcraft-rs/src/commands/*.rs), computed
//!     in-process here: {"v":"ok"} | {"v":"err","msg"} | {"v":"panic","msg"}.
//!     A crash / hang of this process is attributed by the supervisor to the open file (verdict "abort"/"hang" =
//!     unknown, no demand derived from it) and the run continues with `--start k+1`.
//!
//! `c20_gen --verify LIST.json --journal FILE [--start K]`
//!     LIST = [{"id":…, "kind":"m2|skin|anim|wmo|adt|wdt|wdl|blp|png|json|csv", "path":…, "arg":…}]: does the output
//!     file a converter/exporter left behind parse again with the library?  One line per item: {"e":"V","id":…,"ok":bool,"msg":…}
//!
//! The seeds and the mutation engine are the C05 modules (`../c05_common.rs`, `../c05_fmt_*.rs`), included by path.

#[path = "../c05_common.rs"]
mod c05_common;
#[path = "../c05_fmt_adt.rs"]
mod fmt_adt;
#[path = "../c05_fmt_m2.rs"]
mod fmt_m2;
#[path = "../c05_fmt_tables.rs"]
mod fmt_tables;
#[path = "../c05_fmt_wmo.rs"]
mod fmt_wmo;
#[path = "../c05_fmt_world.rs"]
mod fmt_world;

use c05_common::{FormatDef, Mut, Seed, SeedCtx};
use serde_json::{Value, json};
use std::collections::BTreeMap;
use std::fs::File;
use std::io::{BufReader, Cursor, Write};
use std::path::{Path, PathBuf};
use vh_common::{Rng, fnv64, trap};

// ------------------------------------------------------------------ args ----

fn args() -> BTreeMap<String, String> {
    let a: Vec<String> = std::env::args().skip(1).collect();
    let mut m = BTreeMap::new();
    let mut i = 0;
    while i < a.len() {
        if let Some(k) = a[i].strip_prefix("--") {
            let v = a.get(i + 1).cloned().unwrap_or_default();
            m.insert(k.to_string(), v);
            i += 2;
        } else {
            i += 1;
        }
    }
    m
}

// --------------------------------------------------------------- verdict ----

/// Set while the plan of a file is (re-)emitted on which the library killed or stalled this process before (`--nolib i:kind`):
/// the library is not called again, every verdict is the recorded kind ("abort" / "hang" = unknown to the oracle).
static NOLIB: std::sync::Mutex<Option<String>> = std::sync::Mutex::new(None);

fn nolib() -> Option<String> {
    NOLIB.lock().unwrap().clone()
}

fn verdict<E: std::fmt::Display>(f: impl FnOnce() -> Result<(), E>) -> Value {
    if let Some(kind) = nolib() {
        return json!({"v": kind, "msg": "the helper process did not survive this library call in an earlier attempt"});
    }
    match trap(f) {
        Ok(Ok(())) => json!({"v": "ok"}),
        Ok(Err(e)) => {
            let mut s = e.to_string();
            s.truncate(200);
            json!({"v": "err", "msg": s})
        }
        Err(p) => json!({"v": "panic", "msg": p.sig()}),
    }
}

type R = Result<(), String>;
/// chains that write an output: the bytes the library writes (what a complete output file must contain)
type RB = Result<Vec<u8>, String>;

/// (verdict, Some("len:digest") of the library-written output)
fn verdict_out(f: impl FnOnce() -> RB) -> (Value, String) {
    if let Some(kind) = nolib() {
        return (json!({"v": kind, "msg": "the helper process did not survive this library call in an earlier attempt"}), String::new());
    }
    match trap(f) {
        Ok(Ok(b)) => (json!({"v": "ok"}), format!("{}:{:016x}", b.len(), fnv64(&b))),
        Ok(Err(mut e)) => {
            e.truncate(200);
            (json!({"v": "err", "msg": e}), String::new())
        }
        Err(p) => (json!({"v": "panic", "msg": p.sig()}), String::new()),
    }
}
fn take(tmp: &Path, r: Result<(), String>) -> RB {
    let b = std::fs::read(tmp);
    let _ = std::fs::remove_file(tmp);
    r?;
    b.map_err(es)
}
fn es<E: std::fmt::Display>(e: E) -> String {
    e.to_string()
}

struct LibV {
    v: Value,
    expect: String,
}
impl From<Value> for LibV {
    fn from(v: Value) -> Self {
        LibV { v, expect: String::new() }
    }
}
impl From<(Value, String)> for LibV {
    fn from(t: (Value, String)) -> Self {
        LibV { v: t.0, expect: t.1 }
    }
}

struct RunSpec {
    family: &'static str,
    sub: &'static str,
    opt: &'static str,
    args: Vec<String>,
    lib: Value,
    /// promised output file: (kind, path template, verify argument)
    out: Option<(&'static str, String, String)>,
    /// "len:fnv64" of what the wrapped library chain writes (converters with a library writer), or ""
    expect: String,
    /// promised stdout: "text" (non-empty), "json", "csv", "none"
    stdout: &'static str,
    /// what the printed numbers / enumerations must be, taken from the same library object the sub-command prints from:
    /// [{"re": <regex with one group>, "want": <text>} | {"re": <regex>, "count": n} | {"tiles": [[x,y,area]…]}]
    facts: Value,
}

fn sv(xs: &[&str]) -> Vec<String> {
    xs.iter().map(|s| s.to_string()).collect()
}

// ------------------------------------------------------- library chains ----
// Each function is the call chain of one CLI sub-command, in the same order, on the same file.

fn lib_blp_load(p: &Path) -> R {
    wow_blp::parser::load_blp(p).map(|_| ()).map_err(es)
}
/// What `blp validate --strict` promises on top of loading: a texture with a zero or non-power-of-two dimension does not
/// pass (the non-strict mode only warns about it). The dimensions come from the library's parse of the same file.
fn lib_blp_strict(p: &Path) -> R {
    let img = wow_blp::parser::load_blp(p).map_err(es)?;
    let (w, h) = (img.header.width, img.header.height);
    if w == 0 || h == 0 || !w.is_power_of_two() || !h.is_power_of_two() {
        return Err(format!("strict validation cannot pass: {w}x{h} has a dimension that is zero or not a power of two"));
    }
    Ok(())
}
fn lib_blp_to_png(p: &Path) -> R {
    let img = wow_blp::parser::load_blp(p).map_err(es)?;
    wow_blp::convert::blp_to_image(&img, 0).map(|_| ()).map_err(es)
}
fn lib_blp_level_to_png(p: &Path, level: usize) -> R {
    let img = wow_blp::parser::load_blp(p).map_err(es)?;
    wow_blp::convert::blp_to_image(&img, level).map(|_| ()).map_err(es)
}
fn lib_blp_to_blp2_dxt5(p: &Path) -> RB {
    use wow_blp::convert::{Blp2Format, BlpTarget, DxtAlgorithm, image_to_blp};
    let img = wow_blp::parser::load_blp(p).map_err(es)?;
    let dynimg = wow_blp::convert::blp_to_image(&img, 0).map_err(es)?;
    let target = BlpTarget::Blp2(Blp2Format::Dxt5 { has_alpha: true, compress_algorithm: DxtAlgorithm::RangeFit });
    let blp = image_to_blp(dynimg, true, target, image::imageops::FilterType::Nearest).map_err(es)?;
    wow_blp::encode::encode_blp(&blp).map_err(es)
}
fn lib_png_to_blp(p: &Path) -> RB {
    use wow_blp::convert::{BlpOldFormat, BlpTarget, image_to_blp};
    let img = image::ImageReader::open(p).map_err(es)?.decode().map_err(es)?;
    let has_alpha = matches!(
        img,
        image::DynamicImage::ImageLumaA8(_) | image::DynamicImage::ImageLumaA16(_) | image::DynamicImage::ImageRgba8(_) | image::DynamicImage::ImageRgba16(_) | image::DynamicImage::ImageRgba32F(_)
    );
    let target = BlpTarget::Blp1(BlpOldFormat::Jpeg { has_alpha });
    let blp = image_to_blp(img, true, target, image::imageops::FilterType::Lanczos3).map_err(es)?;
    wow_blp::encode::encode_blp(&blp).map_err(es)
}

/// The three table shapes of the C05 DBC seeds (`Seed::aux`), as the YAML the CLI is given and as the Schema
/// `SchemaDefinition::to_schema` makes of it.
fn dbc_fields(which: usize) -> Vec<(&'static str, &'static str, Option<usize>)> {
    match which {
        0 => vec![("ID", "uint32", None), ("Name", "string", None), ("Value", "int32", None), ("Scale", "float32", None), ("Flag", "bool", None), ("Desc", "string", None)],
        1 => vec![("ID", "uint32", None), ("Stats", "uint32", Some(3)), ("Name", "string", None)],
        _ => vec![("ID", "uint32", None), ("A", "uint8", None), ("B", "int8", None), ("C", "uint16", None), ("D", "int16", None), ("E", "uint16", None), ("Name", "string", None)],
    }
}
fn dbc_yaml(which: usize) -> String {
    let mut s = format!("name: C20Table{which}\nkey_field: ID\nfields:\n");
    for (n, t, arr) in dbc_fields(which) {
        s.push_str(&format!("  - name: {n}\n    type_name: {t}\n"));
        if let Some(k) = arr {
            s.push_str(&format!("    is_array: true\n    array_size: {k}\n"));
        }
    }
    s
}
fn dbc_schema(which: usize) -> wow_cdbc::Schema {
    use wow_cdbc::{FieldType as T, Schema, SchemaField};
    let mut s = Schema::new(format!("C20Table{which}"));
    for (n, t, arr) in dbc_fields(which) {
        let ft = match t {
            "uint32" => T::UInt32,
            "int32" => T::Int32,
            "float32" => T::Float32,
            "string" => T::String,
            "bool" => T::Bool,
            "uint8" => T::UInt8,
            "int8" => T::Int8,
            "uint16" => T::UInt16,
            _ => T::Int16,
        };
        s.add_field(match arr {
            Some(k) => SchemaField::new_array(n, ft, k),
            None => SchemaField::new(n, ft),
        });
    }
    s.set_key_field("ID");
    s
}
fn lib_dbc_raw(p: &Path) -> R {
    let mut r = BufReader::new(File::open(p).map_err(es)?);
    let parser = wow_cdbc::DbcParser::parse(&mut r).map_err(es)?;
    parser.parse_records().map(|_| ()).map_err(es)
}
fn lib_dbc_schema(p: &Path, which: usize, sorted: bool) -> R {
    let mut r = BufReader::new(File::open(p).map_err(es)?);
    let parser = wow_cdbc::DbcParser::parse(&mut r).map_err(es)?;
    let parser = parser.with_schema(dbc_schema(which)).map_err(es)?;
    let mut rs = parser.parse_records().map_err(es)?;
    if sorted {
        rs.enable_string_caching();
        rs.create_sorted_key_map().map_err(es)?;
    }
    Ok(())
}
/// Number of records the schema-carrying parse yields (what `dbc export` has to write), if it succeeds.
fn dbc_record_count(p: &Path, which: usize) -> String {
    if nolib().is_some() {
        return String::new();
    }
    let n = trap(|| -> Option<usize> {
        let mut r = BufReader::new(File::open(p).ok()?);
        let parser = wow_cdbc::DbcParser::parse(&mut r).ok()?.with_schema(dbc_schema(which)).ok()?;
        Some(parser.parse_records().ok()?.len())
    });
    match n {
        Ok(Some(n)) => format!("records={n}"),
        _ => String::new(),
    }
}
fn lib_dbc_discover(p: &Path) -> R {
    let mut r = BufReader::new(File::open(p).map_err(es)?);
    let parser = wow_cdbc::DbcParser::parse(&mut r).map_err(es)?;
    let header = parser.header();
    let rs = parser.parse_records().map_err(es)?;
    let d = wow_cdbc::SchemaDiscoverer::new(header, parser.data(), rs.string_block())
        .with_max_records(100)
        .with_validate_strings(true)
        .with_detect_arrays(true)
        .with_detect_key(true);
    d.discover().map_err(es)?;
    let stem = p.file_stem().unwrap_or_default().to_string_lossy().to_string();
    d.generate_schema(&stem).map(|_| ()).map_err(es)
}

fn lib_m2_load(p: &Path) -> R {
    wow_m2::M2Model::load(p).map(|_| ()).map_err(es)
}
fn lib_m2_validate(p: &Path) -> R {
    let f = wow_m2::M2Model::load(p).map_err(es)?;
    f.model().validate().map_err(es)
}
fn lib_m2_convert(p: &Path, ver: &str, tmp: &Path) -> RB {
    let f = wow_m2::M2Model::load(p).map_err(es)?;
    let v = wow_m2::M2Version::from_expansion_name(ver).map_err(es)?;
    let c = wow_m2::M2Converter::new().convert(f.model(), v).map_err(es)?;
    let r = c.save(tmp).map_err(es);
    take(tmp, r)
}
fn lib_skin_load(p: &Path) -> R {
    wow_m2::SkinFile::load(p).map(|_| ()).map_err(es)
}
fn lib_skin_load_old(p: &Path) -> R {
    wow_m2::skin::SkinG::<wow_m2::skin::OldSkinHeader>::load(p).map(|_| ()).map_err(es)
}
fn lib_skin_convert(p: &Path, ver: &str, tmp: &Path) -> RB {
    let s = wow_m2::SkinFile::load(p).map_err(es)?;
    let v = wow_m2::M2Version::from_expansion_name(ver).map_err(es)?;
    let c = s.convert(v).map_err(es)?;
    let r = c.save(tmp).map_err(es);
    take(tmp, r)
}
fn lib_anim_load(p: &Path) -> R {
    wow_m2::AnimFile::load(p).map(|_| ()).map_err(es)
}
fn lib_anim_convert(p: &Path, ver: &str, tmp: &Path) -> RB {
    let a = wow_m2::AnimFile::load(p).map_err(es)?;
    let v = wow_m2::M2Version::from_expansion_name(ver).map_err(es)?;
    let c = a.convert(v);
    let r = c.save(tmp).map_err(es);
    take(tmp, r)
}

fn lib_wmo_parse(p: &Path) -> R {
    let mut r = BufReader::new(File::open(p).map_err(es)?);
    wow_wmo::parse_wmo_with_metadata(&mut r).map(|_| ()).map_err(es)
}
fn lib_wmo_convert(p: &Path, ver: &str) -> RB {
    let target = wow_wmo::WmoVersion::from_expansion_name(ver).ok_or("invalid version")?;
    let mut r = BufReader::new(File::open(p).map_err(es)?);
    let disc = wow_wmo::discover_wmo_chunks(&mut r).map_err(es)?;
    if !disc.chunks.iter().any(|c| c.id.as_str() == "MOHD") {
        return Err("group file conversion is not supported".into());
    }
    let mut r = BufReader::new(File::open(p).map_err(es)?);
    let mut root = wow_wmo::WmoParser::new().parse_root(&mut r).map_err(es)?;
    wow_wmo::WmoConverter::new().convert_root(&mut root, target).map_err(es)?;
    let mut out = Cursor::new(Vec::new());
    wow_wmo::WmoWriter::new().write_root(&mut out, &root, target).map_err(es)?;
    Ok(out.into_inner())
}

fn lib_adt_parse(p: &Path) -> R {
    let mut r = BufReader::new(File::open(p).map_err(es)?);
    wow_adt::parse_adt_with_metadata(&mut r).map(|_| ()).map_err(es)
}
fn lib_adt_convert(p: &Path, ver: &str, tmp: &Path) -> RB {
    let target = wow_adt::AdtVersion::from_expansion_name(ver).ok_or("invalid version")?;
    let mut r = BufReader::new(File::open(p).map_err(es)?);
    let (adt, _meta) = wow_adt::parse_adt_with_metadata(&mut r).map_err(es)?;
    let root = match adt {
        wow_adt::ParsedAdt::Root(root) => root,
        _ => return Err("only root ADT files can be converted".into()),
    };
    let built = wow_adt::BuiltAdt::from_root_adt(*root, Some(target));
    let r = built.write_to_file(tmp).map_err(es);
    take(tmp, r)
}

fn lib_wdt_read(p: &Path, ver: &str) -> R {
    let v = wow_wdt::version::WowVersion::from_expansion_name(ver).map_err(es)?;
    let f = File::open(p).map_err(es)?;
    wow_wdt::WdtReader::new(BufReader::new(f), v).read().map(|_| ()).map_err(es)
}
fn lib_wdt_convert(p: &Path, from: &str, to: &str) -> RB {
    let fv = wow_wdt::version::WowVersion::from_expansion_name(from).map_err(es)?;
    let tv = wow_wdt::version::WowVersion::from_expansion_name(to).map_err(es)?;
    let f = File::open(p).map_err(es)?;
    let mut wdt = wow_wdt::WdtReader::new(BufReader::new(f), fv).read().map_err(es)?;
    let changes = wow_wdt::conversion::get_conversion_summary(fv, tv, wdt.is_wmo_only());
    if changes.is_empty() || (changes.len() == 1 && changes[0].contains("No conversion needed")) {
        return Ok(Vec::new()); // the sub-command stops here ("No conversion needed")
    }
    wow_wdt::conversion::convert_wdt(&mut wdt, fv, tv).map_err(es)?;
    let mut out = Vec::new();
    wow_wdt::WdtWriter::new(&mut out).write(&wdt).map_err(es)?;
    Ok(out)
}
fn wdt_conversion_is_noop(p: &Path, from: &str, to: &str) -> Option<bool> {
    if nolib().is_some() {
        return None;
    }
    let fv = wow_wdt::version::WowVersion::from_expansion_name(from).ok()?;
    let tv = wow_wdt::version::WowVersion::from_expansion_name(to).ok()?;
    let f = File::open(p).ok()?;
    let wdt = trap(|| wow_wdt::WdtReader::new(BufReader::new(f), fv).read()).ok()?.ok()?;
    let changes = wow_wdt::conversion::get_conversion_summary(fv, tv, wdt.is_wmo_only());
    Some(changes.is_empty() || (changes.len() == 1 && changes[0].contains("No conversion needed")))
}

fn wdl_version(s: &str) -> wow_wdl::version::WdlVersion {
    use wow_wdl::version::WdlVersion as V;
    match s {
        "vanilla" => V::Vanilla,
        "wotlk" => V::Wotlk,
        "cata" => V::Cataclysm,
        "mop" => V::Mop,
        "legion" => V::Legion,
        _ => V::Latest,
    }
}
fn wdl_parser(ver: Option<&str>) -> wow_wdl::parser::WdlParser {
    match ver {
        Some(v) => wow_wdl::parser::WdlParser::with_version(wdl_version(v)),
        None => wow_wdl::parser::WdlParser::new(),
    }
}
fn lib_wdl_parse(p: &Path, ver: Option<&str>) -> R {
    let mut r = BufReader::new(File::open(p).map_err(es)?);
    wdl_parser(ver).parse(&mut r).map(|_| ()).map_err(es)
}
fn lib_wdl_validate(p: &Path, ver: Option<&str>) -> R {
    let mut r = BufReader::new(File::open(p).map_err(es)?);
    let f = wdl_parser(ver).parse(&mut r).map_err(es)?;
    wow_wdl::validation::validate_wdl_file(&f).map_err(es)
}
fn lib_wdl_convert(p: &Path, from: Option<&str>, to: &str) -> RB {
    let mut r = BufReader::new(File::open(p).map_err(es)?);
    let f = wdl_parser(from).parse(&mut r).map_err(es)?;
    let target = wdl_version(to);
    let c = wow_wdl::conversion::convert_wdl_file(&f, target).map_err(es)?;
    let mut out = Cursor::new(Vec::new());
    wow_wdl::parser::WdlParser::with_version(target).write(&mut out, &c).map_err(es)?;
    Ok(out.into_inner())
}


// ---------------------------------------------------------------- facts ----
// Numbers and enumerations a sub-command prints, computed from the same library object it prints from.

fn facts(f: impl FnOnce() -> Option<Vec<Value>>) -> Value {
    if nolib().is_some() {
        return json!([]);
    }
    match trap(f) {
        Ok(Some(v)) => Value::Array(v),
        _ => json!([]),
    }
}
fn line(re: &str, want: impl ToString) -> Value {
    json!({"re": re, "want": want.to_string()})
}
fn count(re: &str, n: usize) -> Value {
    json!({"re": re, "count": n})
}

fn facts_blp_info(p: &Path) -> Value {
    facts(|| {
        let b = wow_blp::parser::load_blp(p).ok()?;
        Some(vec![line(r"^Dimensions: (\d+x\d+)$", format!("{}x{}", b.header.width, b.header.height)), line(r"^Image Count: (\d+)$", b.image_count())])
    })
}
fn facts_dbc(p: &Path, which: Option<usize>, sub: &str, limit: usize) -> Value {
    facts(|| {
        let mut r = BufReader::new(File::open(p).ok()?);
        let parser = wow_cdbc::DbcParser::parse(&mut r).ok()?;
        let h = parser.header().clone();
        let parser = match which {
            Some(w) => parser.with_schema(dbc_schema(w)).ok()?,
            None => parser,
        };
        let rs = parser.parse_records().ok()?;
        Some(match sub {
            "info" => vec![
                line(r"^Record Count: (\d+)$", h.record_count),
                line(r"^Field Count: (\d+)$", h.field_count),
                line(r"^Record Size: (\d+) bytes$", h.record_size),
                line(r"^String Block Size: (\d+) bytes$", h.string_block_size),
            ],
            "list" => vec![line(r"^Total records: (\d+)$", rs.len()), count(r"^Record \d+:$", limit.min(rs.len()))],
            "analyze" => vec![line(r"^Total records: (\d+)$", rs.len())],
            "validate" => vec![line(r"Successfully parsed (\d+) records", rs.len())],
            "discover" => vec![line(r"^Record Count: (\d+)$", h.record_count), line(r"^Field Count: (\d+)$", h.field_count)],
            _ => vec![],
        })
    })
}
fn facts_m2_info(p: &Path) -> Value {
    facts(|| {
        let f = wow_m2::M2Model::load(p).ok()?;
        let h = &f.model().header;
        Some(vec![
            line(r"^Version: (\d+)$", h.version),
            line(r"^Vertices: (\d+)$", h.vertices.count),
            line(r"^Bones: (\d+)$", h.bones.count),
            line(r"^Animations: (\d+)$", h.animations.count),
            line(r"^Textures: (\d+)$", h.textures.count),
        ])
    })
}
fn facts_skin_info(p: &Path) -> Value {
    facts(|| {
        let s = wow_m2::SkinFile::load(p).ok()?;
        Some(vec![
            line(r"^Indices: (\d+)$", s.indices().len()),
            line(r"^Triangles: (\d+)$", s.triangles().len()),
            line(r"^Bone Indices: (\d+)$", s.bone_indices().len()),
            line(r"^Submeshes: (\d+)$", s.submeshes().len()),
            line(r"^Batches: (\d+)$", s.batches().len()),
        ])
    })
}
fn facts_anim_info(p: &Path) -> Value {
    facts(|| {
        let a = wow_m2::AnimFile::load(p).ok()?;
        Some(vec![line(r"^Animation Sections: (\d+)$", a.animation_count())])
    })
}
fn facts_wmo_info(p: &Path) -> Value {
    facts(|| {
        let mut r = BufReader::new(File::open(p).ok()?);
        let res = wow_wmo::parse_wmo_with_metadata(&mut r).ok()?;
        Some(match &res.wmo {
            wow_wmo::ParsedWmo::Root(root) => vec![
                line(r"^File Type: (.+)$", "Root WMO"),
                line(r"^  Materials: (\d+)$", root.n_materials),
                line(r"^  Groups: (\d+)$", root.n_groups),
                line(r"^  Portals: (\d+)$", root.n_portals),
                line(r"^  Lights: (\d+)$", root.n_lights),
            ],
            wow_wmo::ParsedWmo::Group(g) => vec![line(r"^File Type: (.+)$", "Group WMO"), line(r"^  Triangles: (\d+)$", g.n_triangles), line(r"^  Vertices: (\d+)$", g.n_vertices)],
        })
    })
}
fn facts_adt(p: &Path, sub: &str) -> Value {
    facts(|| {
        let mut r = BufReader::new(File::open(p).ok()?);
        let (adt, meta) = wow_adt::parse_adt_with_metadata(&mut r).ok()?;
        if sub == "validate" {
            return Some(vec![line(r"^Chunks: (\d+)$", meta.chunk_count)]);
        }
        Some(match adt {
            wow_adt::ParsedAdt::Root(root) => vec![
                line(r"^  Chunks: (\d+)/256$", root.mcnk_chunks.len()),
                line(r"^Textures: (\d+)$", root.textures.len()),
                line(r"^Models \(M2\): (\d+)$", root.models.len()),
                line(r"^WMOs: (\d+)$", root.wmos.len()),
                line(r"^  M2 Doodads: (\d+)$", root.doodad_placements.len()),
                line(r"^  WMO Objects: (\d+)$", root.wmo_placements.len()),
            ],
            wow_adt::ParsedAdt::Tex0(t) | wow_adt::ParsedAdt::Tex1(t) => vec![line(r"^  Textures: (\d+)$", t.textures.len()), line(r"^  MCNK chunks with texture data: (\d+)$", t.mcnk_textures.len())],
            wow_adt::ParsedAdt::Obj0(o) | wow_adt::ParsedAdt::Obj1(o) => vec![
                line(r"^  M2 Models: (\d+)$", o.models.len()),
                line(r"^  WMO Objects: (\d+)$", o.wmos.len()),
                line(r"^  M2 Placements: (\d+)$", o.doodad_placements.len()),
                line(r"^  WMO Placements: (\d+)$", o.wmo_placements.len()),
            ],
            wow_adt::ParsedAdt::Lod(_) => vec![],
        })
    })
}
/// `wdt info` / `wdt tree` tile count and the full tile set `wdt tiles` has to enumerate (x, y, area id of every tile with an ADT).
fn facts_wdt(p: &Path, ver: &str, sub: &str) -> Value {
    facts(|| {
        let v = wow_wdt::version::WowVersion::from_expansion_name(ver).ok()?;
        let f = File::open(p).ok()?;
        let wdt = wow_wdt::WdtReader::new(BufReader::new(f), v).read().ok()?;
        Some(match sub {
            "info" => vec![line(r"^ADT Tiles: (\d+) / 4096 tiles$", wdt.count_existing_tiles())],
            "tree" => vec![line(r"tiles: (\d+)", wdt.count_existing_tiles())],
            _ => {
                let mut tiles = Vec::new();
                for y in 0..64usize {
                    for x in 0..64usize {
                        if let Some(t) = wdt.get_tile(x, y) {
                            if t.has_adt {
                                tiles.push(json!([x, y, t.area_id]));
                            }
                        }
                    }
                }
                vec![json!({"tiles": tiles})]
            }
        })
    })
}
fn facts_wdl_info(p: &Path) -> Value {
    facts(|| {
        let mut r = BufReader::new(File::open(p).ok()?);
        let f = wow_wdl::parser::WdlParser::new().parse(&mut r).ok()?;
        let tiles = f.map_tile_offsets.iter().filter(|o| **o != 0).count();
        Some(vec![line(r"^Total Chunks: (\d+)$", f.chunks.len()), line(r"^Map Tiles: (\d+)/4096$", tiles)])
    })
}
fn facts_wdl_tree(p: &Path, ver: &str) -> Value {
    facts(|| {
        let mut r = BufReader::new(File::open(p).ok()?);
        let f = wdl_parser(Some(ver)).parse(&mut r).ok()?;
        let tiles = f.map_tile_offsets.iter().filter(|o| **o != 0).count();
        Some(vec![line(r"chunks: (\d+)", f.chunks.len()), line(r"tiles: (\d+)", tiles)])
    })
}

// ------------------------------------------------------------ run plans ----

fn ext_of(fmt: &str) -> &'static str {
    match fmt {
        "m2" => "m2",
        "skin" => "skin",
        "anim" => "anim",
        "adt" => "adt",
        "wmo-root" | "wmo-group" => "wmo",
        "blp" => "blp",
        "dbc" => "dbc",
        "wdt" => "wdt",
        "wdl" => "wdl",
        "png" => "png",
        _ => "bin",
    }
}

/// WDT seeds are written for a given client version; the CLI needs it named (`--version`, default WotLK).
fn wdt_label_version(label: &str) -> &'static str {
    if label.contains("classic") {
        "classic"
    } else if label.contains("cata") {
        "cata"
    } else if label.contains("bfa") {
        "bfa"
    } else {
        "wotlk"
    }
}

fn plan(fmt: &str, seed: &Seed, class: &str, p: &Path, tmp: &Path, schema_path: &str) -> Vec<RunSpec> {
    let mut v: Vec<RunSpec> = Vec::new();
    fn push<L: Into<LibV>>(v: &mut Vec<RunSpec>, family: &'static str, sub: &'static str, opt: &'static str, args: Vec<String>, lib: L, out: Option<(&'static str, String, String)>, stdout: &'static str) {
        let l: LibV = lib.into();
        v.push(RunSpec { family, sub, opt, args, lib: l.v, out, stdout, expect: l.expect, facts: json!([]) });
    }
    macro_rules! add {
        ($($a:expr),* $(,)?) => { push(&mut v, $($a),*) };
    }
    // attach facts to the run added last
    macro_rules! with_facts {
        ($f:expr) => {
            if let Some(last) = v.last_mut() {
                last.facts = $f;
            }
        };
    }
    let valid = class == "valid";
    match fmt {
        "blp" => {
            let load = verdict(|| lib_blp_load(p));
            add!("blp", "info", "default", sv(&["blp", "info", "{in}"]), load.clone(), None, "text");
            with_facts!(facts_blp_info(p));
            add!("blp", "info", "all", sv(&["blp", "info", "{in}", "--all", "--raw", "--best-mipmap-for", "4"]), load.clone(), None, "text");
            add!("blp", "validate", "default", sv(&["blp", "validate", "{in}"]), load.clone(), None, "text");
            add!("blp", "validate", "strict", sv(&["blp", "validate", "{in}", "--strict"]), verdict(|| lib_blp_strict(p)), None, "text");
            add!("blp", "convert", "to-png", sv(&["blp", "convert", "{in}", "{out}.png"]), verdict(|| lib_blp_to_png(p)), Some(("png", "{out}.png".into(), String::new())), "text");
            // other mipmap levels: one that the texture may hold, and levels beyond anything a texture of this size stores
            // (the library's blp_to_image decides; a level that does not exist is a failed conversion)
            for level in [1usize, 4, 15] {
                add!("blp", "convert", if level == 1 { "to-png-level1" } else if level == 4 { "to-png-level4" } else { "to-png-level15" },
                     sv(&["blp", "convert", "{in}", "{out}.png", "--mipmap-level", &level.to_string()]), verdict(|| lib_blp_level_to_png(p, level)), Some(("png", "{out}.png".into(), String::new())), "text");
            }
            add!(
                "blp",
                "convert",
                "to-blp2-dxt5",
                sv(&["blp", "convert", "{in}", "{out}.blp", "--blp-version", "blp2", "--blp-format", "dxt5", "--alpha-bits", "8", "--dxt-compression", "fastest", "--mipmap-filter", "nearest"]),
                verdict_out(|| lib_blp_to_blp2_dxt5(p)),
                Some(("blp", "{out}.blp".into(), String::new())),
                "text",
            );
            add!("m2", "blp-info", "default", sv(&["m2", "blp-info", "{in}"]), load, None, "text");
        }
        "png" => {
            add!("blp", "convert", "png-to-blp1-jpeg", sv(&["blp", "convert", "{in}", "{out}.blp"]), verdict_out(|| lib_png_to_blp(p)), Some(("blp", "{out}.blp".into(), String::new())), "text");
        }
        "dbc" => {
            let which = seed.aux;
            let raw = verdict(|| lib_dbc_raw(p));
            let with = verdict(|| lib_dbc_schema(p, which, false));
            let nrec = dbc_record_count(p, which);
            add!("dbc", "info", "default", sv(&["dbc", "info", "{in}"]), raw.clone(), None, "text");
            with_facts!(facts_dbc(p, None, "info", 0));
            add!("dbc", "list", "no-schema", sv(&["dbc", "list", "{in}"]), raw.clone(), None, "text");
            with_facts!(facts_dbc(p, None, "list", 10));
            add!("dbc", "list", "schema", sv(&["dbc", "list", "{in}", "--schema", schema_path, "--limit", "3"]), with.clone(), None, "text");
            with_facts!(facts_dbc(p, Some(which), "list", 3));
            add!("dbc", "export", "json-file", sv(&["dbc", "export", "{in}", "--schema", schema_path, "--format", "json", "--output", "{out}.json"]), with.clone(), Some(("json", "{out}.json".into(), nrec.clone())), "text");
            add!("dbc", "export", "csv-file", sv(&["dbc", "export", "{in}", "--schema", schema_path, "--format", "csv", "--output", "{out}.csv"]), with.clone(), Some(("csv", "{out}.csv".into(), nrec.clone())), "text");
            add!("dbc", "export", "json-stdout", sv(&["dbc", "export", "{in}", "--schema", schema_path]), with.clone(), None, "json");
            add!("dbc", "analyze", "no-schema", sv(&["dbc", "analyze", "{in}"]), raw.clone(), None, "text");
            with_facts!(facts_dbc(p, None, "analyze", 0));
            add!("dbc", "analyze", "schema-sorted", sv(&["dbc", "analyze", "{in}", "--schema", schema_path, "--cache-strings", "--sorted-keys"]), verdict(|| lib_dbc_schema(p, which, true)), None, "text");
            with_facts!(facts_dbc(p, Some(which), "analyze", 0));
            add!("dbc", "validate", "schema", sv(&["dbc", "validate", "{in}", "--schema", schema_path]), with, None, "text");
            with_facts!(facts_dbc(p, Some(which), "validate", 0));
            let disc = verdict(|| lib_dbc_discover(p));
            add!("dbc", "discover", "text", sv(&["dbc", "discover", "{in}"]), disc.clone(), None, "text");
            with_facts!(facts_dbc(p, None, "discover", 0));
            add!("dbc", "discover", "text-file", sv(&["dbc", "discover", "{in}", "--output", "{out}.txt"]), disc.clone(), Some(("text-schema", "{out}.txt".into(), String::new())), "text");
            add!("dbc", "discover", "yaml-file", sv(&["dbc", "discover", "{in}", "--yaml", "--output", "{out}.yaml"]), disc, Some(("yaml-schema", "{out}.yaml".into(), String::new())), "text");
        }
        "m2" => {
            let load = verdict(|| lib_m2_load(p));
            let val = verdict(|| lib_m2_validate(p));
            add!("m2", "info", "default", sv(&["m2", "info", "{in}"]), load.clone(), None, "text");
            with_facts!(facts_m2_info(p));
            add!("m2", "info", "detailed", sv(&["m2", "info", "{in}", "--detailed"]), load.clone(), None, "text");
            with_facts!(facts_m2_info(p));
            add!("m2", "validate", "default", sv(&["m2", "validate", "{in}"]), val.clone(), None, "text");
            add!("m2", "validate", "warnings", sv(&["m2", "validate", "{in}", "--warnings"]), val, None, "text");
            add!("m2", "tree", "default", sv(&["m2", "tree", "{in}"]), load.clone(), None, "text");
            add!("m2", "tree", "size-refs", sv(&["m2", "tree", "{in}", "--size", "--refs", "--depth", "3"]), load, None, "text");
            for (opt, ver) in [("to-wotlk", "wotlk"), ("to-classic", "classic")] {
                add!("m2", "convert", opt, sv(&["m2", "convert", "{in}", "{out}.m2", "--version", ver]), verdict_out(|| lib_m2_convert(p, ver, tmp)), Some(("m2", "{out}.m2".into(), String::new())), "text");
            }
        }
        "skin" => {
            let load = verdict(|| lib_skin_load(p));
            add!("m2", "skin-info", "default", sv(&["m2", "skin-info", "{in}"]), load.clone(), None, "text");
            with_facts!(facts_skin_info(p));
            add!("m2", "skin-info", "detailed", sv(&["m2", "skin-info", "{in}", "--detailed"]), load, None, "text");
            with_facts!(facts_skin_info(p));
            add!("m2", "skin-info", "old-format", sv(&["m2", "skin-info", "{in}", "--old-format"]), verdict(|| lib_skin_load_old(p)), None, "text");
            for (opt, ver) in [("to-cata", "cata"), ("to-wotlk", "wotlk")] {
                add!("m2", "skin-convert", opt, sv(&["m2", "skin-convert", "{in}", "{out}.skin", "--version", ver]), verdict_out(|| lib_skin_convert(p, ver, tmp)), Some(("skin", "{out}.skin".into(), String::new())), "text");
            }
        }
        "anim" => {
            let load = verdict(|| lib_anim_load(p));
            add!("m2", "anim-info", "default", sv(&["m2", "anim-info", "{in}"]), load.clone(), None, "text");
            with_facts!(facts_anim_info(p));
            add!("m2", "anim-info", "detailed", sv(&["m2", "anim-info", "{in}", "--detailed"]), load, None, "text");
            with_facts!(facts_anim_info(p));
            for (opt, ver) in [("to-legion", "legion"), ("to-wotlk", "wotlk")] {
                add!("m2", "anim-convert", opt, sv(&["m2", "anim-convert", "{in}", "{out}.anim", "--version", ver]), verdict_out(|| lib_anim_convert(p, ver, tmp)), Some(("anim", "{out}.anim".into(), String::new())), "text");
            }
        }
        "wmo-root" | "wmo-group" => {
            let parse = verdict(|| lib_wmo_parse(p));
            add!("wmo", "info", "default", sv(&["wmo", "info", "{in}"]), parse.clone(), None, "text");
            with_facts!(facts_wmo_info(p));
            add!("wmo", "info", "detailed", sv(&["wmo", "info", "{in}", "--detailed"]), parse.clone(), None, "text");
            with_facts!(facts_wmo_info(p));
            add!("wmo", "validate", "default", sv(&["wmo", "validate", "{in}"]), parse.clone(), None, "text");
            add!("wmo", "validate", "warnings-detailed", sv(&["wmo", "validate", "{in}", "--warnings", "--detailed"]), parse.clone(), None, "text");
            add!("wmo", "tree", "default", sv(&["wmo", "tree", "{in}"]), parse.clone(), None, "text");
            add!("wmo", "tree", "detailed-refs", sv(&["wmo", "tree", "{in}", "--detailed", "--show-refs", "--no-color"]), parse, None, "text");
            for (opt, ver) in [("to-cata", "cata"), ("to-classic", "classic")] {
                add!("wmo", "convert", opt, sv(&["wmo", "convert", "{in}", "{out}.wmo", "--version", ver]), verdict_out(|| lib_wmo_convert(p, ver)), Some(("wmo", "{out}.wmo".into(), String::new())), "text");
            }
            if valid {
                // declared "not yet implemented": the truthful answer is a non-zero exit
                let ni = json!({"v": "err", "msg": "sub-command is declared not implemented in commands/wmo.rs"});
                add!("wmo", "list", "default", sv(&["wmo", "list", "{in}"]), ni.clone(), None, "none");
                add!("wmo", "export", "default", sv(&["wmo", "export", "{in}", "--output", "{out}.d"]), ni.clone(), None, "none");
                add!("wmo", "extract-groups", "default", sv(&["wmo", "extract-groups", "{in}", "--output", "{out}.g"]), ni, None, "none");
            }
        }
        "adt" => {
            let parse = verdict(|| lib_adt_parse(p));
            add!("adt", "info", "default", sv(&["adt", "info", "{in}"]), parse.clone(), None, "text");
            with_facts!(facts_adt(p, "info"));
            add!("adt", "info", "detailed", sv(&["adt", "info", "{in}", "--detailed"]), parse.clone(), None, "text");
            with_facts!(facts_adt(p, "info"));
            add!("adt", "validate", "default", sv(&["adt", "validate", "{in}"]), parse.clone(), None, "text");
            with_facts!(facts_adt(p, "validate"));
            add!("adt", "validate", "strict-warnings", sv(&["adt", "validate", "{in}", "--level", "strict", "--warnings"]), parse.clone(), None, "text");
            with_facts!(facts_adt(p, "validate"));
            add!("adt", "tree", "default", sv(&["adt", "tree", "{in}"]), parse.clone(), None, "text");
            add!("adt", "tree", "refs-compact", sv(&["adt", "tree", "{in}", "--show-refs", "--no-color", "--compact"]), parse, None, "text");
            for (opt, ver) in [("to-wotlk", "wotlk"), ("to-cata", "cataclysm")] {
                add!("adt", "convert", opt, sv(&["adt", "convert", "{in}", "{out}.adt", "--to", ver]), verdict_out(|| lib_adt_convert(p, ver, tmp)), Some(("adt", "{out}.adt".into(), String::new())), "text");
            }
        }
        "wdt" => {
            let own = wdt_label_version(&seed.label);
            let dflt = verdict(|| lib_wdt_read(p, "WotLK"));
            let ownv = verdict(|| lib_wdt_read(p, own));
            add!("wdt", "info", "default", sv(&["wdt", "info", "{in}"]), dflt.clone(), None, "text");
            with_facts!(facts_wdt(p, "WotLK", "info"));
            add!("wdt", "info", "detailed-own-version", sv(&["wdt", "info", "{in}", "--detailed", "--version", own]), ownv.clone(), None, "text");
            with_facts!(facts_wdt(p, own, "info"));
            add!("wdt", "validate", "default", sv(&["wdt", "validate", "{in}"]), dflt.clone(), None, "text");
            add!("wdt", "validate", "warnings-own-version", sv(&["wdt", "validate", "{in}", "--warnings", "--version", own]), ownv.clone(), None, "text");
            add!("wdt", "tiles", "text", sv(&["wdt", "tiles", "{in}"]), dflt.clone(), None, "text");
            with_facts!(facts_wdt(p, "WotLK", "tiles"));
            add!("wdt", "tiles", "json", sv(&["wdt", "tiles", "{in}", "--format", "json", "--version", own]), ownv.clone(), None, "json");
            with_facts!(facts_wdt(p, own, "tiles"));
            add!("wdt", "tiles", "csv", sv(&["wdt", "tiles", "{in}", "--format", "csv", "--version", own]), ownv.clone(), None, "csv");
            with_facts!(facts_wdt(p, own, "tiles"));
            add!("wdt", "tree", "default", sv(&["wdt", "tree", "{in}"]), dflt, None, "text");
            with_facts!(facts_wdt(p, "WotLK", "tree"));
            add!("wdt", "tree", "compact-own-version", sv(&["wdt", "tree", "{in}", "--compact", "--no-color", "--no-external-refs", "--version", own]), ownv.clone(), None, "text");
            for (opt, to) in [("own-to-cata", "cata"), ("own-to-classic", "classic"), ("own-to-bfa", "bfa")] {
                let noop = wdt_conversion_is_noop(p, own, to).unwrap_or(false);
                let out = if noop { None } else { Some(("wdt", "{out}.wdt".to_string(), to.to_string())) };
                let optn: &'static str = if noop {
                    match opt {
                        "own-to-cata" => "own-to-cata(no-change)",
                        "own-to-classic" => "own-to-classic(no-change)",
                        _ => "own-to-bfa(no-change)",
                    }
                } else {
                    opt
                };
                add!("wdt", "convert", optn, sv(&["wdt", "convert", "{in}", "{out}.wdt", "--from-version", own, "--to-version", to]), verdict_out(|| lib_wdt_convert(p, own, to)), out, "text");
            }
            add!("wdt", "convert", "preview", sv(&["wdt", "convert", "{in}", "{out}.wdt", "-f", own, "-t", "mop", "--preview"]), ownv, None, "text");
        }
        "wdl" => {
            let auto = verdict(|| lib_wdl_parse(p, None));
            add!("wdl", "info", "default", sv(&["wdl", "info", "{in}"]), auto, None, "text");
            with_facts!(facts_wdl_info(p));
            add!("wdl", "validate", "auto", sv(&["wdl", "validate", "{in}"]), verdict(|| lib_wdl_validate(p, None)), None, "text");
            add!("wdl", "validate", "as-wotlk", sv(&["wdl", "validate", "{in}", "--version", "wotlk"]), verdict(|| lib_wdl_validate(p, Some("wotlk"))), None, "text");
            add!("wdl", "tree", "default", sv(&["wdl", "tree", "{in}"]), verdict(|| lib_wdl_parse(p, Some("wotlk"))), None, "text");
            with_facts!(facts_wdl_tree(p, "wotlk"));
            add!("wdl", "tree", "as-legion-compact", sv(&["wdl", "tree", "{in}", "--version", "legion", "--compact", "--no-color", "--no-external-refs"]), verdict(|| lib_wdl_parse(p, Some("legion"))), None, "text");
            for (opt, to) in [("to-legion", "legion"), ("to-vanilla", "vanilla"), ("to-wotlk", "wotlk")] {
                add!("wdl", "convert", opt, sv(&["wdl", "convert", "{in}", "{out}.wdl", "--to", to]), verdict_out(|| lib_wdl_convert(p, None, to)), Some(("wdl", "{out}.wdl".into(), to.to_string())), "text");
            }
        }
        _ => {}
    }
    v
}

// ----------------------------------------------------------- mutations ----

fn class_of(m: &Mut) -> String {
    match m {
        Mut::Identity => "valid".into(),
        Mut::Prefix(_) => "truncated".into(),
        Mut::Field { width, .. } => format!("corrupt-u{}-field", (*width as u32) * 8),
        Mut::Chunk { op, .. } => {
            if op.starts_with("size") {
                "corrupt-chunk-size".into()
            } else if *op == "magic-flip" {
                "corrupt-chunk-magic".into()
            } else {
                "corrupt-chunk-structure".into()
            }
        }
        Mut::Havoc(_) => "corrupt-havoc".into(),
        Mut::Blob { .. } => "corrupt-external".into(),
    }
}

fn pick_truncations(seed: &Seed, n: usize, rng: &mut Rng) -> Vec<Mut> {
    let len = seed.bytes.len();
    let mut cuts: Vec<usize> = Vec::new();
    // structural cut points first: nothing, inside the magic, after the magic, inside the first size/field, one byte short
    for c in [0usize, 2, 4, 7, len.saturating_sub(1), len / 2] {
        if c < len && !cuts.contains(&c) {
            cuts.push(c);
        }
    }
    let all: Vec<usize> = c05_common::prefix_mutants(seed).into_iter().filter_map(|m| if let Mut::Prefix(k) = m { Some(k) } else { None }).collect();
    let mut guard = 0;
    while cuts.len() < n && guard < 10_000 && !all.is_empty() {
        guard += 1;
        let c = *rng.pick(&all);
        if c < len && !cuts.contains(&c) {
            cuts.push(c);
        }
    }
    cuts.truncate(n.max(1));
    cuts.sort_unstable();
    cuts.into_iter().map(Mut::Prefix).collect()
}

fn pick_corruptions(fmt: &FormatDef, seed: &Seed, n: usize, rng: &mut Rng, verif_seed: u64) -> Vec<Mut> {
    let offs = c05_common::field_offsets(seed, 400, 0);
    let mut by_class: BTreeMap<String, Vec<Mut>> = BTreeMap::new();
    for m in c05_common::field_mutants(seed, &offs).into_iter().chain(c05_common::chunk_mutants(seed)) {
        by_class.entry(class_of(&m)).or_default().push(m);
    }
    let classes: Vec<String> = by_class.keys().cloned().collect();
    let mut out: Vec<Mut> = Vec::new();
    let mut seen: Vec<u64> = vec![fnv64(&seed.bytes)];
    let mut guard = 0;
    while out.len() < n && guard < 10_000 && !classes.is_empty() {
        guard += 1;
        // round-robin over the classes, random member
        let c = &classes[(out.len() + guard) % classes.len()];
        let cand = &by_class[c];
        let m = rng.pick(cand).clone();
        let bytes = c05_common::apply(fmt, seed, &m, verif_seed);
        let h = fnv64(&bytes);
        if !seen.contains(&h) {
            seen.push(h);
            out.push(m);
        }
    }
    out
}

fn png_bytes(alpha: bool) -> Vec<u8> {
    let (w, h) = (16u32, 8u32);
    let mut buf = Cursor::new(Vec::new());
    if alpha {
        let mut img = image::RgbaImage::new(w, h);
        for (x, y, p) in img.enumerate_pixels_mut() {
            *p = image::Rgba([(x * 16) as u8, (y * 32) as u8, ((x ^ y) * 8) as u8, ((x * 37 + y * 11) % 256) as u8]);
        }
        image::DynamicImage::ImageRgba8(img).write_to(&mut buf, image::ImageFormat::Png).expect("png encode");
    } else {
        let mut img = image::RgbImage::new(w, h);
        for (x, y, p) in img.enumerate_pixels_mut() {
            *p = image::Rgb([(x * 16) as u8, (y * 32) as u8, ((x ^ y) * 8) as u8]);
        }
        image::DynamicImage::ImageRgb8(img).write_to(&mut buf, image::ImageFormat::Png).expect("png encode");
    }
    buf.into_inner()
}

/// A WDT whose existing tiles sit on every border of the 64x64 grid (first/last row and column) with distinct area ids:
/// whatever enumerates tiles has to reach x = 63 and y = 63.
fn wdt_border_seed() -> Seed {
    let mut w = wow_wdt::WdtFile::new(wow_wdt::version::WowVersion::WotLK);
    for (i, &(x, y)) in [(0usize, 0usize), (63, 0), (0, 63), (63, 63), (63, 5), (7, 63), (31, 32), (62, 62)].iter().enumerate() {
        if let Some(e) = w.main.get_mut(x, y) {
            e.set_has_adt(true);
            e.area_id = 100 + i as u32;
        }
    }
    w.mwmo = Some(wow_wdt::chunks::MwmoChunk::new());
    let mut out = Vec::new();
    wow_wdt::WdtWriter::new(&mut out).write(&w).expect("WDT writer failed on a valid object");
    Seed::chunked("wdt/wotlk-border-tiles", out)
}

/// Models that load but do not pass `M2Model::validate()` (no vertices; one bone whose parent does not exist): the input is
/// well-formed, the verdict every validating sub-command owes is "invalid".
fn m2_loads_but_invalid_seeds() -> Vec<Seed> {
    let mut out = Vec::new();
    for (label, with_bone) in [("m2/wotlk-no-vertices", false), ("m2/wotlk-bone-parent-out-of-range", true)] {
        let mut m = wow_m2::M2Model::default();
        m.header = wow_m2::header::M2Header::new(wow_m2::M2Version::WotLK);
        if with_bone {
            if let Ok(v) = wow_m2::chunks::M2Vertex::parse(&mut Cursor::new(vec![0u8; 64]), 264) {
                m.vertices = vec![v];
            }
            if let Ok(mut b) = wow_m2::chunks::bone::M2Bone::parse(&mut Cursor::new(vec![0u8; 256]), 264) {
                b.parent_bone = 57;
                m.bones = vec![b];
            }
        }
        let mut cur = Cursor::new(Vec::new());
        if m.write(&mut cur).is_ok() {
            let bytes = cur.into_inner();
            let loads = wow_m2::parse_m2(&mut Cursor::new(&bytes[..]));
            if let Ok(f) = loads {
                if f.model().validate().is_err() {
                    out.push(Seed::fixed(label, bytes, 0x130));
                }
            }
        }
    }
    out
}

// ------------------------------------------------------------ generate ----

fn generate(a: &BTreeMap<String, String>) {
    let out = PathBuf::from(a.get("out").expect("--out"));
    let verif_seed: u64 = a.get("seed").and_then(|s| s.parse().ok()).unwrap_or(1);
    let thorough = a.get("tier").map(|s| s == "thorough").unwrap_or(false);
    let start: u64 = a.get("start").and_then(|s| s.parse().ok()).unwrap_or(0);
    let journal = a.get("journal").expect("--journal");
    let skip: BTreeMap<u64, String> = a
        .get("nolib")
        .map(|s| s.split(',').filter_map(|x| x.split_once(':')).filter_map(|(i, k)| i.parse().ok().map(|i| (i, k.to_string()))).collect())
        .unwrap_or_default();
    let mut j = std::fs::OpenOptions::new().create(true).append(true).open(journal).expect("journal");
    std::fs::create_dir_all(&out).expect("out dir");
    let tmpdir = out.join("libtmp");
    std::fs::create_dir_all(&tmpdir).expect("tmp dir");
    let (nseeds, ntrunc, ncorrupt) = if thorough { (usize::MAX, 16, 24) } else { (2, 8, 8) };

    let mut formats: Vec<FormatDef> = Vec::new();
    formats.extend(fmt_m2::formats());
    formats.extend(fmt_adt::formats());
    formats.extend(fmt_wmo::formats());
    formats.extend(fmt_tables::formats());
    formats.extend(fmt_world::formats());
    let ctx = SeedCtx { scratch: out.clone(), seeds_dir: None, thorough };

    // DBC schemas the CLI is pointed at
    for which in 0..3 {
        std::fs::write(out.join(format!("schema{which}.yaml")), dbc_yaml(which)).expect("schema");
    }

    let mut idx: u64 = 0;
    let mut emit = |fmtname: &str, fdef: Option<&FormatDef>, seed: &Seed, si: usize, vi: usize, m: &Mut, bytes: Vec<u8>, j: &mut File| {
        let my = idx;
        idx += 1;
        let class = class_of(m);
        let dir = out.join(format!("{}-{}", fmtname, si));
        let name = format!("v{:02}.{}", vi, ext_of(fmtname));
        let path = dir.join(&name);
        if my < start {
            return;
        }
        std::fs::create_dir_all(&dir).expect("dir");
        std::fs::write(&path, &bytes).expect("write input");
        writeln!(j, "{}", json!({"e": "B", "i": my, "file": path.to_string_lossy()})).ok();
        j.flush().ok();
        *NOLIB.lock().unwrap() = skip.get(&my).cloned();
        let schema = out.join(format!("schema{}.yaml", seed.aux.min(2))).to_string_lossy().to_string();
        let tmp = tmpdir.join(format!("lib-{my}.bin"));
        let runs = plan(fmtname, seed, &class, &path, &tmp, &schema);
        let runs_json: Vec<Value> = runs
            .iter()
            .map(|r| {
                json!({"family": r.family, "sub": r.sub, "opt": r.opt, "args": r.args, "lib": r.lib,
                       "out": r.out.as_ref().map(|(k, p, arg)| json!({"kind": k, "path": p, "arg": arg, "expect": r.expect})), "stdout": r.stdout, "facts": r.facts})
            })
            .collect();
        let _ = fdef;
        writeln!(
            j,
            "{}",
            json!({"e": "F", "i": my, "file": path.to_string_lossy(), "fmt": fmtname, "seed": seed.label, "class": class, "mut": m.describe(),
                   "size": bytes.len(), "runs": runs_json})
        )
        .ok();
        j.flush().ok();
    };

    for f in &formats {
        let mut seeds = (f.seeds)(&ctx);
        if f.name == "wdt" {
            seeds.push(wdt_border_seed());
        }
        let n_extra_m2 = if f.name == "m2" {
            let e = m2_loads_but_invalid_seeds();
            let n = e.len();
            seeds.extend(e);
            n
        } else {
            0
        };
        if seeds.is_empty() {
            continue;
        }
        // quick: the first seed + one that rotates with VERIF_SEED; thorough: all
        let mut chosen: Vec<usize> = Vec::new();
        if nseeds >= seeds.len() {
            chosen.extend(0..seeds.len());
        } else {
            chosen.push(0);
            if seeds.len() > 1 {
                chosen.push(1 + ((verif_seed.wrapping_add(fnv64(f.name.as_bytes()))) % (seeds.len() as u64 - 1)) as usize);
            }
            if f.name == "wdt" && !chosen.contains(&(seeds.len() - 1)) {
                chosen.push(seeds.len() - 1); // the border-tile seed is part of every run
            }
            for k in 0..n_extra_m2 {
                if !chosen.contains(&(seeds.len() - 1 - k)) {
                    chosen.push(seeds.len() - 1 - k); // loads-but-invalid models are part of every run
                }
            }
        }
        for &si in &chosen {
            let seed = &seeds[si];
            let mut rng = Rng::for_case(verif_seed, fnv64(seed.label.as_bytes()), 20);
            let mut muts: Vec<Mut> = vec![Mut::Identity];
            muts.extend(pick_truncations(seed, ntrunc, &mut rng));
            muts.extend(pick_corruptions(f, seed, ncorrupt, &mut rng, verif_seed));
            for (vi, m) in muts.iter().enumerate() {
                let bytes = c05_common::apply(f, seed, m, verif_seed);
                emit(f.name, Some(f), seed, si, vi, m, bytes, &mut j);
            }
        }
    }
    // PNG inputs for `blp convert <png> <blp>`: valid + truncations + a corrupted IHDR field
    for (si, alpha) in [(0usize, true), (1usize, false)] {
        if !thorough && si == 1 {
            continue;
        }
        let bytes = png_bytes(alpha);
        let seed = Seed::fixed(format!("png/{}", if alpha { "rgba-16x8" } else { "rgb-16x8" }), bytes.clone(), 33);
        let mut muts: Vec<Mut> = vec![Mut::Identity];
        for c in [0usize, 4, 8, 20, 33, bytes.len() / 2, bytes.len() - 1] {
            muts.push(Mut::Prefix(c));
        }
        // IHDR width / height / bit depth+colour type (CRC then fails or dimensions are absurd)
        muts.push(Mut::Field { off: 16, width: 4, val: 0, tag: "0" });
        muts.push(Mut::Field { off: 20, width: 4, val: 0xFFFF_FFFF, tag: "2^32-1" });
        muts.push(Mut::Field { off: 24, width: 2, val: 0xFFFF, tag: "0xFFFF" });
        for (vi, m) in muts.iter().enumerate() {
            let b = match m {
                Mut::Identity => bytes.clone(),
                Mut::Prefix(k) => bytes[..*k].to_vec(),
                Mut::Field { off, width, val, .. } => {
                    let mut d = bytes.clone();
                    for i in 0..(*width as usize) {
                        d[off + i] = (val >> (8 * i)) as u8;
                    }
                    d
                }
                _ => bytes.clone(),
            };
            emit("png", None, &seed, si, vi, m, b, &mut j);
        }
    }
    writeln!(j, "{}", json!({"e": "D", "n": idx})).ok();
}

// -------------------------------------------------------------- verify ----

fn verify_one(kind: &str, path: &Path, arg: &str) -> R {
    let md = std::fs::metadata(path).map_err(es)?;
    if md.len() == 0 {
        return Err("empty file".into());
    }
    match kind {
        "m2" => lib_m2_load(path),
        "skin" => lib_skin_load(path),
        "anim" => lib_anim_load(path),
        "wmo" => lib_wmo_parse(path),
        "adt" => lib_adt_parse(path),
        "wdt" => lib_wdt_read(path, if arg.is_empty() { "wotlk" } else { arg }),
        "wdl" => lib_wdl_parse(path, if arg.is_empty() { None } else { Some(arg) }),
        "blp" => lib_blp_to_png(path),
        "png" => image::ImageReader::open(path).map_err(es)?.with_guessed_format().map_err(es)?.decode().map(|_| ()).map_err(es),
        "json" => {
            let s = std::fs::read_to_string(path).map_err(es)?;
            serde_json::from_str::<Value>(&s).map(|_| ()).map_err(es)
        }
        _ => Ok(()),
    }
}

fn verify(a: &BTreeMap<String, String>) {
    let list: Vec<Value> = serde_json::from_str(&std::fs::read_to_string(a.get("verify").unwrap()).expect("list")).expect("list json");
    let start: usize = a.get("start").and_then(|s| s.parse().ok()).unwrap_or(0);
    let journal = a.get("journal").expect("--journal");
    let mut j = std::fs::OpenOptions::new().create(true).append(true).open(journal).expect("journal");
    for (k, it) in list.iter().enumerate() {
        if k < start {
            continue;
        }
        writeln!(j, "{}", json!({"e": "B", "i": k})).ok();
        j.flush().ok();
        let kind = it["kind"].as_str().unwrap_or("");
        let path = PathBuf::from(it["path"].as_str().unwrap_or(""));
        let arg = it["arg"].as_str().unwrap_or("");
        let v = verdict(|| verify_one(kind, &path, arg));
        writeln!(j, "{}", json!({"e": "V", "i": k, "id": it["id"], "ok": v["v"] == "ok", "v": v})).ok();
        j.flush().ok();
    }
    writeln!(j, "{}", json!({"e": "D", "n": list.len()})).ok();
}

fn main() {
    vh_common::install_panic_trap();
    let a = args();
    if a.contains_key("verify") {
        verify(&a);
    } else {
        generate(&a);
    }
}
