//! C18 — WDT / WDL write→parse, tile↔world coordinates, version conversion. DESIGN.md §6 C18.
//!
//! Ground truth is always the harness's own plain model (grids indexed [y*64+x], lists of plain records);
//! library objects are built from it through the public API and what comes back is compared with the model.

use serde_json::{Value, json};
use std::collections::BTreeMap;
use std::io::Cursor;
use vh_common::{Case, Rng, Run, first_diff, fnv64, trap};

use wow_wdl::conversion::convert_wdl_file;
use wow_wdl::parser::WdlParser;
use wow_wdl::types::{BoundingBox, HeightMapTile, HolesData, M2Placement, M2VisibilityInfo, ModelPlacement, Vec3d, WdlFile};
use wow_wdl::version::WdlVersion;
use wow_wdt::chunks::maid::MaidSection;
use wow_wdt::chunks::mphd::FileDataIds;
use wow_wdt::chunks::{MaidChunk, ModfChunk, ModfEntry, MphdFlags, MwmoChunk};
use wow_wdt::conversion::convert_wdt;
use wow_wdt::version::WowVersion;
use wow_wdt::{WdtFile, WdtReader, WdtWriter, tile_to_world, world_to_tile};

const SHAPES: &[&str] = &["empty", "full", "corner-0-0", "corner-63-0", "corner-0-63", "corner-63-63", "diagonal", "lshape", "rand1", "rand50"];

/// Tiles (x, y) present for a grid shape.
fn grid(shape: &str, rng: &mut Rng) -> Vec<(u32, u32)> {
    let mut v = Vec::new();
    match shape {
        "empty" => {}
        "full" => {
            for y in 0..64 {
                for x in 0..64 {
                    v.push((x, y));
                }
            }
        }
        "corner-0-0" => v.push((0, 0)),
        "corner-63-0" => v.push((63, 0)),
        "corner-0-63" => v.push((0, 63)),
        "corner-63-63" => v.push((63, 63)),
        "diagonal" => {
            for i in 0..64 {
                v.push((i, i));
            }
        }
        "lshape" => {
            // asymmetric under transposition: a long vertical bar at x=3 and a short foot along y=40
            for y in 5..=40 {
                v.push((3, y));
            }
            for x in 4..=20 {
                v.push((x, 40));
            }
        }
        "rand1" | "rand50" => {
            let (num, den) = if shape == "rand1" { (1, 100) } else { (1, 2) };
            for y in 0..64 {
                for x in 0..64 {
                    if rng.chance(num, den) {
                        v.push((x, y));
                    }
                }
            }
            if v.is_empty() {
                v.push((17, 5));
            }
        }
        _ => {}
    }
    v
}

fn fin_f32(rng: &mut Rng) -> f32 {
    match rng.below(8) {
        0 => 0.0,
        1 => -0.0,
        2 => 1.0,
        3 => -17066.666,
        4 => f32::from_bits(1),
        _ => (rng.below(4_000_000) as f32 - 2_000_000.0) / 117.0,
    }
}

fn vec3(rng: &mut Rng) -> [u32; 3] {
    [fin_f32(rng).to_bits(), fin_f32(rng).to_bits(), fin_f32(rng).to_bits()]
}

fn wmo_name(rng: &mut Rng) -> String {
    // file names are byte strings in the files and Strings in the library: non-ASCII (UTF-8) names must survive as well
    const DIRS: &[&str] = &["World\\wmo\\Dungeon\\", "world\\wmo\\kalimdor\\", "WORLD\\WMO\\", "w\\", "World\\wmo\\Höhle\\", "世界\\wmo\\"];
    format!("{}KL_{:04}_{}{}.wmo", rng.pick(DIRS), rng.below(10000), rng.below(7), if rng.below(5) == 0 { "_é" } else { "" })
}

/// Chunk walker written against the format description: [magic(4, reversed on disk)] [size u32 LE] [payload].
/// Returns (name as read in the file order e.g. "MVER", offset of the chunk header, payload range).
fn walk(bytes: &[u8]) -> Result<Vec<(String, usize, std::ops::Range<usize>)>, String> {
    let mut out = Vec::new();
    let mut p = 0usize;
    while p < bytes.len() {
        if p + 8 > bytes.len() {
            return Err(format!("truncated chunk header at {p}"));
        }
        let mut m = [bytes[p + 3], bytes[p + 2], bytes[p + 1], bytes[p]];
        for b in &mut m {
            if !b.is_ascii_graphic() {
                *b = b'?';
            }
        }
        let size = u32::from_le_bytes([bytes[p + 4], bytes[p + 5], bytes[p + 6], bytes[p + 7]]) as usize;
        if p + 8 + size > bytes.len() {
            return Err(format!("chunk {} at {p} claims {size} bytes beyond the end", String::from_utf8_lossy(&m)));
        }
        out.push((String::from_utf8_lossy(&m).to_string(), p, p + 8..p + 8 + size));
        p += 8 + size;
    }
    Ok(out)
}

/// Library error texts may quote raw bytes of the file; keep witnesses printable.
fn clean(s: String) -> String {
    s.chars().map(|ch| if ch.is_control() { '?' } else { ch }).take(300).collect()
}

fn u32_at(b: &[u8], o: usize) -> u32 {
    u32::from_le_bytes([b[o], b[o + 1], b[o + 2], b[o + 3]])
}

// =====================================================================================================
// coordinates
// =====================================================================================================

const TILE: f64 = 533.333_3;

/// One exhaustive clause over all 4096 tiles; the failing set is summarised into the signature.
fn coord_case(c: &mut Case, clause: &str) {
    let mut fails: Vec<(u32, u32, u32, u32)> = Vec::new();
    let mut n = 0u64;
    for x in 0..64u32 {
        for y in 0..64u32 {
            let (wx, wy) = tile_to_world(x, y);
            let pts: Vec<(f32, f32)> = match clause {
                "corner" => vec![(wx, wy)],
                // tile_to_world decreases as the index grows, so the tile's interior lies towards smaller world values
                "centre" => vec![((wx as f64 - TILE / 2.0) as f32, (wy as f64 - TILE / 2.0) as f32)],
                // result must be a tile of the 64x64 grid for every point of the map including its outermost edge
                _ => vec![(wx, wy), ((wx as f64 - TILE) as f32, (wy as f64 - TILE) as f32), ((wx as f64 - TILE / 2.0) as f32, (wy as f64 - TILE / 2.0) as f32)],
            };
            for (px, py) in pts {
                n += 1;
                let (bx, by) = world_to_tile(px, py);
                let bad = if clause == "range" { bx > 63 || by > 63 } else { (bx, by) != (x, y) };
                if bad && !fails.iter().any(|f| (f.0, f.1) == (x, y)) {
                    fails.push((x, y, bx, by));
                }
            }
        }
    }
    c.count("coord_tiles_enumerated", 4096);
    c.count(&format!("coord_points|{clause}"), n);
    c.count(&format!("coord_tiles_failing|{clause}"), fails.len() as u64);
    if !fails.is_empty() {
        let mut ser = Vec::new();
        for f in &fails {
            ser.extend_from_slice(&[f.0 as u8, f.1 as u8, f.2 as u8, f.3 as u8]);
        }
        let f0 = fails[0];
        let sig = format!("coord|{clause}|fail={}|first={},{}->{},{}|set={:08x}", fails.len(), f0.0, f0.1, f0.2, f0.3, fnv64(&ser) as u32);
        let what = match clause {
            "range" => format!("world_to_tile returned an index outside 0..63 for points of {} tiles; first tile ({},{}) -> ({},{})", fails.len(), f0.0, f0.1, f0.2, f0.3),
            _ => format!(
                "world_to_tile(tile_to_world(x,y){}) != (x,y) for {} of 4096 tiles; first ({},{}) -> ({},{})",
                if clause == "centre" { " - half a tile" } else { "" },
                fails.len(), f0.0, f0.1, f0.2, f0.3
            ),
        };
        let sample: Vec<Value> = fails.iter().take(12).map(|f| json!([[f.0, f.1], [f.2, f.3]])).collect();
        c.violate(sig, what, json!({"clause": clause, "failing": fails.len(), "first_failures": sample}));
    }
}

// =====================================================================================================
// WDT
// =====================================================================================================

const WDT_VERS: &[(WowVersion, &str)] = &[
    (WowVersion::Classic, "Classic"),
    (WowVersion::TBC, "TBC"),
    (WowVersion::WotLK, "WotLK"),
    (WowVersion::Cataclysm, "Cataclysm"),
    (WowVersion::MoP, "MoP"),
    (WowVersion::WoD, "WoD"),
    (WowVersion::Legion, "Legion"),
    (WowVersion::BfA, "BfA"),
    (WowVersion::Shadowlands, "Shadowlands"),
    (WowVersion::Dragonflight, "Dragonflight"),
];
const N_WDT_VERS: u64 = WDT_VERS.len() as u64;

/// Format era by the harness's own table (not the library's predicates): 0..=2 pre-Cataclysm, 3..=6 Cataclysm+, 7..=9 BfA and
/// later (one format: MAID file-id table, file ids in MPHD).
fn wdt_era(v: usize) -> &'static str {
    if v <= 2 { "pre-cata" } else if v <= 6 { "cata+" } else { "bfa" }
}

#[derive(Clone)]
struct ModfM {
    id: u32,
    unique_id: u32,
    position: [u32; 3],
    rotation: [u32; 3],
    lower: [u32; 3],
    upper: [u32; 3],
    flags: u16,
    doodad_set: u16,
    name_set: u16,
    scale: u16,
}

struct WdtModel {
    ver: usize,
    /// [y*64+x] -> (flags, area_id)
    main: Vec<(u32, u32)>,
    flags: u32,
    something: u32,
    unused: [u32; 6],
    ids: Option<[u32; 7]>,
    /// mirror the file ids into something/unused (the form the reader produces)
    mirror: bool,
    mwmo: Option<Vec<String>>,
    modf: Option<Vec<ModfM>>,
    /// sections × [y*64+x]
    maid: Option<Vec<Vec<u32>>>,
}

struct WdtSpec {
    ver: usize,
    shape: &'static str,
    wmo_only: bool,
    /// 0 none, 1 empty chunk, 2 one name, 3 two names
    mwmo: u8,
    modf: u8,
    /// 0 none, else number of sections
    maid: u8,
    mirror: bool,
    dirty: bool,
    wild_flags: bool,
    /// how the root-ADT ids of the file-id table relate to MAIN's presence bits: 0 an id for exactly the present tiles,
    /// 1 ids for only some of the present tiles, 2 an all-zero table (what convert_wdt itself creates on an upgrade),
    /// 3 ids for the present tiles and for some absent ones
    maid_rel: u8,
}

const MAID_RELS: [&str; 4] = ["ids=present-tiles", "ids-for-some-present-tiles", "all-zero-table", "ids-also-for-absent-tiles"];

impl WdtSpec {
    fn class(&self) -> String {
        format!(
            "wdt|{}|{}|{}|mwmo{}|modf{}|maid{}{}{}",
            WDT_VERS[self.ver].1,
            self.shape,
            if self.wmo_only { "wmo-only" } else { "terrain" },
            self.mwmo,
            self.modf,
            self.maid,
            if self.dirty { "|dirty" } else { "" },
            if self.mirror && self.maid > 0 { "|mirror" } else { "" }
        ) + &(if self.maid > 0 && self.maid_rel > 0 { format!("|{}", MAID_RELS[self.maid_rel as usize]) } else { String::new() })
    }
    fn desc(&self) -> Value {
        json!({"format": "WDT", "version": WDT_VERS[self.ver].1, "grid": self.shape, "wmo_only": self.wmo_only, "mwmo_names": self.mwmo as i32 - 1,
               "modf_entries": self.modf, "maid_sections": self.maid, "mphd_ids_mirrored": self.mirror, "absent_tiles_carry_data": self.dirty, "random_mphd_flags": self.wild_flags,
               "maid_root_ids_vs_main": if self.maid > 0 { MAID_RELS[self.maid_rel as usize] } else { "no MAID" }})
    }
    /// terrain map of a Cataclysm+ version carrying an MWMO chunk: the format of that version has no such chunk
    fn mwmo_offrule(&self) -> bool {
        !self.wmo_only && self.ver >= 3 && self.mwmo > 0
    }
}

fn wdt_spec(k: u64, rng: &mut Rng, rs: &mut Rng) -> WdtSpec {
    let ver = (k % N_WDT_VERS) as usize;
    let shape = SHAPES[((k / N_WDT_VERS) % 10) as usize];
    let pass = k / (N_WDT_VERS * 10);
    match pass {
        0 => WdtSpec { ver, shape, wmo_only: false, mwmo: if ver <= 2 { 1 } else { 0 }, modf: 0, maid: if ver >= 7 { 8 } else { 0 }, mirror: true, dirty: false, wild_flags: false, maid_rel: 0 },
        1 => WdtSpec { ver, shape, wmo_only: true, mwmo: 2, modf: 1, maid: if ver >= 7 && (k / N_WDT_VERS) % 2 == 0 { 8 } else { 0 }, mirror: false, dirty: false, wild_flags: false, maid_rel: 0 },
        _ => {
            let wmo_only = rng.chance(1, 3);
            let maid = if ver >= 7 && rng.chance(2, 3) { *rng.pick(&[8u8, 8, 5, 10]) } else { 0 };
            let mwmo = if wmo_only {
                2
            } else if ver <= 2 {
                *rng.pick(&[1u8, 1, 2, 3, 0])
            } else if rng.chance(1, 4) {
                *rng.pick(&[1u8, 2]) // off-rule: see mwmo_offrule()
            } else {
                0
            };
            WdtSpec { ver, shape, wmo_only, mwmo, modf: if wmo_only { 1 + rng.below(2) as u8 } else { 0 }, maid, mirror: rng.bool(), dirty: rng.chance(1, 3), wild_flags: true, maid_rel: rs.below(4) as u8 }
        }
    }
}

fn wdt_model(s: &WdtSpec, rng: &mut Rng, rs: &mut Rng) -> WdtModel {
    let tiles = grid(s.shape, rng);
    let mut main = vec![(0u32, 0u32); 4096];
    if s.dirty {
        for e in main.iter_mut() {
            if rng.chance(1, 5) {
                *e = (rng.next_u32() & 0xFFFF_FFFE, rng.next_u32());
            }
        }
    }
    for (n, &(x, y)) in tiles.iter().enumerate() {
        let fl = if rng.chance(1, 4) { rng.next_u32() | 1 } else { 1 | (rng.below(2) as u32) << 1 };
        // the first tile always carries an area id that needs more than 16 bits
        let area = if n == 0 { 0x0001_0000 | rng.next_u32() } else { rng.next_u32() >> (rng.below(3) * 8) };
        main[(y * 64 + x) as usize] = (fl, area);
    }
    let mut flags: u32 = if s.wild_flags {
        rng.next_u32() & 0xFDFE
    } else {
        // flags in common use for the era
        match wdt_era(s.ver) {
            "pre-cata" => [0u32, 0x2, 0x4 | 0x8][rng.usize(3)] * (s.ver as u32 / 2),
            "cata+" => 0x40 | [0x2u32, 0x4 | 0x8, 0x80][rng.usize(3)],
            _ => 0x40 | 0x80 | 0x100,
        }
    };
    if s.wmo_only {
        flags |= 1;
    }
    let ids = if s.maid > 0 {
        flags |= 0x200;
        let mut a = [0u32; 7];
        for v in &mut a {
            *v = 1_000_000 + rng.below(3_000_000) as u32;
        }
        Some(a)
    } else {
        None
    };
    let (something, unused) = if let (Some(a), true) = (ids, s.mirror) {
        (a[0], [a[1], a[2], a[3], a[4], a[5], a[6]])
    } else if ids.is_none() && s.wild_flags && rng.bool() {
        let mut u = [0u32; 6];
        for v in &mut u {
            *v = rng.next_u32();
        }
        (rng.next_u32(), u)
    } else {
        (0, [0; 6])
    };
    let mwmo = match s.mwmo {
        0 => None,
        n => Some((1..n).map(|_| wmo_name(rng)).collect()),
    };
    let modf = if s.modf > 0 {
        Some(
            (0..s.modf)
                .map(|_| ModfM {
                    id: rng.below(3) as u32,
                    unique_id: if rng.bool() { 0xFFFF_FFFF } else { rng.next_u32() },
                    position: vec3(rng),
                    rotation: vec3(rng),
                    lower: vec3(rng),
                    upper: vec3(rng),
                    flags: rng.next_u32() as u16,
                    doodad_set: rng.below(5) as u16,
                    name_set: rng.below(5) as u16,
                    scale: *rng.pick(&[0u16, 1024, 777]),
                })
                .collect(),
        )
    } else {
        None
    };
    let maid = if s.maid > 0 {
        let ns = s.maid as usize;
        let mut secs = vec![vec![0u32; 4096]; ns];
        for &(x, y) in &tiles {
            let i = (y * 64 + x) as usize;
            for (sn, sec) in secs.iter_mut().enumerate().take(8) {
                if sn == 0 || rng.chance(3, 4) {
                    sec[i] = 1 + rng.below(5_000_000) as u32;
                }
            }
        }
        // the id table is content of its own: it need not mirror MAIN (decisions from the second PRNG lane)
        match s.maid_rel {
            1 => {
                for &(x, y) in &tiles {
                    if rs.bool() {
                        let i = (y * 64 + x) as usize;
                        let all = rs.bool();
                        for (sn, sec) in secs.iter_mut().enumerate() {
                            if sn == 0 || all {
                                sec[i] = 0;
                            }
                        }
                    }
                }
            }
            2 => {
                for sec in secs.iter_mut() {
                    sec.iter_mut().for_each(|v| *v = 0);
                }
            }
            3 => {
                for i in 0..4096usize {
                    if main[i].0 & 1 == 0 && rs.chance(1, 8) {
                        secs[0][i] = 1 + rs.below(5_000_000) as u32;
                    }
                }
            }
            _ => {}
        }
        Some(secs)
    } else {
        None
    };
    WdtModel { ver: s.ver, main, flags, something, unused, ids, mirror: s.mirror, mwmo, modf, maid }
}

fn f3(a: [u32; 3]) -> [f32; 3] {
    [f32::from_bits(a[0]), f32::from_bits(a[1]), f32::from_bits(a[2])]
}
fn b3(a: [f32; 3]) -> [u32; 3] {
    [a[0].to_bits(), a[1].to_bits(), a[2].to_bits()]
}

/// Library object from the model, public API + field assignment only. `setters`: the same definition through the setter
/// entry points (MainEntry::set_has_adt, MphdChunk::set_file_data_ids) instead of plain field assignment.
fn wdt_build(m: &WdtModel, setters: bool) -> WdtFile {
    let mut w = WdtFile::new(WDT_VERS[m.ver].0);
    for y in 0..64usize {
        for x in 0..64usize {
            let (fl, area) = m.main[y * 64 + x];
            if (fl, area) != (0, 0) {
                let e = w.main.get_mut(x, y).expect("MainChunk::get_mut inside 64x64");
                if setters {
                    e.flags = fl ^ 1; // the presence bit the wrong way round, put right by the setter
                    e.set_has_adt(fl & 1 == 1);
                } else {
                    e.flags = fl;
                }
                e.area_id = area;
            }
        }
    }
    w.mphd.something = m.something;
    w.mphd.unused = m.unused;
    if let (Some(a), true) = (m.ids, setters) {
        // the setter raises the MAID flag itself: hand it the model's flags without that bit
        w.mphd.flags = MphdFlags::from_bits(m.flags & !0x200).expect("flags within the 16 defined bits");
        w.mphd.set_file_data_ids(FileDataIds { lgt: a[0], occ: a[1], fogs: a[2], mpv: a[3], tex: a[4], wdl: a[5], pd4: a[6] });
    } else {
        w.mphd.flags = MphdFlags::from_bits(m.flags).expect("flags within the 16 defined bits");
    }
    if let (Some(a), false) = (m.ids, setters) {
        w.mphd.lgt_file_data_id = Some(a[0]);
        w.mphd.occ_file_data_id = Some(a[1]);
        w.mphd.fogs_file_data_id = Some(a[2]);
        w.mphd.mpv_file_data_id = Some(a[3]);
        w.mphd.tex_file_data_id = Some(a[4]);
        w.mphd.wdl_file_data_id = Some(a[5]);
        w.mphd.pd4_file_data_id = Some(a[6]);
    }
    if let Some(names) = &m.mwmo {
        let mut ch = MwmoChunk::new();
        for n in names {
            ch.add_filename(n.clone());
        }
        w.mwmo = Some(ch);
    }
    if let Some(es) = &m.modf {
        let mut ch = ModfChunk::new();
        for e in es {
            let mut le = ModfEntry::new();
            le.id = e.id;
            le.unique_id = e.unique_id;
            le.position = f3(e.position);
            le.rotation = f3(e.rotation);
            le.lower_bounds = f3(e.lower);
            le.upper_bounds = f3(e.upper);
            le.flags = e.flags;
            le.doodad_set = e.doodad_set;
            le.name_set = e.name_set;
            le.scale = e.scale;
            ch.add_entry(le);
        }
        w.modf = Some(ch);
    }
    if let Some(secs) = &m.maid {
        let mut ch = if secs.len() == 8 { MaidChunk::new() } else { MaidChunk::with_section_count(secs.len()) };
        for (sn, sec) in secs.iter().enumerate().take(8) {
            let section = MaidSection::all()[sn];
            for y in 0..64usize {
                for x in 0..64usize {
                    if sec[y * 64 + x] != 0 {
                        ch.set(section, x, y, sec[y * 64 + x]).expect("MaidChunk::set inside 64x64");
                    }
                }
            }
        }
        w.maid = Some(ch);
    }
    w
}

fn wdt_write(w: &WdtFile) -> Result<Vec<u8>, String> {
    let mut buf = Vec::new();
    match trap(|| WdtWriter::new(&mut buf).write(w)) {
        Ok(Ok(())) => Ok(buf),
        Ok(Err(e)) => Err(clean(format!("error: {e}"))),
        Err(p) => Err(clean(format!("panic: {}", p.msg))),
    }
}

fn wdt_read(bytes: &[u8], hint: WowVersion) -> Result<WdtFile, String> {
    match trap(|| WdtReader::new(Cursor::new(bytes.to_vec()), hint).read()) {
        Ok(Ok(f)) => Ok(f),
        Ok(Err(e)) => Err(clean(format!("error: {e}"))),
        Err(p) => Err(clean(format!("panic: {}", p.msg))),
    }
}

/// Compare a library MAIN grid with the model grid through `get(x, y)`. Returns (relation, first differing tile).
fn main_relation(w: &WdtFile, main: &[(u32, u32)]) -> Option<(&'static str, (usize, usize))> {
    let got = |x: usize, y: usize| w.main.get(x, y).map(|e| (e.flags, e.area_id));
    let mut first = None;
    let (mut transposed, mut low16, mut presence) = (true, true, true);
    for y in 0..64usize {
        for x in 0..64usize {
            let g = got(x, y);
            if g != Some(main[y * 64 + x]) && first.is_none() {
                first = Some((x, y));
            }
            if g != Some(main[x * 64 + y]) {
                transposed = false;
            }
            let m = main[y * 64 + x];
            if g != Some((m.0, m.1 & 0xFFFF)) {
                low16 = false;
            }
            // only the has-ADT bit (bit 0 of the flags) differs
            if g.map(|g| (g.0 | 1, g.1)) != Some((m.0 | 1, m.1)) {
                presence = false;
            }
        }
    }
    first.map(|f| (if transposed { "transposed" } else if low16 { "area-id-truncated-16" } else if presence { "has-adt-bit-only" } else { "other" }, f))
}

/// How a 64x64 view `got(x, y)` relates to the model grid `want[y*64+x]`: None = equal.
fn grid_relation<T: PartialEq + Copy>(got: impl Fn(usize, usize) -> Option<T>, want: &[T]) -> Option<(&'static str, (usize, usize))> {
    let mut first = None;
    let mut transposed = true;
    for y in 0..64usize {
        for x in 0..64usize {
            let g = got(x, y);
            if g != Some(want[y * 64 + x]) && first.is_none() {
                first = Some((x, y));
            }
            if g != Some(want[x * 64 + y]) {
                transposed = false;
            }
        }
    }
    first.map(|f| (if transposed { "transposed" } else { "other" }, f))
}

/// WdtFile::is_wmo_only / get_tile / count_existing_tiles and MaidChunk::has_tile / get_root_adt_ids on a parsed file.
fn wdt_accessor_checks(c: &mut Case, p: &WdtFile, m: &WdtModel, s: &WdtSpec) {
    let era = wdt_era(s.ver);
    let vname = WDT_VERS[s.ver].1;
    c.count("wdt_accessor|is_wmo_only", 1);
    if p.is_wmo_only() != (m.flags & 1 == 1) {
        c.violate(format!("wdt|accessor|is_wmo_only|{era}"), format!("is_wmo_only() says {} for a map whose header flags are {:#x}", p.is_wmo_only(), m.flags), s.desc());
    }
    // get_tile: coordinates echoed, flags and area id of that tile (has_adt is the library's own reading of MAIN vs MAID: not compared)
    let tiles: Vec<(usize, usize, u32, u32)> = (0..4096usize).map(|i| (i % 64, i / 64, m.main[i].0, m.main[i].1)).collect();
    c.count("wdt_accessor|get_tile", 4096);
    if let Some((rel, (x, y))) = grid_relation(|x, y| p.get_tile(x, y).map(|t| (t.x, t.y, t.flags, t.area_id)), &tiles) {
        c.violate(format!("wdt|accessor|get_tile|{rel}|{era}"), format!("get_tile({x},{y}) of the parsed {vname} map returns {:?}, the model has (flags, area) {:?}", p.get_tile(x, y), m.main[y * 64 + x]), s.desc());
    }
    if m.maid.is_none() && p.maid.is_none() {
        c.count("wdt_accessor|count_existing_tiles", 1);
        let want = m.main.iter().filter(|e| e.0 & 1 == 1).count();
        if p.count_existing_tiles() != want {
            c.violate(format!("wdt|accessor|count_existing_tiles|{era}"), format!("count_existing_tiles() = {} for a map without file-id table whose MAIN marks {want} tiles present", p.count_existing_tiles()), s.desc());
        }
    }
    if let (Some(secs), Some(pm)) = (&m.maid, &p.maid) {
        if pm.section_count() > 0 {
            let present: Vec<bool> = secs[0].iter().map(|&id| id != 0).collect();
            c.count("wdt_accessor|maid_has_tile", 4096);
            if let Some((rel, (x, y))) = grid_relation(|x, y| Some(pm.has_tile(x, y)), &present) {
                c.violate(format!("wdt|accessor|maid-has_tile|{rel}|{era}"), format!("MaidChunk::has_tile({x},{y}) = {} but the root-ADT id written for that tile is {}", pm.has_tile(x, y), secs[0][y * 64 + x]), s.desc());
            }
            let rows = pm.get_root_adt_ids();
            c.count("wdt_accessor|maid_root_adt_ids", 4096);
            if let Some((rel, (x, y))) = grid_relation(|x, y| rows.get(y).and_then(|r| r.get(x)).copied(), &secs[0]) {
                c.violate(format!("wdt|accessor|maid-root-ids|{rel}|{era}"), format!("get_root_adt_ids()[{y}][{x}] = {:?}, wrote {}", rows.get(y).and_then(|r| r.get(x)), secs[0][y * 64 + x]), s.desc());
            }
        }
    }
}

fn wdt_case(c: &mut Case, s: &WdtSpec, rng: &mut Rng, rs: &mut Rng) {
    let vname = WDT_VERS[s.ver].1;
    let era = wdt_era(s.ver);
    let kind = if s.wmo_only { "wmo-only" } else { "terrain" };
    let m = wdt_model(s, rng, rs);
    if s.maid > 0 {
        c.count(&format!("wdt_maid|{}", MAID_RELS[s.maid_rel as usize]), 1);
    }
    let w = wdt_build(&m, false);
    // ---- the same definition through the setter entry points must be the same object
    {
        let ws = wdt_build(&m, true);
        c.count("wdt_built_through_setters", 1);
        if m.ids.is_some() {
            c.count("wdt_set_file_data_ids_calls", 1);
        }
        let field = if ws.main != w.main {
            Some("main")
        } else if ws.mphd != w.mphd {
            Some("mphd")
        } else if ws != w {
            Some("other")
        } else {
            None
        };
        if let Some(field) = field {
            c.violate(format!("wdt|setter-build-differs|{field}|{era}"), format!("a {vname} map built through set_has_adt / set_file_data_ids differs in {field} from the same map built by field assignment"), s.desc());
        }
    }
    c.count(&format!("wdt_files|{vname}"), 1);
    c.count(&format!("wdt_grids|{}", s.shape), 1);
    c.count("wdt_tiles_present", m.main.iter().filter(|e| e.0 & 1 == 1).count() as u64);

    // ---- write, twice from the same object
    let a = match wdt_write(&w) {
        Ok(a) => a,
        Err(e) => {
            c.violate(format!("wdt|write-failed|{era}|{kind}"), format!("WdtWriter::write failed for a {vname} {kind} map: {e}"), s.desc());
            return;
        }
    };
    c.count("wdt_bytes_written", a.len() as u64);
    if wdt_write(&w).ok().as_deref() != Some(&a[..]) {
        c.violate(format!("wdt|rewrite-same-object-differs|{era}"), "two writes of one unchanged WdtFile differ", s.desc());
    }

    // ---- the bytes, seen by the independent walker: grid order, header flag word, chunk presence
    match walk(&a) {
        Err(e) => c.violate(format!("wdt|layout|framing|{era}"), format!("written file is not a chunk sequence: {e}"), s.desc()),
        Ok(chunks) => {
            let find = |n: &str| chunks.iter().filter(|ch| ch.0 == n).map(|ch| &a[ch.2.clone()]).collect::<Vec<_>>();
            c.count("wdt_walker_chunks", chunks.len() as u64);
            for n in ["MVER", "MPHD", "MAIN"] {
                if find(n).len() != 1 {
                    c.violate(format!("wdt|layout|{n}-count|{era}"), format!("{} {n} chunks in the written file", find(n).len()), s.desc());
                }
            }
            if let Some(d) = find("MAIN").first() {
                let ok = d.len() == 4096 * 8 && (0..4096).all(|i| (u32_at(d, i * 8), u32_at(d, i * 8 + 4)) == m.main[i]);
                c.count("wdt_walker_main_entries", 4096);
                if !ok {
                    let transposed = d.len() == 4096 * 8 && (0..4096).all(|i| (u32_at(d, i * 8), u32_at(d, i * 8 + 4)) == m.main[(i % 64) * 64 + i / 64]);
                    c.violate(
                        format!("wdt|layout|MAIN|{}|{era}", if transposed { "transposed" } else { "other" }),
                        format!("MAIN payload is not the 64x64 grid in [y][x] order with (flags, area id) per tile ({vname}, grid {})", s.shape),
                        s.desc(),
                    );
                }
            }
            if let Some(d) = find("MPHD").first() {
                if d.len() != 32 || u32_at(d, 0) != m.flags {
                    c.violate(format!("wdt|layout|MPHD-flags|{era}"), format!("MPHD flag word is {:#x}, model has {:#x}", if d.len() >= 4 { u32_at(d, 0) } else { 0 }, m.flags), s.desc());
                }
            }
            let maid = find("MAID");
            match (&m.maid, maid.first()) {
                (None, None) => {}
                (Some(secs), Some(d)) => {
                    let ok = maid.len() == 1 && d.len() == secs.len() * 4096 * 4 && secs.iter().enumerate().all(|(sn, sec)| (0..4096).all(|i| u32_at(d, (sn * 4096 + i) * 4) == sec[i]));
                    c.count("wdt_walker_maid_entries", (secs.len() * 4096) as u64);
                    if !ok {
                        c.violate(format!("wdt|layout|MAID|{era}"), "MAID payload is not sections x 64x64 file ids in [y][x] order", s.desc());
                    }
                }
                (a1, b1) => c.violate(format!("wdt|layout|MAID-presence|{era}"), format!("model has MAID: {}, file has MAID: {}", a1.is_some(), b1.is_some()), s.desc()),
            }
            if m.modf.is_some() != !find("MODF").is_empty() {
                c.violate(format!("wdt|layout|MODF-presence|{era}|{kind}"), format!("model has MODF: {}, file has MODF chunk: {}", m.modf.is_some(), !find("MODF").is_empty()), s.desc());
            }
            if !s.mwmo_offrule() && m.mwmo.is_some() != !find("MWMO").is_empty() {
                c.violate(format!("wdt|layout|MWMO-presence|{era}|{kind}"), format!("model has a global WMO name chunk: {}, file has MWMO chunk: {} ({vname} {kind})", m.mwmo.is_some(), !find("MWMO").is_empty()), s.desc());
            }
        }
    }

    // ---- parse
    let p = match wdt_read(&a, WDT_VERS[s.ver].0) {
        Ok(p) => p,
        Err(e) => {
            c.violate(format!("wdt|parse-failed|{era}|{kind}"), format!("WdtReader::read rejected WdtWriter's own output ({vname} {kind}): {e}"), s.desc());
            return;
        }
    };
    c.count("wdt_parsed", 1);
    // the same bytes through a source that returns short reads (what a BufReader refill boundary, a pipe or an archive-backed
    // stream does to a record): the same file
    {
        let max = 1 + (c.idx % 17) as usize * 3;
        match trap(|| WdtReader::new(vh_common::ShortIo::new(Cursor::new(a.clone()), max), WDT_VERS[s.ver].0).read()) {
            Ok(Ok(ps)) => {
                c.count("wdt_parsed_through_short_reads", 1);
                if ps != p {
                    c.violate(format!("wdt|short-read-parse-differs|{era}|{kind}"), format!("WdtReader::read through a reader that returns at most {max} bytes per call yields another file than through a Cursor"), s.desc());
                }
            }
            Ok(Err(e)) => c.violate(format!("wdt|short-read-parse-failed|{era}|{kind}"), format!("WdtReader::read through a reader that returns at most {max} bytes per call fails on bytes that parse from a Cursor: {e}"), s.desc()),
            Err(pn) => c.violate(format!("wdt|parse-panic|{era}|{}", pn.sig()), pn.msg.clone(), s.desc()),
        }
    }
    c.count(if p.version() == WDT_VERS[s.ver].0 { "wdt_version_detected_as_written" } else { "wdt_version_detected_differently(not content)" }, 1);
    let mut equal = true;
    if p.mver != w.mver {
        equal = false;
        c.violate(format!("wdt|roundtrip|mver|{era}"), "MVER differs after write->parse", s.desc());
    }
    if p.mphd.flags.bits() != m.flags {
        equal = false;
        c.violate(format!("wdt|roundtrip|mphd-flags|{era}"), format!("header flags {:#x} came back as {:#x}", m.flags, p.mphd.flags.bits()), s.desc());
    }
    // MPHD body: the seven words after the flags are file ids when the MAID flag is set, something/unused otherwise
    let body_ok = match m.ids {
        Some(a7) => [p.mphd.lgt_file_data_id, p.mphd.occ_file_data_id, p.mphd.fogs_file_data_id, p.mphd.mpv_file_data_id, p.mphd.tex_file_data_id, p.mphd.wdl_file_data_id, p.mphd.pd4_file_data_id] == a7.map(Some),
        None => p.mphd.something == m.something && p.mphd.unused == m.unused && p.mphd.lgt_file_data_id.is_none() && p.mphd.pd4_file_data_id.is_none(),
    };
    if !body_ok {
        equal = false;
        c.violate(format!("wdt|roundtrip|mphd-fields|{era}|ids={}", m.ids.is_some()), "MPHD fields after the flag word differ after write->parse", s.desc());
    }
    c.count("wdt_fields_compared", 9);
    if let Some((rel, (x, y))) = main_relation(&p, &m.main) {
        equal = false;
        c.violate(
            format!("wdt|roundtrip|main|{rel}|{era}"),
            format!("tile grid differs after write->parse ({vname}, grid {}): first at tile ({x},{y}): wrote {:?}, parsed {:?}", s.shape, m.main[y * 64 + x], p.main.get(x, y).map(|e| (e.flags, e.area_id))),
            s.desc(),
        );
    } else if p.main != w.main {
        equal = false;
        c.violate(format!("wdt|roundtrip|main|shape|{era}"), "MainChunk differs by PartialEq although all 4096 get(x,y) agree", s.desc());
    }
    c.count("wdt_main_entries_compared", 4096);
    if p.maid != w.maid {
        equal = false;
        c.violate(format!("wdt|roundtrip|maid|{era}"), format!("file-id table differs after write->parse (model sections {:?}, parsed sections {:?})", m.maid.as_ref().map(|v| v.len()), p.maid.as_ref().map(|v| v.section_count())), s.desc());
    }
    if let (Some(secs), Some(pm)) = (&m.maid, &p.maid) {
        let mut bad = 0;
        for (sn, sec) in secs.iter().enumerate().take(8) {
            for i in 0..4096 {
                if pm.get(MaidSection::all()[sn], i % 64, i / 64) != Some(sec[i]) {
                    bad += 1;
                }
            }
        }
        c.count("wdt_maid_entries_compared", (secs.len().min(8) * 4096) as u64);
        if bad > 0 {
            equal = false;
            c.violate(format!("wdt|roundtrip|maid-entries|{era}"), format!("{bad} file ids differ from the model after write->parse"), s.desc());
        }
    }
    let pm_names = p.mwmo.as_ref().map(|ch| ch.filenames.clone());
    if s.mwmo_offrule() {
        // Not a definition the target version can express: the writer may keep the chunk or drop it by its version
        // rule; anything else (changed names) is still a violation.
        if pm_names.is_none() {
            c.count("wdt_offrule_mwmo_dropped_by_version_rule", 1);
            equal = false; // whole-file equality is not expected here
        } else if pm_names != m.mwmo {
            c.violate(format!("wdt|roundtrip|mwmo|changed|{era}|{kind}"), format!("global WMO names {:?} came back as {:?}", m.mwmo, pm_names), s.desc());
        } else {
            c.count("wdt_offrule_mwmo_kept", 1);
        }
    } else if pm_names != m.mwmo {
        equal = false;
        let rel = match (&m.mwmo, &pm_names) {
            (Some(_), None) => "lost",
            (None, Some(_)) => "appeared",
            _ => "changed",
        };
        c.violate(format!("wdt|roundtrip|mwmo|{rel}|{era}|{kind}"), format!("global WMO name chunk {:?} came back as {:?} ({vname} {kind})", m.mwmo, pm_names), s.desc());
    }
    let pm_modf: Option<Vec<[u32; 18]>> = p.modf.as_ref().map(|ch| ch.entries.iter().map(modf_bits).collect());
    let mm_modf: Option<Vec<[u32; 18]>> = w.modf.as_ref().map(|ch| ch.entries.iter().map(modf_bits).collect());
    if pm_modf != mm_modf {
        equal = false;
        c.violate(format!("wdt|roundtrip|modf|{era}|{kind}"), "global WMO placement differs (bitwise) after write->parse", s.desc());
    }
    c.count("wdt_modf_entries_compared", mm_modf.map(|v| v.len()).unwrap_or(0) as u64);
    // WdtFile: PartialEq directly, where the model is in the reader's normal form. version_config is the reader's
    // guess about the game version (not stored in the file) and is taken from the original.
    if equal && (m.ids.is_none() || m.mirror) {
        let mut q = p.clone();
        q.version_config = w.version_config.clone();
        c.count("wdt_whole_file_partialeq", 1);
        if q != w {
            c.violate(format!("wdt|roundtrip|partialeq|{era}"), "every compared field agrees but WdtFile::eq says the parsed file differs", s.desc());
        }
    }
    if equal {
        c.count("wdt_roundtrip_equal", 1);
    }

    // ---- the accessor views of the parsed file against the model grid (row/column convention of each accessor)
    wdt_accessor_checks(c, &p, &m, s);

    // ---- the same object written into a stream that already holds other bytes, and read back from that position: the format has
    // no absolute offsets, so the bytes are the same bytes and the reader, started where the writer started, sees the same file
    {
        let plen = [1usize, 7, 8, 4096][(c.idx % 4) as usize];
        let mut cur = Cursor::new(vec![0xA5u8; plen]);
        cur.set_position(plen as u64);
        match trap(|| WdtWriter::new(&mut cur).write(&w)) {
            Ok(Ok(())) => {
                let buf = cur.into_inner();
                c.count("wdt_offset_stream_written", 1);
                if buf.len() < plen || buf[plen..] != a[..] {
                    c.violate(format!("wdt|offset-stream|bytes-differ|{era}|{kind}"), format!("WdtWriter::write into a stream positioned after {plen} other bytes emits other bytes than into an empty stream"), s.desc());
                } else {
                    let mut rc = Cursor::new(buf);
                    rc.set_position(plen as u64);
                    match trap(|| WdtReader::new(rc, WDT_VERS[s.ver].0).read()) {
                        Ok(Ok(po)) if po == p => c.count("wdt_offset_stream_read_equal", 1),
                        Ok(Ok(_)) => c.violate(format!("wdt|offset-stream|read-differs|{era}|{kind}"), format!("WdtReader::read started at stream position {plen} (where the file begins) yields another file than the same bytes read from position 0"), s.desc()),
                        Ok(Err(e)) => c.violate(format!("wdt|offset-stream|read-failed|{era}|{kind}"), clean(format!("WdtReader::read started at stream position {plen} (where the file begins) fails: {e}")), s.desc()),
                        Err(pn) => c.violate(format!("wdt|offset-stream|{}|{era}", pn.sig()), pn.msg.clone(), s.desc()),
                    }
                }
            }
            Ok(Err(e)) => c.violate(format!("wdt|offset-stream|write-failed|{era}|{kind}"), clean(format!("WdtWriter::write into a stream positioned after {plen} other bytes failed: {e}")), s.desc()),
            Err(pn) => c.violate(format!("wdt|offset-stream|{}|{era}", pn.sig()), pn.msg.clone(), s.desc()),
        }
    }

    // ---- MphdChunk::clear_file_data_ids: the map without its file-id table (what BfA 8.0 wrote) is a definition of its own and
    // must survive write->parse with the tile grid, the remaining header flags and the header words intact
    if m.ids.is_some() {
        let mut wc = w.clone();
        wc.mphd.clear_file_data_ids();
        wc.maid = None;
        c.count("wdt_clear_file_data_ids_calls", 1);
        let ids_gone = [wc.mphd.lgt_file_data_id, wc.mphd.occ_file_data_id, wc.mphd.fogs_file_data_id, wc.mphd.mpv_file_data_id, wc.mphd.tex_file_data_id, wc.mphd.wdl_file_data_id, wc.mphd.pd4_file_data_id].iter().all(|v| v.is_none());
        if wc.mphd.has_maid() || !ids_gone || wc.mphd.flags.bits() != m.flags & !0x200 {
            c.violate(format!("wdt|clear-ids|header-state|{era}"), format!("after clear_file_data_ids: has_maid() {}, all ids None {}, flags {:#x} (model {:#x} without 0x200)", wc.mphd.has_maid(), ids_gone, wc.mphd.flags.bits(), m.flags), s.desc());
        } else {
            match wdt_write(&wc).and_then(|b| wdt_read(&b, WDT_VERS[s.ver].0).map(|f| (b, f))) {
                Ok((b, back)) => {
                    c.count("wdt_cleared_written_and_parsed", 1);
                    if let Some((rel, (x, y))) = main_relation(&back, &m.main) {
                        c.violate(format!("wdt|clear-ids|roundtrip|main|{rel}|{era}"), format!("{vname} map with its file ids cleared: tile grid differs after write->parse, first at ({x},{y})"), s.desc());
                    }
                    if back.mphd.flags.bits() != m.flags & !0x200 || back.mphd.something != wc.mphd.something || back.mphd.unused != wc.mphd.unused || back.mphd.lgt_file_data_id.is_some() || back.maid.is_some() {
                        c.violate(format!("wdt|clear-ids|roundtrip|mphd|{era}"), format!("{vname} map with its file ids cleared: header differs after write->parse (flags {:#x}, wrote {:#x})", back.mphd.flags.bits(), m.flags & !0x200), s.desc());
                    }
                    if wdt_write(&back).ok().as_deref() != Some(&b[..]) {
                        c.violate(format!("wdt|clear-ids|second-write-differs|{era}|{kind}"), format!("{vname} map with its file ids cleared: write(parse(write(x))) differs from write(x)"), s.desc());
                    }
                    // and the ids put back through the setter restore the header
                    let a7 = m.ids.unwrap();
                    let mut again = wc.mphd.clone();
                    again.set_file_data_ids(FileDataIds { lgt: a7[0], occ: a7[1], fogs: a7[2], mpv: a7[3], tex: a7[4], wdl: a7[5], pd4: a7[6] });
                    if again != w.mphd {
                        c.violate(format!("wdt|clear-ids|set-after-clear-differs|{era}"), "clear_file_data_ids followed by set_file_data_ids with the same ids does not restore the header", s.desc());
                    }
                }
                Err(e) => c.violate(format!("wdt|clear-ids|roundtrip-failed|{era}|{kind}"), format!("{vname} map with its file ids cleared does not survive write->parse: {e}"), s.desc()),
            }
        }
    }

    // ---- second write (from the parsed object)
    match wdt_write(&p) {
        Ok(b) if b == a => c.count("wdt_second_write_identical", 1),
        Ok(b) => {
            let at = first_diff(&a, &b);
            let chunk = walk(&a).ok().and_then(|ch| ch.iter().find(|x| at < x.2.end).map(|x| x.0.clone())).unwrap_or_else(|| "tail".into());
            c.violate(format!("wdt|second-write-differs|{chunk}|{era}|{kind}"), format!("write(parse(write(x))) differs from write(x) at byte {at} ({} vs {} bytes), in/after chunk {chunk}", a.len(), b.len()), s.desc());
        }
        Err(e) => c.violate(format!("wdt|second-write-failed|{era}"), format!("writing the parsed file failed: {e}"), s.desc()),
    }

    // ---- conversions to every version: tile data (MAIN) must survive, in memory and through write->parse
    for (t, &(tv, tname)) in WDT_VERS.iter().enumerate() {
        let pair = format!("{}->{}", era, wdt_era(t));
        let mut cv = w.clone();
        c.count(&format!("wdt_convert|{vname}->{tname}"), 1);
        c.count("wdt_convert_pairs", 1);
        match trap(|| convert_wdt(&mut cv, WDT_VERS[s.ver].0, tv)) {
            Ok(Ok(())) => {}
            Ok(Err(e)) => {
                c.violate(format!("wdt|convert|failed|{pair}"), format!("convert_wdt {vname}->{tname} failed: {e}"), s.desc());
                continue;
            }
            Err(pn) => {
                c.violate(format!("wdt|convert|{}|{pair}", pn.sig()), format!("convert_wdt {vname}->{tname} panicked: {}", pn.msg), s.desc());
                continue;
            }
        }
        if let Some((rel, (x, y))) = main_relation(&cv, &m.main) {
            c.violate(format!("wdt|convert|main-changed|{rel}|{pair}"), format!("convert_wdt {vname}->{tname} changed tile data, first at ({x},{y})"), s.desc());
            continue;
        }
        if t == s.ver && cv != w {
            c.violate(format!("wdt|convert|identity-changes-file|{era}"), format!("convert_wdt {vname}->{vname} changed the file"), s.desc());
        }
        if s.ver >= 7 && t >= 7 && cv.maid != w.maid {
            c.violate("wdt|convert|maid-changed|bfa->bfa", format!("file-id table changed by a conversion between two versions that both carry it ({vname}->{tname})"), s.desc());
        }
        if cv.count_existing_tiles() != w.count_existing_tiles() {
            // observation only: an empty MAID added for BfA hides MAIN's presence bits from count_existing_tiles()/get_tile()
            c.count("wdt_convert_tilecount_view_changed(observation)", 1);
        }
        let through = wdt_write(&cv).and_then(|b| wdt_read(&b, tv));
        match through {
            Ok(back) => {
                c.count("wdt_convert_written_and_parsed", 1);
                if let Some((rel, (x, y))) = main_relation(&back, &m.main) {
                    c.violate(format!("wdt|convert|main-changed-after-write|{rel}|{pair}"), format!("{vname}->{tname}: converted file written and parsed has different tile data, first at ({x},{y})"), s.desc());
                }
            }
            Err(e) => c.violate(format!("wdt|convert|converted-file-unreadable|{pair}|{kind}"), format!("{vname}->{tname}: converted file does not survive write->parse: {e}"), s.desc()),
        }
        // ---- a second conversion on top of the first (version chains v -> t -> u, among them the way back v -> t -> v):
        // tile data must survive every step
        for (u, &(uv, uname)) in WDT_VERS.iter().enumerate() {
            let chain = format!("{pair}->{}", wdt_era(u));
            let mut cv2 = cv.clone();
            c.count("wdt_convert_chains", 1);
            match trap(|| convert_wdt(&mut cv2, tv, uv)) {
                Ok(Ok(())) => {}
                Ok(Err(e)) => {
                    c.violate(format!("wdt|convert-chain|failed|{chain}"), format!("convert_wdt {tname}->{uname} failed on the result of {vname}->{tname}: {e}"), s.desc());
                    continue;
                }
                Err(pn) => {
                    c.violate(format!("wdt|convert-chain|{}|{chain}", pn.sig()), format!("convert_wdt {tname}->{uname} panicked on the result of {vname}->{tname}: {}", pn.msg), s.desc());
                    continue;
                }
            }
            if let Some((rel, (x, y))) = main_relation(&cv2, &m.main) {
                c.violate(format!("wdt|convert-chain|main-changed|{rel}|{chain}"), format!("convert_wdt {vname}->{tname}->{uname} changed tile data in its second step, first at ({x},{y})"), s.desc());
                continue;
            }
            if u == s.ver && t != s.ver {
                c.count("wdt_convert_return_trips", 1);
                match wdt_write(&cv2).and_then(|b| wdt_read(&b, uv)) {
                    Ok(back) => {
                        if let Some((rel, (x, y))) = main_relation(&back, &m.main) {
                            c.violate(format!("wdt|convert-chain|main-changed-after-write|{rel}|{chain}"), format!("{vname}->{tname}->{uname}: converted file written and parsed has different tile data, first at ({x},{y})"), s.desc());
                        }
                    }
                    Err(e) => c.violate(format!("wdt|convert-chain|converted-file-unreadable|{chain}|{kind}"), format!("{vname}->{tname}->{uname}: converted file does not survive write->parse: {e}"), s.desc()),
                }
            }
        }
    }
}

fn modf_bits(e: &ModfEntry) -> [u32; 18] {
    let (p, r, l, u) = (b3(e.position), b3(e.rotation), b3(e.lower_bounds), b3(e.upper_bounds));
    [e.id, e.unique_id, p[0], p[1], p[2], r[0], r[1], r[2], l[0], l[1], l[2], u[0], u[1], u[2], e.flags as u32, e.doodad_set as u32, e.name_set as u32, e.scale as u32]
}

// =====================================================================================================
// WDL
// =====================================================================================================

const WDL_VERS: &[(WdlVersion, &str)] = &[
    (WdlVersion::Vanilla, "Vanilla"),
    (WdlVersion::Wotlk, "Wotlk"),
    (WdlVersion::Cataclysm, "Cataclysm"),
    (WdlVersion::Mop, "Mop"),
    (WdlVersion::Wod, "Wod"),
    (WdlVersion::Legion, "Legion"),
    (WdlVersion::Bfa, "Bfa"),
    (WdlVersion::Shadowlands, "Shadowlands"),
    (WdlVersion::Dragonflight, "Dragonflight"),
    (WdlVersion::Latest, "Latest"),
];
const N_WDL_VERS: u64 = WDL_VERS.len() as u64;

/// Harness's own table of what each version can carry: 0 Vanilla (heights only), 1..=4 holes + MWMO/MWID/MODF, 5..=9 holes + ML**.
fn wdl_era(v: usize) -> &'static str {
    if v == 0 { "vanilla" } else if v <= 4 { "wmo-era" } else { "legion" }
}
fn wdl_has_holes(v: usize) -> bool {
    v >= 1
}

#[derive(Clone, PartialEq, Debug)]
struct PlM {
    id: u32,
    wmo_id: u32,
    pos: [u32; 3],
    rot: [u32; 3],
    bmin: [u32; 3],
    bmax: [u32; 3],
    flags: u16,
    doodad_set: u16,
    name_set: u16,
    padding: u16,
}
#[derive(Clone, PartialEq, Debug)]
struct M2M {
    id: u32,
    m2_id: u32,
    pos: [u32; 3],
    rot: [u32; 3],
    scale: u32,
    flags: u32,
}
#[derive(Clone, PartialEq, Debug)]
struct VisM {
    bmin: [u32; 3],
    bmax: [u32; 3],
    radius: u32,
}

#[derive(Default, Clone)]
struct WdlModel {
    ver: usize,
    /// (x, y) -> 289 outer + 256 inner heights
    tiles: BTreeMap<(u32, u32), (Vec<i16>, Vec<i16>)>,
    holes: BTreeMap<(u32, u32), [u16; 16]>,
    names: Vec<String>,
    indices: Vec<u32>,
    placements: Vec<PlM>,
    m2: Vec<M2M>,
    m2vis: Vec<VisM>,
    wmo2: Vec<M2M>,
    wmo2vis: Vec<VisM>,
}

struct WdlSpec {
    ver: usize,
    shape: &'static str,
    /// 0 none, 1 about half of the tiles, 2 every tile (only where the version has MAHO)
    holes: u8,
    /// number of model names (wmo-era) or of M2 placements (legion)
    models: u8,
}

impl WdlSpec {
    fn class(&self) -> String {
        format!("wdl|{}|{}|holes{}|models{}", WDL_VERS[self.ver].1, self.shape, self.holes, self.models)
    }
    fn desc(&self) -> Value {
        let holes = ["none", "half of the tiles", "every tile"][self.holes as usize];
        json!({"format": "WDL", "version": WDL_VERS[self.ver].1, "grid": self.shape, "holes": holes, "models": self.models})
    }
}

fn wdl_spec(k: u64, rng: &mut Rng) -> WdlSpec {
    let ver = (k % N_WDL_VERS) as usize;
    let shape = SHAPES[((k / N_WDL_VERS) % 10) as usize];
    let pass = k / (N_WDL_VERS * 10);
    let (holes, models) = if pass == 0 { (1, 2) } else { (rng.below(3) as u8, rng.below(5) as u8) };
    WdlSpec { ver, shape, holes: if wdl_has_holes(ver) { holes } else { 0 }, models: if ver == 0 { 0 } else { models } }
}

fn i16_any(rng: &mut Rng) -> i16 {
    match rng.below(16) {
        0 => i16::MIN,
        1 => i16::MAX,
        2 => 0,
        3 => -1,
        _ => rng.next_u32() as i16,
    }
}

fn m2m(rng: &mut Rng) -> M2M {
    M2M { id: rng.next_u32(), m2_id: 100_000 + rng.below(4_000_000) as u32, pos: vec3(rng), rot: vec3(rng), scale: [1.0f32, 0.5, 2.25][rng.usize(3)].to_bits(), flags: rng.next_u32() }
}
fn vism(rng: &mut Rng) -> VisM {
    VisM { bmin: vec3(rng), bmax: vec3(rng), radius: fin_f32(rng).abs().to_bits() }
}

fn wdl_model(s: &WdlSpec, rng: &mut Rng) -> WdlModel {
    let mut m = WdlModel { ver: s.ver, ..Default::default() };
    for (x, y) in grid(s.shape, rng) {
        let flat = rng.chance(1, 8);
        let base = i16_any(rng);
        let outer: Vec<i16> = (0..289).map(|_| if flat { base } else { i16_any(rng) }).collect();
        let inner: Vec<i16> = (0..256).map(|_| if flat { base } else { i16_any(rng) }).collect();
        m.tiles.insert((x, y), (outer, inner));
        if s.holes == 2 || (s.holes == 1 && rng.bool()) {
            let mut h = [0xFFFFu16; 16];
            for v in &mut h {
                if rng.chance(1, 3) {
                    *v = rng.next_u32() as u16;
                }
            }
            m.holes.insert((x, y), h);
        }
    }
    match wdl_era(s.ver) {
        "wmo-era" if s.models > 0 => {
            let mut off = 0u32;
            for _ in 0..s.models {
                let n = wmo_name(rng);
                m.indices.push(off);
                off += n.len() as u32 + 1;
                m.names.push(n);
            }
            for _ in 0..rng.below(2 * s.models as u64 + 1) {
                m.placements.push(PlM {
                    id: rng.next_u32(),
                    wmo_id: rng.below(s.models as u64) as u32,
                    pos: vec3(rng),
                    rot: vec3(rng),
                    bmin: vec3(rng),
                    bmax: vec3(rng),
                    flags: rng.next_u32() as u16,
                    doodad_set: rng.below(9) as u16,
                    name_set: rng.below(9) as u16,
                    padding: if rng.chance(1, 4) { rng.next_u32() as u16 } else { 0 },
                });
            }
        }
        "legion" => {
            for _ in 0..s.models {
                m.m2.push(m2m(rng));
                m.m2vis.push(vism(rng));
            }
            for _ in 0..rng.below(s.models as u64 + 1) {
                m.wmo2.push(m2m(rng));
                m.wmo2vis.push(vism(rng));
            }
        }
        _ => {}
    }
    m
}

fn v3(a: [u32; 3]) -> Vec3d {
    Vec3d::new(f32::from_bits(a[0]), f32::from_bits(a[1]), f32::from_bits(a[2]))
}
fn v3b(v: &Vec3d) -> [u32; 3] {
    [v.x.to_bits(), v.y.to_bits(), v.z.to_bits()]
}

/// The element types have neither Default nor a constructor; start from their own pub `read` on a zeroed record.
fn lib_placement(e: &PlM) -> ModelPlacement {
    let mut p = ModelPlacement::read(&mut Cursor::new(vec![0u8; 64])).expect("ModelPlacement::read on a 64-byte record");
    p.id = e.id;
    p.wmo_id = e.wmo_id;
    p.position = v3(e.pos);
    p.rotation = v3(e.rot);
    p.bounds = BoundingBox::new(v3(e.bmin), v3(e.bmax));
    p.flags = e.flags;
    p.doodad_set = e.doodad_set;
    p.name_set = e.name_set;
    p.padding = e.padding;
    p
}
fn lib_m2(e: &M2M) -> M2Placement {
    let mut p = M2Placement::read(&mut Cursor::new(vec![0u8; 40])).expect("M2Placement::read on a 40-byte record");
    p.id = e.id;
    p.m2_id = e.m2_id;
    p.position = v3(e.pos);
    p.rotation = v3(e.rot);
    p.scale = f32::from_bits(e.scale);
    p.flags = e.flags;
    p
}
fn lib_vis(e: &VisM) -> M2VisibilityInfo {
    let mut p = M2VisibilityInfo::read(&mut Cursor::new(vec![0u8; 28])).expect("M2VisibilityInfo::read on a 28-byte record");
    p.bounds = BoundingBox::new(v3(e.bmin), v3(e.bmax));
    p.radius = f32::from_bits(e.radius);
    p
}

/// The model's convention for a tile's 16x16 hole grid (the one the library documents for `hole_masks`): one word per row y,
/// bit x of it for the cell (x, y), a cleared bit is a hole.
fn model_hole(h: &[u16; 16], x: usize, y: usize) -> bool {
    h[y] & (1 << x) == 0
}

/// HolesData built cell by cell through set_hole, in one of three ways (from "no holes" marking the holes, from "all holes"
/// marking the solid cells, or every cell first set the wrong way round and then the right way).
fn holes_through_setters(h: &[u16; 16], way: u32) -> HolesData {
    let mut hd = if way == 1 { HolesData::all_holes() } else { HolesData::new() };
    for y in 0..16 {
        for x in 0..16 {
            let hole = model_hole(h, x, y);
            match way {
                0 => {
                    if hole {
                        hd.set_hole(x, y, true);
                    }
                }
                1 => {
                    if !hole {
                        hd.set_hole(x, y, false);
                    }
                }
                _ => {
                    hd.set_hole(x, y, !hole);
                }
            }
        }
    }
    if way >= 2 {
        for y in (0..16).rev() {
            for x in 0..16 {
                hd.set_hole(x, y, model_hole(h, x, y));
            }
        }
    }
    hd
}

/// A fresh library object (fresh HashMaps) from the model; `reverse` changes the insertion order. The forward build sets the holes
/// through HolesData::set_hole, the reverse build assigns the raw masks.
fn wdl_build(m: &WdlModel, reverse: bool) -> WdlFile {
    // WdlFile::new() is the constructor of the default (Latest) version
    let mut f = if WDL_VERS[m.ver].0 == WdlVersion::Latest && !reverse { WdlFile::new() } else { WdlFile::with_version(WDL_VERS[m.ver].0) };
    let mut keys: Vec<&(u32, u32)> = m.tiles.keys().collect();
    if reverse {
        keys.reverse();
    }
    for k in keys {
        let (o, i) = &m.tiles[k];
        let mut t = HeightMapTile::new();
        t.outer_values = o.clone();
        t.inner_values = i.clone();
        f.heightmap_tiles.insert(*k, t);
        if let Some(h) = m.holes.get(k) {
            let hd = if reverse {
                let mut hd = HolesData::new();
                hd.hole_masks = *h;
                hd
            } else {
                holes_through_setters(h, (k.0 + 2 * k.1) % 3)
            };
            f.holes_data.insert(*k, hd);
        }
    }
    f.wmo_filenames = m.names.clone();
    f.wmo_indices = m.indices.clone();
    f.wmo_placements = m.placements.iter().map(lib_placement).collect();
    f.m2_placements = m.m2.iter().map(lib_m2).collect();
    f.m2_visibility = m.m2vis.iter().map(lib_vis).collect();
    f.wmo_legion_placements = m.wmo2.iter().map(lib_m2).collect();
    f.wmo_legion_visibility = m.wmo2vis.iter().map(lib_vis).collect();
    f
}

fn wdl_write(v: WdlVersion, f: &WdlFile) -> Result<Vec<u8>, String> {
    let mut cur = Cursor::new(Vec::new());
    match trap(|| WdlParser::with_version(v).write(&mut cur, f)) {
        Ok(Ok(())) => Ok(cur.into_inner()),
        Ok(Err(e)) => Err(clean(format!("error: {e}"))),
        Err(p) => Err(clean(format!("panic: {}", p.msg))),
    }
}

fn wdl_parse(parser: WdlParser, bytes: &[u8]) -> Result<WdlFile, String> {
    match trap(|| parser.parse(&mut Cursor::new(bytes.to_vec()))) {
        Ok(Ok(f)) => Ok(f),
        Ok(Err(e)) => Err(clean(format!("error: {e}"))),
        Err(p) => Err(clean(format!("panic: {}", p.msg))),
    }
}

fn m2_of(p: &M2Placement) -> M2M {
    M2M { id: p.id, m2_id: p.m2_id, pos: v3b(&p.position), rot: v3b(&p.rotation), scale: p.scale.to_bits(), flags: p.flags }
}
fn vis_of(p: &M2VisibilityInfo) -> VisM {
    VisM { bmin: v3b(&p.bounds.min), bmax: v3b(&p.bounds.max), radius: p.radius.to_bits() }
}

fn pl_of(p: &ModelPlacement) -> PlM {
    PlM { id: p.id, wmo_id: p.wmo_id, pos: v3b(&p.position), rot: v3b(&p.rotation), bmin: v3b(&p.bounds.min), bmax: v3b(&p.bounds.max), flags: p.flags, doodad_set: p.doodad_set, name_set: p.name_set, padding: p.padding }
}

/// Two library files compared field by field (maps as maps, floats bitwise); the name of the first field that differs.
fn wdl_files_differ(a: &WdlFile, b: &WdlFile) -> Option<&'static str> {
    if a.version != b.version {
        return Some("version");
    }
    if a.version_number != b.version_number {
        return Some("version-number");
    }
    if a.heightmap_tiles.len() != b.heightmap_tiles.len() || a.heightmap_tiles.iter().any(|(k, t)| b.heightmap_tiles.get(k).map(|u| u.outer_values != t.outer_values || u.inner_values != t.inner_values).unwrap_or(true)) {
        return Some("heights");
    }
    if a.holes_data.len() != b.holes_data.len() || a.holes_data.iter().any(|(k, h)| b.holes_data.get(k).map(|u| u.hole_masks != h.hole_masks).unwrap_or(true)) {
        return Some("holes");
    }
    if a.map_tile_offsets[..] != b.map_tile_offsets[..] {
        return Some("tile-offsets");
    }
    if a.wmo_filenames != b.wmo_filenames {
        return Some("model-names");
    }
    if a.wmo_indices != b.wmo_indices {
        return Some("model-name-offsets");
    }
    if a.wmo_placements.iter().map(pl_of).collect::<Vec<_>>() != b.wmo_placements.iter().map(pl_of).collect::<Vec<_>>() {
        return Some("model-placements");
    }
    if a.m2_placements.iter().map(m2_of).collect::<Vec<_>>() != b.m2_placements.iter().map(m2_of).collect::<Vec<_>>()
        || a.m2_visibility.iter().map(vis_of).collect::<Vec<_>>() != b.m2_visibility.iter().map(vis_of).collect::<Vec<_>>()
        || a.wmo_legion_placements.iter().map(m2_of).collect::<Vec<_>>() != b.wmo_legion_placements.iter().map(m2_of).collect::<Vec<_>>()
        || a.wmo_legion_visibility.iter().map(vis_of).collect::<Vec<_>>() != b.wmo_legion_visibility.iter().map(vis_of).collect::<Vec<_>>()
    {
        return Some("legion-models");
    }
    None
}

/// HolesData::has_hole(x, y) for every cell of every tile that has holes in the model. Returns (cells compared, first difference:
/// how the accessor's answers relate to the model grid of that tile, tile, cell).
fn has_hole_diff(f: &WdlFile, m: &WdlModel) -> (u64, Option<(&'static str, (u32, u32), (usize, usize))>) {
    let mut n = 0u64;
    for (k, h) in &m.holes {
        let Some(hd) = f.holes_data.get(k) else { continue }; // a missing record is reported by holes_diff
        let mut first = None;
        let (mut transposed, mut inverted) = (true, true);
        for y in 0..16usize {
            for x in 0..16usize {
                n += 1;
                let g = hd.has_hole(x, y);
                if g != model_hole(h, x, y) && first.is_none() {
                    first = Some((x, y));
                }
                if g != model_hole(h, y, x) {
                    transposed = false;
                }
                if g == model_hole(h, x, y) {
                    inverted = false;
                }
            }
        }
        if let Some(cell) = first {
            return (n, Some((if transposed { "transposed" } else if inverted { "inverted" } else { "other" }, *k, cell)));
        }
    }
    (n, None)
}

/// Heights of a library file as a sorted map, compared with the model. Returns (what differs, first tile).
fn heights_diff(f: &WdlFile, m: &WdlModel) -> Option<(&'static str, (u32, u32))> {
    let got: BTreeMap<(u32, u32), (&Vec<i16>, &Vec<i16>)> = f.heightmap_tiles.iter().map(|(k, t)| (*k, (&t.outer_values, &t.inner_values))).collect();
    for k in m.tiles.keys() {
        if !got.contains_key(k) {
            let tr = got.contains_key(&(k.1, k.0)) && !m.tiles.contains_key(&(k.1, k.0));
            return Some((if tr { "tile-transposed" } else { "tile-missing" }, *k));
        }
    }
    for k in got.keys() {
        if !m.tiles.contains_key(k) {
            return Some(("tile-extra", *k));
        }
    }
    for (k, (o, i)) in &m.tiles {
        let g = got[k];
        if g.0 != o || g.1 != i {
            return Some(("heights-changed", *k));
        }
    }
    None
}

/// Holes of a library file compared with the model. `defaults_ok`: tiles without model holes may carry "no holes" masks.
fn holes_diff(f: &WdlFile, m: &WdlModel, defaults_ok: bool) -> Option<(&'static str, (u32, u32))> {
    let got: BTreeMap<(u32, u32), [u16; 16]> = f.holes_data.iter().map(|(k, h)| (*k, h.hole_masks)).collect();
    for (k, h) in &m.holes {
        match got.get(k) {
            None => return Some(("holes-missing", *k)),
            Some(g) if g != h => return Some(("holes-changed", *k)),
            _ => {}
        }
    }
    for (k, g) in &got {
        if !m.holes.contains_key(k) && !(defaults_ok && m.tiles.contains_key(k) && *g == [0xFFFFu16; 16]) {
            return Some(("holes-extra", *k));
        }
    }
    None
}

/// Everything the statement calls content, parsed file against the model. `with_version`: also the version field.
fn wdl_content_diff(f: &WdlFile, m: &WdlModel, with_version: bool) -> Option<(String, String)> {
    if with_version && f.version != WDL_VERS[m.ver].0 {
        return Some(("version".into(), format!("version field {:?}, wrote {:?}", f.version, WDL_VERS[m.ver].0)));
    }
    if f.version_number != 18 {
        return Some(("version-number".into(), format!("MVER {}", f.version_number)));
    }
    if let Some((w, k)) = heights_diff(f, m) {
        return Some((w.into(), format!("{w} at tile {k:?}")));
    }
    if let Some((w, k)) = holes_diff(f, m, false) {
        return Some((w.into(), format!("{w} at tile {k:?}")));
    }
    if f.wmo_filenames != m.names {
        return Some(("model-names".into(), format!("names {:?} came back as {:?}", m.names, f.wmo_filenames)));
    }
    if f.wmo_indices != m.indices {
        return Some(("model-name-offsets".into(), format!("MWID {:?} came back as {:?}", m.indices, f.wmo_indices)));
    }
    let pl: Vec<PlM> = f.wmo_placements.iter().map(pl_of).collect();
    if pl != m.placements {
        return Some(("model-placements".into(), format!("{} MODF placements came back as {} / contents differ", m.placements.len(), pl.len())));
    }
    let lists: [(&str, bool); 4] = [
        ("MLDD", f.m2_placements.iter().map(m2_of).collect::<Vec<_>>() != m.m2),
        ("MLDX", f.m2_visibility.iter().map(vis_of).collect::<Vec<_>>() != m.m2vis),
        ("MLMD", f.wmo_legion_placements.iter().map(m2_of).collect::<Vec<_>>() != m.wmo2),
        ("MLMX", f.wmo_legion_visibility.iter().map(vis_of).collect::<Vec<_>>() != m.wmo2vis),
    ];
    for (n, bad) in lists {
        if bad {
            return Some((format!("legion-models-{n}"), format!("{n} list differs after write->parse")));
        }
    }
    None
}

/// MAOF resolved by the independent walker: every non-zero entry [y*64+x] points at the header of a MARE chunk holding
/// tile (x,y)'s heights, followed by that tile's MAHO iff the model has holes for it; zero entries <=> tile absent.
fn wdl_walk_check(c: &mut Case, a: &[u8], m: &WdlModel, s: &WdlSpec) {
    let era = wdl_era(m.ver);
    let chunks = match walk(a) {
        Ok(ch) => ch,
        Err(e) => {
            c.violate(format!("wdl|layout|framing|{era}"), format!("written file is not a chunk sequence: {e}"), s.desc());
            return;
        }
    };
    c.count("wdl_walker_chunks", chunks.len() as u64);
    let by_off: BTreeMap<usize, usize> = chunks.iter().enumerate().map(|(i, ch)| (ch.1, i)).collect();
    let n = |name: &str| chunks.iter().filter(|ch| ch.0 == name).count();
    if chunks.first().map(|ch| ch.0.as_str()) != Some("MVER") || n("MVER") != 1 || n("MAOF") != 1 {
        c.violate(format!("wdl|layout|header-chunks|{era}"), format!("expected MVER first and exactly one MVER and MAOF, got {} / {}", n("MVER"), n("MAOF")), s.desc());
        return;
    }
    if n("MARE") != m.tiles.len() || n("MAHO") != m.holes.len() {
        c.violate(format!("wdl|layout|tile-chunk-count|{era}"), format!("{} MARE / {} MAHO chunks for {} tiles / {} hole sets", n("MARE"), n("MAHO"), m.tiles.len(), m.holes.len()), s.desc());
    }
    let maof = &a[chunks.iter().find(|ch| ch.0 == "MAOF").unwrap().2.clone()];
    if maof.len() != 4096 * 4 {
        c.violate(format!("wdl|layout|maof-size|{era}"), format!("MAOF payload {} bytes", maof.len()), s.desc());
        return;
    }
    let (mut resolved, mut zero) = (0u64, 0u64);
    for y in 0..64u32 {
        for x in 0..64u32 {
            let off = u32_at(maof, ((y * 64 + x) * 4) as usize) as usize;
            let tile = m.tiles.get(&(x, y));
            let bad: Option<(&str, String)> = match (off, tile) {
                (0, None) => {
                    zero += 1;
                    None
                }
                (0, Some(_)) => Some(("zero-for-present-tile", "offset 0 for a tile that has heights".into())),
                (_, None) => Some(("offset-for-absent-tile", format!("offset {off} for a tile without heights"))),
                (_, Some((o, i))) => match by_off.get(&off) {
                    None => Some(("not-at-chunk-boundary", format!("offset {off} is not the start of a chunk"))),
                    Some(&ci) if chunks[ci].0 != "MARE" => Some(("not-a-MARE", format!("offset {off} is a {} chunk", chunks[ci].0))),
                    Some(&ci) => {
                        let d = &a[chunks[ci].2.clone()];
                        let mut want = Vec::with_capacity(1090);
                        for v in o.iter().chain(i.iter()) {
                            want.extend_from_slice(&v.to_le_bytes());
                        }
                        let next_is_maho = chunks.get(ci + 1).map(|ch| ch.0 == "MAHO").unwrap_or(false);
                        if d != &want[..] {
                            let other = m.tiles.iter().find(|(_, (o2, i2))| {
                                let mut w2 = Vec::with_capacity(1090);
                                for v in o2.iter().chain(i2.iter()) {
                                    w2.extend_from_slice(&v.to_le_bytes());
                                }
                                d == &w2[..]
                            });
                            Some(("MARE-of-wrong-tile", format!("MARE at {off} holds {}", other.map(|(k, _)| format!("tile {k:?}'s heights")).unwrap_or_else(|| "no tile's heights".into()))))
                        } else {
                            match m.holes.get(&(x, y)) {
                                Some(_) if !next_is_maho => Some(("MAHO-missing", "tile has holes but no MAHO follows its MARE".into())),
                                None if next_is_maho => Some(("MAHO-unexpected", "a MAHO follows the MARE of a tile without holes".into())),
                                Some(h) => {
                                    let hd = &a[chunks[ci + 1].2.clone()];
                                    let wanth: Vec<u8> = h.iter().flat_map(|v| v.to_le_bytes()).collect();
                                    if hd != &wanth[..] { Some(("MAHO-of-wrong-tile", "MAHO after the MARE does not hold this tile's masks".into())) } else { None }
                                }
                                None => None,
                            }
                        }
                    }
                },
            };
            match bad {
                None if off != 0 => resolved += 1,
                None => {}
                Some((k, t)) => {
                    c.violate(format!("wdl|layout|maof|{k}|{era}"), format!("MAOF[{y}][{x}] ({}, grid {}): {t}", WDL_VERS[m.ver].1, s.shape), s.desc());
                    c.count("wdl_maof_entries_resolved", resolved);
                    return;
                }
            }
        }
    }
    c.count("wdl_maof_entries_resolved", resolved);
    c.count("wdl_maof_zero_entries_checked", zero);
}

fn wdl_case(c: &mut Case, s: &WdlSpec, rng: &mut Rng, rs: &mut Rng) {
    let (ver, vname) = WDL_VERS[s.ver];
    let era = wdl_era(s.ver);
    let m = wdl_model(s, rng);
    // A parser of version Latest is the auto-detecting one: the label it puts on the file is one of a family of versions with the same
    // layout (not content, not stored in the file) and is counted instead of compared.
    let label_checked = ver != WdlVersion::Latest;
    c.count(&format!("wdl_files|{vname}"), 1);
    c.count(&format!("wdl_grids|{}", s.shape), 1);
    c.count("wdl_tiles_with_heights", m.tiles.len() as u64);
    c.count("wdl_tiles_with_holes", m.holes.len() as u64);
    c.count("wdl_model_records", (m.names.len() + m.placements.len() + m.m2.len() + m.m2vis.len() + m.wmo2.len() + m.wmo2vis.len()) as u64);

    // ---- write from two independently built objects (different HashMap instances and insertion orders)
    let f1 = wdl_build(&m, false);
    if ver == WdlVersion::Latest {
        c.count("wdl_built_with_WdlFile::new", 1);
        if f1.version != WdlVersion::Latest || f1.version_number != 18 {
            c.violate(format!("wdl|new-is-not-latest|{era}"), format!("WdlFile::new() has version {:?} / MVER {}", f1.version, f1.version_number), s.desc());
        }
    }
    // ---- holes set cell by cell through set_hole: the masks are the documented ones (word y, bit x, cleared = hole) and
    // has_hole answers with the model grid
    if !m.holes.is_empty() {
        c.count("wdl_hole_tiles_built_through_set_hole", m.holes.len() as u64);
        c.count("wdl_set_hole_cells", m.holes.len() as u64 * 256);
        for (k, h) in &m.holes {
            let got = f1.holes_data[k].hole_masks;
            if got != *h {
                let tr = (0..16).all(|y| (0..16).all(|x| (got[y] & (1 << x) == 0) == model_hole(h, y, x)));
                let inv = (0..16).all(|y| got[y] == !h[y]);
                let rel = if tr { "transposed" } else if inv { "inverted" } else { "other" };
                c.violate(format!("wdl|holes-accessor|set_hole-mask|{rel}|{era}"), format!("HolesData built through set_hole for tile {k:?} has masks {got:04x?}, the documented layout (word y, bit x, cleared = hole) gives {h:04x?}"), s.desc());
                break;
            }
        }
        let (n, d) = has_hole_diff(&f1, &m);
        c.count("wdl_has_hole_cells_compared", n);
        if let Some((rel, k, cell)) = d {
            c.violate(format!("wdl|holes-accessor|has_hole|{rel}|built|{era}"), format!("has_hole{cell:?} of tile {k:?} disagrees with what set_hole was told ({vname})"), s.desc());
        }
    }
    let a = match wdl_write(ver, &f1) {
        Ok(a) => a,
        Err(e) => {
            c.violate(format!("wdl|write-failed|{era}"), format!("WdlParser::write failed ({vname}): {e}"), s.desc());
            return;
        }
    };
    c.count("wdl_bytes_written", a.len() as u64);
    match wdl_write(ver, &wdl_build(&m, true)) {
        Ok(a2) if a2 == a => c.count("wdl_cross_instance_first_write_identical", 1),
        Ok(a2) => c.violate(format!("wdl|write-depends-on-map-instance|{era}"), format!("two equal WdlFile objects built in different insertion orders serialise differently (first difference at byte {})", first_diff(&a, &a2)), s.desc()),
        Err(e) => c.violate(format!("wdl|write-failed|{era}"), format!("WdlParser::write failed on the second instance: {e}"), s.desc()),
    }

    wdl_walk_check(c, &a, &m, s);

    // ---- parse with two fresh parsers of the written version, and with the default (auto-detecting) parser
    let mut parsed: Vec<WdlFile> = Vec::new();
    for (pi, mk) in [0, 1, 2].iter().enumerate() {
        let parser = if *mk < 2 { WdlParser::with_version(ver) } else { WdlParser::new() };
        let how = if *mk < 2 { "versioned" } else { "default" };
        match wdl_parse(parser, &a) {
            Err(e) => {
                c.violate(format!("wdl|parse-failed|{how}|{era}"), format!("WdlParser({how})::parse rejected write's own output ({vname}, grid {}): {e}", s.shape), s.desc());
                if pi == 0 {
                    return;
                }
            }
            Ok(p) => {
                c.count(&format!("wdl_parsed|{how}"), 1);
                if !label_checked {
                    c.count(&format!("wdl_latest_file_labelled|{:?}", p.version), 1);
                }
                match wdl_content_diff(&p, &m, *mk < 2 && label_checked) {
                    None => c.count("wdl_roundtrip_equal", 1),
                    Some((k, t)) => c.violate(format!("wdl|roundtrip|{k}|{how}|{era}"), format!("content differs after write->parse ({vname}, grid {}, {how} parser): {t}", s.shape), s.desc()),
                }
                // the per-cell accessor on the parsed holes against the model grid
                let (n, d) = has_hole_diff(&p, &m);
                c.count("wdl_has_hole_cells_compared", n);
                if let Some((rel, k, cell)) = d {
                    c.violate(format!("wdl|holes-accessor|has_hole|{rel}|{how}|{era}"), format!("after write->parse ({vname}, {how} parser) has_hole{cell:?} of tile {k:?} disagrees with the hole grid written"), s.desc());
                }
                if pi == 0 {
                    let max = 1 + (c.idx % 13) as usize * 5;
                    let parser = WdlParser::with_version(ver);
                    match trap(|| parser.parse(&mut vh_common::ShortIo::new(Cursor::new(a.clone()), max))) {
                        Ok(Ok(ps)) => {
                            c.count("wdl_parsed_through_short_reads", 1);
                            if let Some((k, t)) = wdl_content_diff(&ps, &m, label_checked) {
                                c.violate(format!("wdl|short-read-parse-differs|{k}|{era}"), format!("WdlParser::parse through a reader that returns at most {max} bytes per call: {t}"), s.desc());
                            }
                        }
                        Ok(Err(e)) => c.violate(format!("wdl|short-read-parse-failed|{era}"), format!("WdlParser::parse through a reader that returns at most {max} bytes per call fails on bytes that parse from a Cursor: {e}"), s.desc()),
                        Err(pn) => c.violate(format!("wdl|parse-panic|{era}|{}", pn.sig()), pn.msg.clone(), s.desc()),
                    }
                }
                if *mk < 2 {
                    parsed.push(p);
                } else {
                    // load with the auto-detecting parser, save as the version the loaded file says it has (after C18-r3m1): the
                    // version label may be any member of a family of versions with one layout, the saved bytes are the file
                    match wdl_write(p.version, &p) {
                        Ok(b) if b == a => c.count("wdl_autodetected_second_write_identical", 1),
                        Ok(b) => {
                            let at = first_diff(&a, &b);
                            let chunk = walk(&a).ok().and_then(|ch| ch.iter().find(|x| at < x.2.end).map(|x| x.0.clone())).unwrap_or_else(|| "tail".into());
                            c.violate(format!("wdl|second-write-differs|{chunk}|auto-detected-version|{era}"), format!("a {vname} file loaded with the auto-detecting parser reports version {:?}; saved as that version it differs from the file at byte {at} ({} vs {} bytes), in/after chunk {chunk}", p.version, a.len(), b.len()), s.desc());
                        }
                        Err(e) => c.violate(format!("wdl|second-write-failed|auto-detected-version|{era}"), format!("saving the auto-detected file as version {:?} failed: {e}", p.version), s.desc()),
                    }
                }
            }
        }
    }
    c.count("wdl_height_values_compared", (m.tiles.len() * 545 * 3) as u64);

    // ---- second write, from each of the two independently parsed objects
    for (pi, p) in parsed.iter().enumerate() {
        match wdl_write(ver, p) {
            Ok(b) if b == a => c.count("wdl_second_write_identical", 1),
            Ok(b) => {
                let at = first_diff(&a, &b);
                let chunk = walk(&a).ok().and_then(|ch| ch.iter().find(|x| at < x.2.end).map(|x| x.0.clone())).unwrap_or_else(|| "tail".into());
                c.violate(format!("wdl|second-write-differs|{chunk}|{era}"), format!("write(parse(write(x))) (instance {pi}) differs from write(x) at byte {at} ({} vs {} bytes), in/after chunk {chunk}", a.len(), b.len()), s.desc());
            }
            Err(e) => c.violate(format!("wdl|second-write-failed|{era}"), format!("writing the parsed file failed: {e}"), s.desc()),
        }
    }

    // ---- one parser object carried from version to version with set_version must behave like a fresh parser of that version.
    // It starts as a parser of another version and has already been used (whatever that attempt yields is not judged).
    let mut reused = WdlParser::with_version(WDL_VERS[(s.ver + 1 + rs.usize(WDL_VERS.len() - 1)) % WDL_VERS.len()].0);
    let _ = trap(|| reused.parse(&mut Cursor::new(a.clone())).map(|_| ()));
    reused.set_version(ver);
    c.count("wdl_set_version_calls", 1);
    if reused.version() != ver {
        c.violate(format!("wdl|set_version|version-not-taken|{era}"), format!("set_version({ver:?}) leaves version() = {:?}", reused.version()), s.desc());
    }
    match (trap(|| reused.parse(&mut Cursor::new(a.clone()))), parsed.first()) {
        (Ok(Ok(pr)), Some(fresh)) => {
            c.count("wdl_reused_parser_parses_compared", 1);
            if let Some(field) = wdl_files_differ(&pr, fresh) {
                c.violate(format!("wdl|set_version|parse-differs|{field}|{era}"), format!("a parser switched to {vname} with set_version parses the file differently ({field}) than WdlParser::with_version"), s.desc());
            }
        }
        (Ok(Ok(_)), None) => {}
        (Ok(Err(e)), _) => c.violate(format!("wdl|set_version|parse-failed|{era}"), clean(format!("a parser switched to {vname} with set_version rejects a file a fresh parser of that version reads: {e}")), s.desc()),
        (Err(pn), _) => c.violate(format!("wdl|parse-panic|{era}|{}", pn.sig()), pn.msg.clone(), s.desc()),
    }

    // ---- the file written into a stream that already holds other bytes. MAOF holds offsets: either they count from where the
    // writer started (then the bytes from there on are the file and parse as a file of their own) or they are positions in the
    // stream (then a parser started at the same position reads them). One of the two must give the content back.
    {
        let plen = [1usize, 8, 12, 4096, 1 + rs.below(70_000) as usize][rs.usize(5)];
        let mut cur = Cursor::new(vec![0xA5u8; plen]);
        cur.set_position(plen as u64);
        match trap(|| WdlParser::with_version(ver).write(&mut cur, &f1)) {
            Ok(Ok(())) => {
                let buf = cur.into_inner();
                c.count("wdl_offset_stream_written", 1);
                let tail = if buf.len() >= plen { &buf[plen..] } else { &buf[..0] };
                c.count(if tail == &a[..] { "wdl_offset_stream|same-bytes-as-at-position-0" } else { "wdl_offset_stream|other-bytes-than-at-position-0" }, 1);
                let alone = wdl_parse(WdlParser::with_version(ver), tail).map(|pf| wdl_content_diff(&pf, &m, label_checked));
                let in_place = {
                    let mut rc = Cursor::new(buf.clone());
                    rc.set_position(plen as u64);
                    match trap(|| WdlParser::with_version(ver).parse(&mut rc)) {
                        Ok(Ok(pf)) => Ok(wdl_content_diff(&pf, &m, label_checked)),
                        Ok(Err(e)) => Err(clean(format!("error: {e}"))),
                        Err(pn) => Err(clean(format!("panic: {}", pn.msg))),
                    }
                };
                let ok_alone = matches!(alone, Ok(None));
                let ok_in_place = matches!(in_place, Ok(None));
                if ok_alone {
                    c.count("wdl_offset_stream_roundtrip|as-a-file-of-its-own", 1);
                }
                if ok_in_place {
                    c.count("wdl_offset_stream_roundtrip|parsed-in-place", 1);
                }
                if !ok_alone && !ok_in_place {
                    let show = |r: &Result<Option<(String, String)>, String>| match r {
                        Ok(Some((_, t))) => t.clone(),
                        Ok(None) => "equal".into(),
                        Err(e) => e.clone(),
                    };
                    c.violate(
                        format!("wdl|offset-stream|content-not-recovered|{era}"),
                        format!("{vname} file written at stream position {plen}: neither the written bytes parsed as a file ({}) nor a parse started at that position ({}) returns the content", show(&alone), show(&in_place)),
                        s.desc(),
                    );
                }
            }
            Ok(Err(e)) => c.violate(format!("wdl|offset-stream|write-failed|{era}"), clean(format!("WdlParser::write into a stream positioned after {plen} other bytes failed: {e}")), s.desc()),
            Err(pn) => c.violate(format!("wdl|offset-stream|{}|{era}", pn.sig()), pn.msg.clone(), s.desc()),
        }
    }

    // ---- load, edit, save: a parsed file whose model names are changed must be written as edited (the parsed object may carry
    // material from the file it came from; what is written is the object's content)
    if let Ok(mut edited) = wdl_parse(WdlParser::with_version(ver), &a) {
        if !edited.wmo_filenames.is_empty() {
            let mut m2 = m.clone();
            let new_name = format!("World\\wmo\\Edited\\renamed_{}.wmo", rng.below(1000));
            if !edited.wmo_filenames.is_empty() {
                edited.wmo_filenames[0] = new_name.clone();
                m2.names[0] = new_name;
                c.count("wdl_edit_stage|renamed", 1);
                match wdl_write(ver, &edited).and_then(|b| wdl_parse(WdlParser::with_version(ver), &b)) {
                    Ok(back) => match wdl_content_diff(&back, &m2, label_checked) {
                        None => c.count("wdl_edit_roundtrip_equal", 1),
                        Some((k, t)) => c.violate(format!("wdl|edit-roundtrip|{k}|{era}"), format!("parse -> rename a model -> write -> parse ({vname}): {t}"), s.desc()),
                    },
                    Err(e) => c.violate(format!("wdl|edit-roundtrip|failed|{era}"), format!("parse -> rename a model -> write -> parse ({vname}) failed: {e}"), s.desc()),
                }
            }
        }
    }

    // ---- conversion to every version: heights (and holes where both sides can carry them) must survive
    let src = parsed.first().unwrap_or(&f1);
    for (t, &(tv, tname)) in WDL_VERS.iter().enumerate() {
        let pair = format!("{}->{}", era, wdl_era(t));
        c.count(&format!("wdl_convert|{vname}->{tname}"), 1);
        c.count("wdl_convert_pairs", 1);
        let cv = match trap(|| convert_wdl_file(src, tv)) {
            Ok(Ok(f)) => f,
            Ok(Err(e)) => {
                if !wdl_has_holes(t) && !m.holes.is_empty() {
                    c.count("wdl_convert_refused(holes cannot be carried)", 1); // nothing converted, nothing lost
                } else {
                    c.violate(format!("wdl|convert|failed|{pair}"), format!("convert_wdl_file {vname}->{tname} failed: {e}"), s.desc());
                }
                continue;
            }
            Err(pn) => {
                c.violate(format!("wdl|convert|{}|{pair}", pn.sig()), format!("convert_wdl_file {vname}->{tname} panicked: {}", pn.msg), s.desc());
                continue;
            }
        };
        let defaults_ok = !wdl_has_holes(s.ver);
        let tile_diff = |f: &WdlFile| heights_diff(f, &m).or_else(|| if wdl_has_holes(t) { holes_diff(f, &m, defaults_ok) } else { None });
        if let Some((k, tile)) = tile_diff(&cv) {
            c.violate(format!("wdl|convert|{k}|{pair}"), format!("convert_wdl_file {vname}->{tname}: {k} at tile {tile:?}"), s.desc());
            continue;
        }
        match wdl_write(tv, &cv).and_then(|b| wdl_parse(WdlParser::with_version(tv), &b).map(|f| (b, f))) {
            Ok((b, back)) => {
                c.count("wdl_convert_written_and_parsed", 1);
                if let Some((k, tile)) = tile_diff(&back) {
                    c.violate(format!("wdl|convert|{k}-after-write|{pair}"), format!("{vname}->{tname}: converted file written and parsed: {k} at tile {tile:?}"), s.desc());
                }
                // the carried-along parser, switched to the target version: same bytes out, same file in
                reused.set_version(tv);
                c.count("wdl_set_version_calls", 1);
                let mut cur = Cursor::new(Vec::new());
                match trap(|| reused.write(&mut cur, &cv)) {
                    Ok(Ok(())) if cur.get_ref()[..] == b[..] => c.count("wdl_reused_parser_writes_compared", 1),
                    Ok(Ok(())) => c.violate(format!("wdl|set_version|write-differs|{pair}"), format!("a parser switched to {tname} with set_version writes the converted file differently than WdlParser::with_version (first difference at byte {})", first_diff(&b, cur.get_ref())), s.desc()),
                    Ok(Err(e)) => c.violate(format!("wdl|set_version|write-failed|{pair}"), clean(format!("a parser switched to {tname} with set_version fails to write: {e}")), s.desc()),
                    Err(pn) => c.violate(format!("wdl|set_version|{}|{pair}", pn.sig()), pn.msg.clone(), s.desc()),
                }
                match trap(|| reused.parse(&mut Cursor::new(b.clone()))) {
                    Ok(Ok(pr)) => {
                        c.count("wdl_reused_parser_parses_compared", 1);
                        if let Some(field) = wdl_files_differ(&pr, &back) {
                            c.violate(format!("wdl|set_version|parse-differs|{field}|{}", wdl_era(t)), format!("a parser switched from version to version with set_version, now {tname}, parses the converted file differently ({field}) than WdlParser::with_version"), s.desc());
                        }
                    }
                    Ok(Err(e)) => c.violate(format!("wdl|set_version|parse-failed|{}", wdl_era(t)), clean(format!("a parser switched to {tname} with set_version rejects a file a fresh parser of that version reads: {e}")), s.desc()),
                    Err(pn) => c.violate(format!("wdl|parse-panic|{}|{}", wdl_era(t), pn.sig()), pn.msg.clone(), s.desc()),
                }
            }
            Err(e) => c.violate(format!("wdl|convert|converted-file-unreadable|{pair}"), format!("{vname}->{tname}: converted file does not survive write->parse: {e}"), s.desc()),
        }
    }
}

fn main() {
    let mut run = Run::new();
    let thorough = run.args.thorough();
    let n_wdt: u64 = if thorough { 20000 } else { 2000 };
    let n_wdl: u64 = if thorough { 15000 } else { 800 };
    let mut idx = 0u64;
    for clause in ["corner", "centre", "range"] {
        run.case(idx, &format!("coord|{clause}"), json!({"what": format!("all 64x64 tiles, clause {clause}")}), |c| coord_case(c, clause));
        idx += 1;
    }
    for k in 0..n_wdt {
        let i = idx + k;
        if !run.want(i) {
            continue;
        }
        let mut rng = run.rng(i, 0);
        let mut rs = run.rng(i, 1);
        let s = wdt_spec(k, &mut rng, &mut rs);
        run.case(i, &s.class(), s.desc(), |c| wdt_case(c, &s, &mut rng, &mut rs));
    }
    idx += n_wdt;
    for k in 0..n_wdl {
        let i = idx + k;
        if !run.want(i) {
            continue;
        }
        let mut rng = run.rng(i, 0);
        let mut rs = run.rng(i, 1);
        let s = wdl_spec(k, &mut rng);
        run.case(i, &s.class(), s.desc(), |c| wdl_case(c, &s, &mut rng, &mut rs));
    }
    run.done();
}
