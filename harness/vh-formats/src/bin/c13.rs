//! C13 — M2 / skin / anim files survive write→parse, also across version conversion. DESIGN.md §6 C13.
//!
//! Model = the object before it was written.  Oracles:
//!  (a) content projection P(parse(write(m))) == P(m)   (locator offsets masked, floats compared by bit pattern,
//!      preserved key-frame payloads resolved through the raw-data lists and compared as bytes)
//!  (b) write(parse(write(m))) == write(m) byte for byte
//!  (c) convert(v→v) changes neither projection nor bytes
//!  (d) convert(v→w): projection restricted to fields present in both versions is preserved through write+parse
//!  (e) an independent walker over the written bytes (own header table, own record sizes, own nested-array table)
//! A case carries at most ONE "risk" feature (a structural trigger predicate); the clean sub-space is checked strictly.
//! Cases with a risk feature report under the single signature `risk=<predicate>`; for triage, the environment variable
//! C13_RAW_SIGS=1 makes the worker emit the precise per-clause signatures for those cases as well.

use serde_json::{Value, json};
use std::fmt::Write as _;
use std::io::Cursor;
use vh_common::{Case, Rng, Run, first_diff, fnv64, hex, trap};
use wow_m2::anim::{AnimBoneAnimation, AnimEntry, AnimFile, AnimFormat, AnimHeader, AnimMetadata, AnimRotation, AnimScaling, AnimSection, AnimSectionHeader, AnimTranslation, LegacyStructureHints};
use wow_m2::chunks::animation::{M2Animation, M2AnimationBlock, M2InterpolationType};
use wow_m2::chunks::attachment::M2Attachment;
use wow_m2::chunks::bone::{M2Bone, M2BoneFlags};
use wow_m2::chunks::camera::{M2Camera, M2CameraFlags};
use wow_m2::chunks::color_animation::{M2Color, M2ColorAnimation};
use wow_m2::chunks::event::M2Event;
use wow_m2::chunks::light::{M2Light, M2LightFlags, M2LightType};
use wow_m2::chunks::m2_track::M2Track;
use wow_m2::chunks::material::{M2BlendMode, M2Material, M2RenderFlags};
use wow_m2::chunks::particle_emitter::{M2ParticleEmitter, M2ParticleEmitterType, M2ParticleFlags};
use wow_m2::chunks::ribbon_emitter::M2RibbonEmitter;
use wow_m2::chunks::texture::{M2Texture, M2TextureFlags, M2TextureType};
use wow_m2::chunks::texture_animation::{M2TextureAnimation, M2TextureAnimationType};
use wow_m2::chunks::transparency_animation::M2TransparencyAnimation;
use wow_m2::chunks::vertex::M2Vertex;
use wow_m2::common::{C2Vector, C3Vector, M2Array, M2Parse, Quaternion};
use wow_m2::header::{M2Header, M2ModelFlags};
use wow_m2::model::*;
use wow_m2::skin::{OldSkin, OldSkinHeader, Skin, SkinBatch, SkinFile, SkinHeader, SkinSubmesh};
use wow_m2::{M2Converter, M2Format, M2Model, M2Version, parse_m2};

// ------------------------------------------------------------------ versions ----

const VERSIONS: &[(&str, M2Version, u32)] = &[
    ("Vanilla", M2Version::Vanilla, 256),
    ("TBC", M2Version::TBC, 260),
    ("WotLK", M2Version::WotLK, 264),
    ("Cataclysm", M2Version::Cataclysm, 272),
    ("MoP", M2Version::MoP, 272),
];

/// VERSIONS followed by header revisions between the canonical ones (files in the wild carry them; the library maps
/// 257..259 to Vanilla, 261..263 to TBC, 265..271 to WotLK): written with their own version number, they must come back with it.
const ALLV: &[(&str, M2Version, u32)] = &[
    ("Vanilla", M2Version::Vanilla, 256),
    ("TBC", M2Version::TBC, 260),
    ("WotLK", M2Version::WotLK, 264),
    ("Cataclysm", M2Version::Cataclysm, 272),
    ("MoP", M2Version::MoP, 272),
    ("rev257", M2Version::Vanilla, 257),
    ("rev258", M2Version::Vanilla, 258),
    ("rev259", M2Version::Vanilla, 259),
    ("rev261", M2Version::TBC, 261),
    ("rev263", M2Version::TBC, 263),
    ("rev265", M2Version::WotLK, 265),
    ("rev271", M2Version::WotLK, 271),
    // the versions behind MoP: M2Model::write emits MD20 with these header numbers and both converters take them as targets
    ("WoD", M2Version::WoD, 275),
    ("Legion", M2Version::Legion, 276),
    ("BfA", M2Version::BfA, 280),
    ("Shadowlands", M2Version::Shadowlands, 290),
    ("Dragonflight", M2Version::Dragonflight, 300),
    ("TheWarWithin", M2Version::TheWarWithin, 310),
];
/// index of the first post-MoP row of ALLV
const POST_MOP: usize = 12;

/// Structural trigger predicates. A model case carries at most one; `Clean` carries none.
#[derive(Clone, Copy, PartialEq, Eq, Debug)]
enum Risk {
    Clean,
    /// a texture with an embedded file name (count>0, offset>0 as the parser produces them)
    TexFilename,
    /// an event whose `ranges` array is non-empty
    EventRanges,
    /// an embedded skin (≤263) with a non-empty batches array
    SkinBatches,
    /// a bone whose pivot has a NaN component
    PivotNan,
    /// a model without bones whose vertices have all-zero bone weights
    VertexZeroWeightNoBones,
    /// a vertex bone index >= number of bones (with non-zero weights)
    VertexBoneIndexOob,
    /// header flag USE_TEXTURE_COMBINERS (0x8) set
    FlagCombiners,
    /// header flag 0x8000000 (blend-map overrides) set
    FlagBlendOverride,
    /// a track-bearing section without any key-frame data whose track headers carry a non-default
    /// interpolation type / global sequence
    StaticTrackHeaders,
    /// an MD20 file with a header version above 272 (WoD .. TheWarWithin as written by M2Model::write) whose data area behind
    /// the header is shorter than 8 bytes (an all but empty model); assigned from the written file, not by the schedule
    PostMoP,
}

impl Risk {
    fn tag(self) -> &'static str {
        match self {
            Risk::Clean => "clean",
            Risk::TexFilename => "texture-filename",
            Risk::EventRanges => "event-ranges",
            Risk::SkinBatches => "embedded-skin-batches",
            Risk::PivotNan => "bone-pivot-nan",
            Risk::VertexZeroWeightNoBones => "vertex-zero-weight-no-bones",
            Risk::VertexBoneIndexOob => "vertex-bone-index-oob",
            Risk::FlagCombiners => "flag-texture-combiners",
            Risk::FlagBlendOverride => "flag-blend-override",
            Risk::StaticTrackHeaders => "static-track-headers",
            Risk::PostMoP => "md20-version-above-272-data-shorter-than-8-bytes",
        }
    }
}

const RISK_SCHEDULE: &[Risk] = &[
    Risk::Clean, Risk::Clean, Risk::TexFilename, Risk::Clean, Risk::EventRanges, Risk::Clean, Risk::SkinBatches, Risk::Clean,
    Risk::PivotNan, Risk::Clean, Risk::VertexZeroWeightNoBones, Risk::Clean, Risk::VertexBoneIndexOob, Risk::Clean, Risk::FlagCombiners,
    Risk::Clean, Risk::FlagBlendOverride, Risk::Clean, Risk::StaticTrackHeaders, Risk::Clean,
];

// ------------------------------------------------------------------ small helpers ----

fn zeros() -> Cursor<Vec<u8>> {
    Cursor::new(vec![0u8; 4096])
}

fn fb(f: f32) -> String {
    format!("{:08x}", f.to_bits())
}
fn f3(a: &[f32; 3]) -> String {
    format!("{}/{}/{}", fb(a[0]), fb(a[1]), fb(a[2]))
}
fn v3(v: &C3Vector) -> String {
    format!("{}/{}/{}", fb(v.x), fb(v.y), fb(v.z))
}
fn v2(v: &C2Vector) -> String {
    format!("{}/{}", fb(v.x), fb(v.y))
}
fn bytes_s(b: &[u8]) -> String {
    if b.len() <= 48 { format!("{}:{}", b.len(), hex(b)) } else { format!("{}:#{:016x}", b.len(), fnv64(b)) }
}

/// extreme floats incl. signed zero, subnormals, infinities and NaNs with payloads (compared by bit pattern)
fn fx(r: &mut Rng) -> f32 {
    match r.below(20) {
        0 => 0.0,
        1 => -0.0,
        2 => f32::from_bits(1),
        3 => f32::from_bits(0x807f_ffff),
        4 => f32::INFINITY,
        5 => f32::NEG_INFINITY,
        6 => f32::from_bits(0x7fc0_0000),
        7 => f32::from_bits(0x7f80_0001),
        8 => f32::from_bits(0xffc1_2345),
        9 => f32::MAX,
        10 => f32::MIN_POSITIVE,
        11 => 1.0,
        _ => f32::from_bits(r.next_u32()),
    }
}
fn fx_nonan(r: &mut Rng) -> f32 {
    loop {
        let f = fx(r);
        if !f.is_nan() {
            return f;
        }
    }
}
fn c3(r: &mut Rng) -> C3Vector {
    let mut v = C3Vector::default();
    v.x = fx(r);
    v.y = fx(r);
    v.z = fx(r);
    v
}
fn c2(r: &mut Rng) -> C2Vector {
    let mut v = C2Vector::default();
    v.x = fx(r);
    v.y = fx(r);
    v
}
fn interp(r: &mut Rng) -> M2InterpolationType {
    M2InterpolationType::from_u16(r.below(4) as u16).unwrap_or(M2InterpolationType::None)
}
/// size class 0 / 1 / many
fn size_of_class(r: &mut Rng, class: u8, big: bool) -> usize {
    match class {
        0 => 0,
        1 => 1,
        _ => {
            // (one in twelve of the large lists is longer than the parsers' pre-allocation caps of 1024 / 4096 elements or
            // bytes - real meshes are; after C13-r3m1)
            if big && r.chance(1, 6) {
                if r.chance(1, 2) { [1025usize, 4097, 4100 + r.usize(3000)][r.usize(3)] } else { 40 + r.usize(300) }
            } else {
                2 + r.usize(6)
            }
        }
    }
}

/// value types of key-frame tracks: element size on disk and bit-exact rendering
trait Val: M2Parse + Sized + Clone + Default {
    const SIZE: usize;
    fn bits(&self) -> String;
}
impl Val for f32 {
    const SIZE: usize = 4;
    fn bits(&self) -> String {
        fb(*self)
    }
}
impl Val for u16 {
    const SIZE: usize = 2;
    fn bits(&self) -> String {
        format!("{:04x}", self)
    }
}
impl Val for C3Vector {
    const SIZE: usize = 12;
    fn bits(&self) -> String {
        v3(self)
    }
}
impl Val for C2Vector {
    const SIZE: usize = 8;
    fn bits(&self) -> String {
        v2(self)
    }
}
impl Val for M2Color {
    const SIZE: usize = 12;
    fn bits(&self) -> String {
        format!("{}/{}/{}", fb(self.r), fb(self.g), fb(self.b))
    }
}

fn float_bytes(r: &mut Rng, n: usize) -> Vec<u8> {
    let mut v = Vec::with_capacity(n + 4);
    while v.len() < n {
        v.extend_from_slice(&fx(r).to_le_bytes());
    }
    v.truncate(n);
    v
}

// ------------------------------------------------------------------ generator ----

const NSECT: usize = 29;
const SECT_NAMES: [&str; NSECT] = [
    "name", "global_sequences", "sequences", "animation_lookup", "bones", "key_bone_lookup", "vertices", "textures", "materials",
    "bone_lookup_table", "texture_lookup_table", "texture_units", "transparency_lookup_table", "texture_animation_lookup",
    "bounding_triangles", "bounding_vertices", "bounding_normals", "attachment_lookup_table", "camera_lookup_table", "embedded_skins",
    "particle_emitters", "ribbon_emitters", "texture_animations", "color_animations", "transparency_animations", "events", "attachments",
    "cameras", "lights",
];

struct Gen<'a> {
    r: &'a mut Rng,
    v: u32,
    risk: Risk,
    next_off: u32,
    /// 0 = no key-frame data anywhere, 1 = sparse, 2 = most tracks, 3 = every track
    density: u64,
    thorough: bool,
    tracks_with_data: u64,
    /// sharing decisions come from their own PRNG lane, so the objects of the private sub-space do not depend on them
    rs: Rng,
    share: Share,
    /// key-frame payloads of the section being generated (candidates for sharing); cleared at every section start
    pool: Vec<Kf>,
    tracks_sharing: u64,
}

/// key-frame payload of one track: (ranges, timestamps, values) with the fake "original" offsets used as keys
#[derive(Clone, Default)]
struct Kf {
    ranges: Vec<u8>,
    ts: Vec<u8>,
    vals: Vec<u8>,
    o_r: u32,
    o_t: u32,
    o_v: u32,
    /// element size of `vals`
    vsize: usize,
}

/// How the tracks of one section share key-frame arrays (one array referenced by several tracks, as real files do for
/// tracks keyed at the same times). The writer documents "shared data is written once"; the parser hands shared arrays
/// back under one original offset.
#[derive(Clone, Copy, PartialEq, Eq, Debug)]
enum Share {
    /// every track owns private arrays
    Private,
    /// a track occasionally references an array of an earlier track of the same section
    Some,
    /// most tracks reference an earlier track's array
    Most,
    /// every track with key frames references the section's first timestamp array
    AllTimestamps,
}

impl Share {
    fn tag(self) -> &'static str {
        match self {
            Share::Private => "private",
            Share::Some => "some",
            Share::Most => "most",
            Share::AllTimestamps => "all-timestamps",
        }
    }
}

impl<'a> Gen<'a> {
    fn off(&mut self) -> u32 {
        self.next_off += 0x40;
        self.next_off
    }
    fn want_track(&mut self) -> bool {
        match self.density {
            0 => false,
            1 => self.r.chance(1, 5),
            2 => self.r.chance(3, 4),
            _ => true,
        }
    }
    /// counts for (ranges, timestamps, values): 0 / 1 / many each, but not "ranges only"
    fn kf_counts(&mut self) -> (usize, usize, usize) {
        let pick = |r: &mut Rng| match r.below(4) {
            0 => 0usize,
            1 => 1,
            _ => 2 + r.usize(9),
        };
        let n = pick(self.r);
        let k = if self.r.chance(4, 5) { n } else { pick(self.r) };
        let (n, k) = if n == 0 && k == 0 { (1, 1) } else { (n, k) };
        let rg = pick(self.r);
        (rg, n, k)
    }
    fn kf(&mut self, rg: usize, n: usize, k: usize, vsize: usize) -> Kf {
        let mut kf = Kf::default();
        if rg > 0 {
            kf.ranges = self.r.bytes(rg * 8);
            kf.o_r = self.off();
        }
        if n > 0 {
            kf.ts = self.r.bytes(n * 4);
            kf.o_t = self.off();
        }
        if k > 0 {
            kf.vals = if vsize == 2 || vsize == 8 && self.r.bool() { self.r.bytes(k * vsize) } else { float_bytes(self.r, k * vsize) };
            kf.o_v = self.off();
        }
        kf.vsize = vsize;
        self.tracks_with_data += 1;
        kf
    }
    fn section(&mut self) {
        self.pool.clear();
    }
    /// Let `kf` reference arrays of an earlier track of the same section (same fake original offset, same bytes), then
    /// make it a candidate itself. Arrays are only shared between slots of the same element size.
    fn share_into(&mut self, mut kf: Kf, with_ranges: bool) -> Kf {
        let go = match self.share {
            Share::Private => false,
            Share::Some => self.rs.chance(1, 4),
            Share::Most => self.rs.chance(3, 4),
            Share::AllTimestamps => true,
        };
        if go && !self.pool.is_empty() {
            let prev = if self.share == Share::AllTimestamps { self.pool[0].clone() } else { self.pool[self.rs.usize(self.pool.len())].clone() };
            // what to share: timestamps (the common case), optionally ranges and values as well
            let (st, sr, sv) = match self.share {
                Share::AllTimestamps => (true, false, false),
                _ => match self.rs.below(6) {
                    0 => (true, true, false),
                    1 => (true, true, true),
                    2 => (false, false, true),
                    3 => (false, true, false),
                    _ => (true, false, false),
                },
            };
            let mut shared = false;
            if st && !prev.ts.is_empty() {
                kf.ts = prev.ts.clone();
                kf.o_t = prev.o_t;
                shared = true;
            }
            if sr && with_ranges && !prev.ranges.is_empty() {
                kf.ranges = prev.ranges.clone();
                kf.o_r = prev.o_r;
                shared = true;
            }
            if sv && !prev.vals.is_empty() && prev.vsize == kf.vsize {
                kf.vals = prev.vals.clone();
                kf.o_v = prev.o_v;
                shared = true;
            }
            if shared {
                self.tracks_sharing += 1;
            }
        }
        self.pool.push(kf.clone());
        kf
    }
    /// fill an animation block (28-byte track header with interpolation ranges); returns the payload if any
    fn block<T: Val>(&mut self, b: &mut M2AnimationBlock<T>) -> Option<Kf> {
        b.track.interpolation_type = interp(self.r);
        b.track.global_sequence = self.r.next_u32() as i16;
        if !self.want_track() {
            return None;
        }
        let (rg, n, k) = self.kf_counts();
        let kf = self.kf(rg, n, k, T::SIZE);
        let kf = self.share_into(kf, true);
        let (rg, n, k) = (kf.ranges.len() / 8, kf.ts.len() / 4, kf.vals.len() / T::SIZE);
        b.track.interpolation_ranges = M2Array::new(rg as u32, kf.o_r);
        b.track.timestamps = M2Array::new(n as u32, kf.o_t);
        b.track.values.array = M2Array::new(k as u32, kf.o_v);
        b.track.values.data = (0..k).map(|i| <T as M2Parse>::parse(&mut Cursor::new(kf.vals[i * T::SIZE..(i + 1) * T::SIZE].to_vec())).unwrap_or_default()).collect();
        Some(kf)
    }
    /// fill a bone track (20/28-byte header; ranges only before 264)
    fn track<T>(&mut self, t: &mut M2Track<T>, vsize: usize, share: Option<&Kf>) -> Option<Kf> {
        t.base.interpolation_type = interp(self.r);
        t.base.global_sequence = self.r.next_u32() as u16;
        if !self.want_track() {
            return None;
        }
        let kf = match share {
            Some(s) if s.vals.len() % vsize == 0 => s.clone(),
            _ => {
                let (rg, n, k) = self.kf_counts();
                let rg = if self.v < 264 { rg } else { 0 };
                self.kf(rg, n, k, vsize)
            }
        };
        if self.v < 264 {
            t.ranges = Some(M2Array::new((kf.ranges.len() / 8) as u32, kf.o_r));
        }
        t.timestamps = M2Array::new((kf.ts.len() / 4) as u32, kf.o_t);
        t.values = M2Array::new((kf.vals.len() / vsize) as u32, kf.o_v);
        Some(kf)
    }
}

fn gen_name(r: &mut Rng, class: u8) -> Option<String> {
    const ALPHA: &[&str] = &["a", "B", "_", "\\", ".", "7", " ", "é", "ß", "世", "m2", "Creature"];
    match class {
        0 => {
            if r.bool() { None } else { Some(String::new()) }
        }
        1 => Some(ALPHA[r.usize(ALPHA.len())].chars().next().map(|c| c.to_string()).unwrap_or_default()),
        _ => {
            let target = match r.below(4) {
                0 => 255,
                1 => 256,
                2 => 1000 + r.usize(4000),
                _ => 2 + r.usize(60),
            };
            let mut s = String::new();
            while s.len() < target {
                s.push_str(ALPHA[r.usize(ALPHA.len())]);
            }
            while s.len() > target {
                s.pop();
            }
            Some(s)
        }
    }
}

fn u16s(r: &mut Rng, n: usize) -> Vec<u16> {
    (0..n).map(|_| r.next_u32() as u16).collect()
}

macro_rules! push_kf {
    ($list:expr, $ty:ident, $ifield:ident, $idx:expr, $tt:expr, $kf:expr) => {
        if let Some(kf) = $kf {
            let mut raw = $ty::default();
            raw.$ifield = $idx;
            raw.track_type = $tt;
            raw.interpolation_ranges = kf.ranges;
            raw.timestamps = kf.ts;
            raw.values = kf.vals;
            raw.original_ranges_offset = kf.o_r;
            raw.original_timestamps_offset = kf.o_t;
            raw.original_values_offset = kf.o_v;
            $list.push(raw);
        }
    };
}

/// Build one model for header version `v`; `pattern[i]` is the size class of section i.
fn gen_model(r: &mut Rng, rs: Rng, share: Share, vi: usize, risk: Risk, pattern: &[u8; NSECT], thorough: bool) -> (M2Model, u64, u64) {
    let (_, mv, v) = ALLV[vi];
    let density = if risk == Risk::StaticTrackHeaders { 0 } else { r.below(4) };
    // a section whose every track shares needs every track to carry key frames
    let density = if share == Share::AllTimestamps { 3 } else { density };
    let mut g = Gen { r, v, risk, next_off: 0x0100_0000, density, thorough, tracks_with_data: 0, rs, share, pool: Vec::new(), tracks_sharing: 0 };
    let _ = g.thorough;
    let mut m = M2Model::default();
    m.header = M2Header::new(mv);
    m.header.version = v;
    // header scalars
    let mut flags = g.r.next_u32() & !(0x8 | 0x0800_0000);
    match risk {
        Risk::FlagCombiners => flags |= 0x8,
        Risk::FlagBlendOverride => flags |= 0x0800_0000,
        _ => {}
    }
    m.header.flags = M2ModelFlags::from_bits_retain(flags);
    for i in 0..3 {
        m.header.bounding_box_min[i] = fx(g.r);
        m.header.bounding_box_max[i] = fx(g.r);
        m.header.collision_box_min[i] = fx(g.r);
        m.header.collision_box_max[i] = fx(g.r);
    }
    m.header.bounding_sphere_radius = fx(g.r);
    m.header.collision_sphere_radius = fx(g.r);
    if v >= 264 {
        m.header.num_skin_profiles = Some(g.r.below(5) as u32);
    }

    m.name = gen_name(g.r, pattern[0]);
    let n = size_of_class(g.r, pattern[1], false);
    m.global_sequences = (0..n).map(|_| g.r.next_u32()).collect();

    // sequences
    let n = size_of_class(g.r, pattern[2], false);
    for _ in 0..n {
        let mut a = M2Animation::parse(&mut zeros(), v).expect("seed animation");
        a.animation_id = g.r.next_u32() as u16;
        a.sub_animation_id = g.r.next_u32() as u16;
        a.start_timestamp = g.r.next_u32() >> 1;
        if a.end_timestamp.is_some() {
            a.end_timestamp = Some(g.r.next_u32());
        }
        a.movement_speed = fx(g.r);
        a.flags = g.r.next_u32();
        a.frequency = g.r.next_u32() as i16;
        a.padding = g.r.next_u32() as u16;
        if let Some(rp) = a.replay.as_mut() {
            rp.minimum = fx(g.r);
            rp.maximum = fx(g.r);
        }
        if a.minimum_extent.is_some() {
            a.minimum_extent = Some([fx(g.r), fx(g.r), fx(g.r)]);
            a.maximum_extent = Some([fx(g.r), fx(g.r), fx(g.r)]);
            a.extent_radius = Some(fx(g.r));
            a.next_animation = Some(g.r.next_u32() as i16);
            a.aliasing = Some(g.r.next_u32() as u16);
        }
        m.animations.push(a);
    }
    let n = size_of_class(g.r, pattern[3], true);
    m.animation_lookup = u16s(g.r, n);

    // bones
    let mut nb = size_of_class(g.r, pattern[4], false);
    if risk == Risk::VertexZeroWeightNoBones {
        nb = 0;
    }
    if matches!(risk, Risk::PivotNan | Risk::StaticTrackHeaders) && nb == 0 {
        nb = 1;
    }
    let mut last_kf: [Option<Kf>; 3] = [None, None, None];
    for bi in 0..nb {
        let mut b = M2Bone::parse(&mut zeros(), v).expect("seed bone");
        b.bone_id = g.r.next_u32() as i32;
        b.flags = M2BoneFlags::from_bits_retain(g.r.next_u32());
        b.parent_bone = g.r.next_u32() as i16;
        b.submesh_id = g.r.next_u32() as u16;
        if b.bone_name_crc.is_some() {
            b.bone_name_crc = Some(g.r.next_u32());
        }
        b.pivot.x = fx_nonan(g.r);
        b.pivot.y = fx_nonan(g.r);
        b.pivot.z = fx_nonan(g.r);
        if risk == Risk::PivotNan && (bi == 0 || g.r.bool()) {
            b.pivot.y = f32::from_bits(0x7fc0_0001);
        }
        // occasionally share the previous bone's key-frame arrays (the writer documents shared data)
        let sh = g.r.chance(1, 4);
        let kt = g.track(&mut b.translation, 12, if sh { last_kf[0].as_ref() } else { None });
        let kr = g.track(&mut b.rotation, 8, if sh { last_kf[1].as_ref() } else { None });
        let ks = g.track(&mut b.scale, 12, if sh { last_kf[2].as_ref() } else { None });
        for (slot, (kf, tt)) in [(kt, TrackType::Translation), (kr, TrackType::Rotation), (ks, TrackType::Scale)].into_iter().enumerate() {
            if let Some(kf) = kf {
                let mut raw = BoneAnimationRaw::default();
                raw.bone_index = bi;
                raw.track_type = tt;
                raw.timestamps = kf.ts.clone();
                raw.values = kf.vals.clone();
                raw.original_timestamps_offset = kf.o_t;
                raw.original_values_offset = kf.o_v;
                if v < 264 && !kf.ranges.is_empty() {
                    raw.ranges = Some(kf.ranges.clone());
                    raw.original_ranges_offset = Some(kf.o_r);
                }
                m.raw_data.bone_animation_data.push(raw);
                last_kf[slot] = Some(kf);
            }
        }
        m.bones.push(b);
    }
    let n = size_of_class(g.r, pattern[5], true);
    m.key_bone_lookup = u16s(g.r, n);

    // vertices
    let mut nv = size_of_class(g.r, pattern[6], true);
    if matches!(risk, Risk::VertexZeroWeightNoBones | Risk::VertexBoneIndexOob) && nv == 0 {
        nv = 2;
    }
    for vi2 in 0..nv {
        let mut x = M2Vertex::parse(&mut zeros(), v).expect("seed vertex");
        x.position = c3(g.r);
        x.normal = c3(g.r);
        x.tex_coords = c2(g.r);
        x.tex_coords2 = Some(c2(g.r));
        let lim = nb.clamp(1, 256) as u64;
        for k in 0..4 {
            x.bone_indices[k] = g.r.below(lim) as u8;
            x.bone_weights[k] = g.r.next_u32() as u8;
        }
        if nb == 0 {
            // no bones: keep a non-zero weight so that the parser's repair heuristics have nothing to repair
            x.bone_weights[0] |= 1;
        } else if g.r.chance(1, 4) {
            x.bone_weights = [0; 4]; // static geometry
        }
        match risk {
            Risk::VertexZeroWeightNoBones => x.bone_weights = [0; 4],
            Risk::VertexBoneIndexOob if vi2 == 0 || g.r.bool() => {
                x.bone_indices[1] = (nb as u8).saturating_add(1 + g.r.below(3) as u8);
                x.bone_weights[1] |= 1;
            }
            _ => {}
        }
        m.vertices.push(x);
    }

    // textures
    let mut nt = size_of_class(g.r, pattern[7], false);
    if risk == Risk::TexFilename && nt == 0 {
        nt = 1;
    }
    for ti in 0..nt {
        let mut t = M2Texture::parse(&mut zeros(), v).expect("seed texture");
        t.texture_type = M2TextureType::from_u32(g.r.below(16) as u32).unwrap_or(M2TextureType::Unknown);
        t.flags = M2TextureFlags::from_bits_retain(g.r.next_u32());
        if risk == Risk::TexFilename && (ti == 0 || g.r.bool()) {
            let len = match g.r.below(5) {
                0 => 0,
                1 => 1,
                2 => 255,
                3 => 600 + g.r.usize(600),
                _ => 5 + g.r.usize(40),
            };
            let mut data: Vec<u8> = g.r.bytes(len);
            for b in data.iter_mut() {
                if *b == 0 {
                    *b = b'x';
                }
            }
            t.filename.string.data = data;
            // the form the parser produces: count includes the terminator, offset non-zero. A file whose name field is padded
            // behind the terminator, or not terminated inside its count, parses to a count that is not len + 1.
            let count = match g.r.below(6) {
                0 => len as u32 + 2 + g.r.below(40) as u32,
                1 if len > 0 => len as u32,
                _ => len as u32 + 1,
            };
            t.filename.array = M2Array::new(count, g.off());
        }
        m.textures.push(t);
    }
    let n = size_of_class(g.r, pattern[8], false);
    for _ in 0..n {
        let mut x = M2Material::parse(&mut zeros(), v).expect("seed material");
        x.flags = M2RenderFlags::from_bits_retain(g.r.next_u32() as u16);
        x.blend_mode = M2BlendMode::from_bits_retain(g.r.next_u32() as u16);
        m.materials.push(x);
    }
    let n = size_of_class(g.r, pattern[9], true);
    m.raw_data.bone_lookup_table = u16s(g.r, n);
    let n = size_of_class(g.r, pattern[10], true);
    m.raw_data.texture_lookup_table = u16s(g.r, n);
    let n = size_of_class(g.r, pattern[11], true);
    m.raw_data.texture_units = u16s(g.r, n);
    let n = size_of_class(g.r, pattern[12], true);
    m.raw_data.transparency_lookup_table = u16s(g.r, n);
    let n = size_of_class(g.r, pattern[13], true);
    m.raw_data.texture_animation_lookup = u16s(g.r, n);
    let n = size_of_class(g.r, pattern[14], true);
    m.raw_data.bounding_triangles = g.r.bytes(n * 2);
    let n = size_of_class(g.r, pattern[15], true);
    m.raw_data.bounding_vertices = float_bytes(g.r, n * 12);
    let n = size_of_class(g.r, pattern[16], true);
    m.raw_data.bounding_normals = float_bytes(g.r, n * 12);
    let n = size_of_class(g.r, pattern[17], true);
    m.raw_data.attachment_lookup_table = u16s(g.r, n);
    let n = size_of_class(g.r, pattern[18], true);
    m.raw_data.camera_lookup_table = u16s(g.r, n);

    // embedded skins (pre-WotLK only)
    if v <= 263 {
        let mut ns = size_of_class(g.r, pattern[19], false).min(4);
        if risk == Risk::SkinBatches && ns == 0 {
            ns = 1;
        }
        let sub = if v < 260 { 32 } else { 48 };
        for si in 0..ns {
            let mut s = EmbeddedSkinRaw::default();
            let pick = |r: &mut Rng| match r.below(3) {
                0 => 0usize,
                1 => 1,
                _ => 2 + r.usize(12),
            };
            let (n1, n2, n3, n4) = (pick(g.r), pick(g.r), pick(g.r), pick(g.r));
            s.indices = g.r.bytes(n1 * 2);
            s.triangles = g.r.bytes(n2 * 2);
            s.properties = g.r.bytes(n3 * 4);
            s.submeshes = g.r.bytes(n4 * sub);
            if risk == Risk::SkinBatches && (si == 0 || g.r.bool()) {
                let unit = if g.r.bool() { 24 } else { 96 };
                let nb2 = 1 + g.r.usize(4);
                s.batches = g.r.bytes(nb2 * unit);
            }
            let mut mv = Vec::with_capacity(44);
            let cnt = [s.indices.len() / 2, s.triangles.len() / 2, s.properties.len() / 4, s.submeshes.len() / sub, s.batches.len() / 24];
            let mut offs = [0u32; 5];
            for k in 0..5 {
                offs[k] = if cnt[k] > 0 { g.off() } else { 0 };
                mv.extend_from_slice(&(cnt[k] as u32).to_le_bytes());
                mv.extend_from_slice(&offs[k].to_le_bytes());
            }
            mv.extend_from_slice(&g.r.next_u32().to_le_bytes());
            s.model_view = mv;
            s.original_model_view_offset = g.off();
            s.original_indices_offset = offs[0];
            s.original_triangles_offset = offs[1];
            s.original_properties_offset = offs[2];
            s.original_submeshes_offset = offs[3];
            s.original_batches_offset = offs[4];
            m.raw_data.embedded_skins.push(s);
        }
    }

    // particle emitters
    g.section();
    let n = size_of_class(g.r, pattern[20], false).min(4);
    for i in 0..n {
        let mut e = M2ParticleEmitter::parse(&mut zeros(), v).expect("seed particle emitter");
        e.id = g.r.next_u32();
        e.flags = M2ParticleFlags::from_bits_retain(g.r.next_u32());
        e.position = c3(g.r);
        e.bone_index = g.r.next_u32() as u16;
        e.texture_index = g.r.next_u32() as u16;
        e.parent_emitter = g.r.next_u32() as u16;
        e.geometry_model_unknown = g.r.next_u32() as u16;
        e.blending_type = g.r.next_u32() as u8;
        e.emitter_type = M2ParticleEmitterType::from_u8(g.r.below(5) as u8).unwrap_or(M2ParticleEmitterType::Point);
        e.particle_type = g.r.next_u32() as u8;
        e.head_or_tail = g.r.next_u32() as u8;
        for f in [
            &mut e.lifetime, &mut e.emission_rate, &mut e.emission_area_length, &mut e.emission_area_width, &mut e.emission_velocity,
            &mut e.min_lifetime, &mut e.max_lifetime, &mut e.min_emission_rate, &mut e.max_emission_rate, &mut e.min_emission_area_length,
            &mut e.max_emission_area_length, &mut e.min_emission_area_width, &mut e.max_emission_area_width, &mut e.min_emission_velocity,
            &mut e.max_emission_velocity, &mut e.position_variation, &mut e.min_position_variation, &mut e.max_position_variation,
            &mut e.initial_size, &mut e.min_initial_size, &mut e.max_initial_size, &mut e.size_variation, &mut e.min_size_variation,
            &mut e.max_size_variation, &mut e.horizontal_range, &mut e.min_horizontal_range, &mut e.max_horizontal_range, &mut e.vertical_range,
            &mut e.min_vertical_range, &mut e.max_vertical_range, &mut e.gravity, &mut e.min_gravity, &mut e.max_gravity, &mut e.initial_velocity,
            &mut e.min_initial_velocity, &mut e.max_initial_velocity, &mut e.speed_variation, &mut e.min_speed_variation, &mut e.max_speed_variation,
            &mut e.rotation_speed, &mut e.min_rotation_speed, &mut e.max_rotation_speed, &mut e.initial_rotation, &mut e.min_initial_rotation,
            &mut e.max_initial_rotation, &mut e.color_animation_speed, &mut e.color_median_time, &mut e.lifespan_unused, &mut e.emission_rate_unused,
            &mut e.unknown_2,
        ] {
            *f = fx(g.r);
        }
        e.mid_point_color = M2Color::new(fx(g.r), fx(g.r), fx(g.r));
        e.unknown_1 = g.r.next_u32();
        let l = &mut m.raw_data.particle_animation_data;
        let k = g.block(&mut e.emission_speed_animation);
        push_kf!(l, ParticleAnimationRaw, emitter_index, i, ParticleTrackType::EmissionSpeed, k);
        let k = g.block(&mut e.emission_rate_animation);
        push_kf!(l, ParticleAnimationRaw, emitter_index, i, ParticleTrackType::EmissionRate, k);
        let k = g.block(&mut e.emission_area_animation);
        push_kf!(l, ParticleAnimationRaw, emitter_index, i, ParticleTrackType::EmissionArea, k);
        let k = g.block(&mut e.xy_scale_animation);
        push_kf!(l, ParticleAnimationRaw, emitter_index, i, ParticleTrackType::XYScale, k);
        let k = g.block(&mut e.z_scale_animation);
        push_kf!(l, ParticleAnimationRaw, emitter_index, i, ParticleTrackType::ZScale, k);
        let k = g.block(&mut e.color_animation);
        push_kf!(l, ParticleAnimationRaw, emitter_index, i, ParticleTrackType::Color, k);
        let k = g.block(&mut e.transparency_animation);
        push_kf!(l, ParticleAnimationRaw, emitter_index, i, ParticleTrackType::Transparency, k);
        let k = g.block(&mut e.size_animation);
        push_kf!(l, ParticleAnimationRaw, emitter_index, i, ParticleTrackType::Size, k);
        let k = g.block(&mut e.intensity_animation);
        push_kf!(l, ParticleAnimationRaw, emitter_index, i, ParticleTrackType::Intensity, k);
        let k = g.block(&mut e.z_source_animation);
        push_kf!(l, ParticleAnimationRaw, emitter_index, i, ParticleTrackType::ZSource, k);
        m.particle_emitters.push(e);
    }

    // ribbon emitters
    g.section();
    let n = size_of_class(g.r, pattern[21], false).min(5);
    for i in 0..n {
        let mut e = M2RibbonEmitter::parse(&mut zeros(), v).expect("seed ribbon emitter");
        e.bone_index = g.r.next_u32();
        e.position = c3(g.r);
        e.edges_per_second = fx(g.r);
        e.edge_lifetime = fx(g.r);
        e.gravity = fx(g.r);
        e.texture_rows = g.r.next_u32() as u16;
        e.texture_cols = g.r.next_u32() as u16;
        if e.texture_slice.is_some() {
            e.texture_slice = Some(g.r.next_u32() as u16);
            e.variation = Some(g.r.next_u32() as u16);
        }
        e.id = g.r.next_u32();
        e.flags = g.r.next_u32();
        let l = &mut m.raw_data.ribbon_animation_data;
        let k = g.block(&mut e.color_animation);
        push_kf!(l, RibbonAnimationRaw, emitter_index, i, RibbonTrackType::Color, k);
        let k = g.block(&mut e.alpha_animation);
        push_kf!(l, RibbonAnimationRaw, emitter_index, i, RibbonTrackType::Alpha, k);
        let k = g.block(&mut e.height_above_animation);
        push_kf!(l, RibbonAnimationRaw, emitter_index, i, RibbonTrackType::HeightAbove, k);
        let k = g.block(&mut e.height_below_animation);
        push_kf!(l, RibbonAnimationRaw, emitter_index, i, RibbonTrackType::HeightBelow, k);
        m.ribbon_emitters.push(e);
    }

    // texture animations
    g.section();
    let n = size_of_class(g.r, pattern[22], false);
    for i in 0..n {
        let mut a = M2TextureAnimation::parse(&mut zeros()).expect("seed texture animation");
        a.animation_type = M2TextureAnimationType::from_u16(g.r.below(5) as u16).unwrap_or(M2TextureAnimationType::None);
        let l = &mut m.raw_data.texture_animation_data;
        let k = g.block(&mut a.translation_u);
        push_kf!(l, TextureAnimationRaw, animation_index, i, TextureTrackType::TranslationU, k);
        let k = g.block(&mut a.translation_v);
        push_kf!(l, TextureAnimationRaw, animation_index, i, TextureTrackType::TranslationV, k);
        let k = g.block(&mut a.rotation);
        push_kf!(l, TextureAnimationRaw, animation_index, i, TextureTrackType::Rotation, k);
        let k = g.block(&mut a.scale_u);
        push_kf!(l, TextureAnimationRaw, animation_index, i, TextureTrackType::ScaleU, k);
        let k = g.block(&mut a.scale_v);
        push_kf!(l, TextureAnimationRaw, animation_index, i, TextureTrackType::ScaleV, k);
        m.texture_animations.push(a);
    }
    // color animations
    g.section();
    let n = size_of_class(g.r, pattern[23], false);
    for i in 0..n {
        let mut a = M2ColorAnimation::parse(&mut zeros()).expect("seed color animation");
        let l = &mut m.raw_data.color_animation_data;
        let k = g.block(&mut a.color);
        push_kf!(l, ColorAnimationRaw, animation_index, i, ColorTrackType::Color, k);
        let k = g.block(&mut a.alpha);
        push_kf!(l, ColorAnimationRaw, animation_index, i, ColorTrackType::Alpha, k);
        m.color_animations.push(a);
    }
    // transparency animations
    g.section();
    let n = size_of_class(g.r, pattern[24], false);
    for i in 0..n {
        let mut a = M2TransparencyAnimation::default();
        let l = &mut m.raw_data.transparency_animation_data;
        let k = g.block(&mut a.alpha);
        push_kf!(l, TransparencyAnimationRaw, animation_index, i, TransparencyTrackType::Alpha, k);
        m.transparency_animations.push(a);
    }
    // events
    g.section();
    let mut n = size_of_class(g.r, pattern[25], false);
    if risk == Risk::EventRanges && n == 0 {
        n = 1;
    }
    for i in 0..n {
        let mut e = M2Event::parse(&mut zeros(), v).expect("seed event");
        e.identifier = [b'$', b'A' + g.r.below(26) as u8, g.r.next_u32() as u8, g.r.next_u32() as u8];
        e.data = g.r.next_u32();
        e.bone_index = g.r.next_u32() as i16;
        e.unknown = g.r.next_u32() as u16;
        e.position = [fx(g.r), fx(g.r), fx(g.r)];
        e.interp_type = g.r.next_u32() as u16;
        e.global_sequence = g.r.next_u32() as i16;
        // ranges (one per sequence: the usual pre-WotLK shape) occur with and without time stamps
        let with_ranges = (risk == Risk::EventRanges && (i == 0 || g.r.bool())) || (risk == Risk::Clean && g.r.below(4) == 0);
        if g.want_track() || with_ranges {
            let nt2 = match g.r.below(3) {
                0 => 1,
                _ => 2 + g.r.usize(8),
            };
            let nt2 = if with_ranges && risk == Risk::Clean && g.r.below(3) == 0 { 0 } else { nt2 };
            let nr = if with_ranges { 1 + g.r.usize(4) } else { 0 };
            let kf = g.kf(nr, nt2, 0, 4);
            // ranges of events stay private (they belong to the `event-ranges` trigger predicate); time stamps may be shared
            let kf = g.share_into(kf, false);
            let nt2 = kf.ts.len() / 4;
            e.times = M2Array::new(nt2 as u32, kf.o_t);
            e.ranges = M2Array::new(nr as u32, kf.o_r);
            let mut raw = EventRaw::default();
            raw.event_index = i;
            raw.ranges = kf.ranges;
            raw.original_ranges_offset = kf.o_r;
            raw.timestamps = kf.ts;
            raw.original_timestamps_offset = kf.o_t;
            m.raw_data.event_data.push(raw);
        }
        m.events.push(e);
    }
    // attachments
    g.section();
    let n = size_of_class(g.r, pattern[26], false);
    for i in 0..n {
        let mut a = M2Attachment::parse(&mut zeros(), v).expect("seed attachment");
        a.id = g.r.next_u32();
        a.bone_index = g.r.next_u32() as i32;
        a.position = c3(g.r);
        let k = g.block(&mut a.scale_animation);
        push_kf!(m.raw_data.attachment_animation_data, AttachmentAnimationRaw, attachment_index, i, AttachmentTrackType::Scale, k);
        m.attachments.push(a);
    }
    // cameras
    g.section();
    let n = size_of_class(g.r, pattern[27], false);
    for i in 0..n {
        let mut cam = M2Camera::parse(&mut zeros(), v).expect("seed camera");
        cam.camera_type = g.r.next_u32();
        cam.fov = fx(g.r);
        cam.far_clip = fx(g.r);
        cam.near_clip = fx(g.r);
        cam.position_base = c3(g.r);
        cam.target_position_base = c3(g.r);
        if v >= 264 {
            cam.id = g.r.next_u32();
            cam.flags = M2CameraFlags::from_bits_retain(g.r.next_u32() as u16);
        }
        let l = &mut m.raw_data.camera_animation_data;
        let k = g.block(&mut cam.position_animation);
        push_kf!(l, CameraAnimationRaw, camera_index, i, CameraTrackType::Position, k);
        let k = g.block(&mut cam.target_position_animation);
        push_kf!(l, CameraAnimationRaw, camera_index, i, CameraTrackType::TargetPosition, k);
        let k = g.block(&mut cam.roll_animation);
        push_kf!(l, CameraAnimationRaw, camera_index, i, CameraTrackType::Roll, k);
        m.cameras.push(cam);
    }
    // lights
    g.section();
    let n = size_of_class(g.r, pattern[28], false);
    for i in 0..n {
        let mut li = M2Light::parse(&mut zeros(), v).expect("seed light");
        li.light_type = M2LightType::from_u8(g.r.below(4) as u8).unwrap_or(M2LightType::Point);
        li.bone_index = g.r.next_u32() as u16;
        li.position = c3(g.r);
        li.id = g.r.next_u32();
        li.flags = M2LightFlags::from_bits_retain(g.r.next_u32() as u16);
        let l = &mut m.raw_data.light_animation_data;
        let k = g.block(&mut li.ambient_color_animation);
        push_kf!(l, LightAnimationRaw, light_index, i, LightTrackType::AmbientColor, k);
        let k = g.block(&mut li.diffuse_color_animation);
        push_kf!(l, LightAnimationRaw, light_index, i, LightTrackType::DiffuseColor, k);
        let k = g.block(&mut li.attenuation_start_animation);
        push_kf!(l, LightAnimationRaw, light_index, i, LightTrackType::AttenuationStart, k);
        let k = g.block(&mut li.attenuation_end_animation);
        push_kf!(l, LightAnimationRaw, light_index, i, LightTrackType::AttenuationEnd, k);
        let k = g.block(&mut li.visibility_animation);
        push_kf!(l, LightAnimationRaw, light_index, i, LightTrackType::Visibility, k);
        m.lights.push(li);
    }
    let _ = g.risk;
    let t = g.tracks_with_data;
    let sh = g.tracks_sharing;
    if risk != Risk::StaticTrackHeaders {
        normalise_static_sections(&mut m);
    }
    (m, t, sh)
}

fn reset_blk<T: Val>(b: &mut M2AnimationBlock<T>) {
    b.track.interpolation_type = M2InterpolationType::None;
    b.track.global_sequence = -1;
}
fn reset_track<T>(t: &mut M2Track<T>) {
    t.base.interpolation_type = M2InterpolationType::None;
    t.base.global_sequence = 65535;
}

/// Outside the `static-track-headers` risk: a section that carries no key-frame data at all gets default track headers
/// (interpolation None, no global sequence), so that the clean sub-space stays clear of that trigger predicate.
fn normalise_static_sections(m: &mut M2Model) {
    let rd = &m.raw_data;
    if rd.bone_animation_data.is_empty() {
        for b in m.bones.iter_mut() {
            reset_track(&mut b.translation);
            reset_track(&mut b.rotation);
            reset_track(&mut b.scale);
        }
    }
    if rd.particle_animation_data.is_empty() {
        for e in m.particle_emitters.iter_mut() {
            reset_blk(&mut e.emission_speed_animation);
            reset_blk(&mut e.emission_rate_animation);
            reset_blk(&mut e.emission_area_animation);
            reset_blk(&mut e.xy_scale_animation);
            reset_blk(&mut e.z_scale_animation);
            reset_blk(&mut e.color_animation);
            reset_blk(&mut e.transparency_animation);
            reset_blk(&mut e.size_animation);
            reset_blk(&mut e.intensity_animation);
            reset_blk(&mut e.z_source_animation);
        }
    }
    if rd.ribbon_animation_data.is_empty() {
        for e in m.ribbon_emitters.iter_mut() {
            reset_blk(&mut e.color_animation);
            reset_blk(&mut e.alpha_animation);
            reset_blk(&mut e.height_above_animation);
            reset_blk(&mut e.height_below_animation);
        }
    }
    if rd.texture_animation_data.is_empty() {
        for a in m.texture_animations.iter_mut() {
            reset_blk(&mut a.translation_u);
            reset_blk(&mut a.translation_v);
            reset_blk(&mut a.rotation);
            reset_blk(&mut a.scale_u);
            reset_blk(&mut a.scale_v);
        }
    }
    if rd.color_animation_data.is_empty() {
        for a in m.color_animations.iter_mut() {
            reset_blk(&mut a.color);
            reset_blk(&mut a.alpha);
        }
    }
    if rd.transparency_animation_data.is_empty() {
        for a in m.transparency_animations.iter_mut() {
            reset_blk(&mut a.alpha);
        }
    }
    if rd.attachment_animation_data.is_empty() {
        for a in m.attachments.iter_mut() {
            reset_blk(&mut a.scale_animation);
        }
    }
    if rd.camera_animation_data.is_empty() {
        for cam in m.cameras.iter_mut() {
            reset_blk(&mut cam.position_animation);
            reset_blk(&mut cam.target_position_animation);
            reset_blk(&mut cam.roll_animation);
        }
    }
    if rd.light_animation_data.is_empty() {
        for l in m.lights.iter_mut() {
            reset_blk(&mut l.ambient_color_animation);
            reset_blk(&mut l.diffuse_color_animation);
            reset_blk(&mut l.attenuation_start_animation);
            reset_blk(&mut l.attenuation_end_animation);
            reset_blk(&mut l.visibility_animation);
        }
    }
}

// ------------------------------------------------------------------ projection ----

/// own header version and the version of the object compared against (equal for a plain round trip)
#[derive(Clone, Copy)]
struct Ctx {
    v: u32,
    o: u32,
}
impl Ctx {
    fn full(v: u32) -> Ctx {
        Ctx { v, o: v }
    }
    fn both(&self, f: impl Fn(u32) -> bool) -> bool {
        f(self.v) && f(self.o)
    }
    fn same(&self) -> bool {
        self.v == self.o
    }
}

type Proj = Vec<(&'static str, Vec<String>)>;
type RawRef<'a> = Option<(&'a [u8], &'a [u8], &'a [u8])>;

macro_rules! find_kf {
    ($list:expr, $ifield:ident, $idx:expr, $tt:expr) => {
        $list.iter().find(|x| x.$ifield == $idx && x.track_type == $tt).map(|x| (&x.interpolation_ranges[..], &x.timestamps[..], &x.values[..]))
    };
}

fn blk<T: Val>(b: &M2AnimationBlock<T>, raw: RawRef) -> String {
    let t = &b.track;
    let mut s = format!(
        "{{it={} gs={} n={}/{}/{} data=[{}]",
        t.interpolation_type as u16,
        t.global_sequence,
        t.interpolation_ranges.count,
        t.timestamps.count,
        t.values.array.count,
        t.values.data.iter().map(|x| x.bits()).collect::<Vec<_>>().join(",")
    );
    match raw {
        Some((r, ts, v)) => {
            let _ = write!(s, " kf r={} t={} v={}}}", bytes_s(r), bytes_s(ts), bytes_s(v));
        }
        None => s.push_str(" kf=none}"),
    }
    s
}

fn bone_track<T>(t: &M2Track<T>, raw: Option<&BoneAnimationRaw>, cx: Ctx) -> String {
    let with_ranges = cx.both(|v| v < 264);
    let mut s = format!("{{it={} gs={} n=", t.base.interpolation_type as u16, t.base.global_sequence);
    if with_ranges {
        let _ = write!(s, "{}/", t.ranges.map(|r| r.count).unwrap_or(0));
    }
    let _ = write!(s, "{}/{}", t.timestamps.count, t.values.count);
    match raw {
        Some(r) => {
            let _ = write!(s, " kf t={} v={}", bytes_s(&r.timestamps), bytes_s(&r.values));
            if with_ranges {
                let _ = write!(s, " r={}", bytes_s(r.ranges.as_deref().unwrap_or(&[])));
            }
            s.push('}');
        }
        None => s.push_str(" kf=none}"),
    }
    s
}

fn u16_list(v: &[u16]) -> Vec<String> {
    v.iter().map(|x| x.to_string()).collect()
}

fn project(m: &M2Model, cx: Ctx) -> Proj {
    let mut p: Proj = Vec::new();
    let h = &m.header;
    let mut hs = format!(
        "flags={:08x} bb={}..{} r={} cb={}..{} cr={}",
        h.flags.bits(),
        f3(&h.bounding_box_min),
        f3(&h.bounding_box_max),
        fb(h.bounding_sphere_radius),
        f3(&h.collision_box_min),
        f3(&h.collision_box_max),
        fb(h.collision_sphere_radius)
    );
    if cx.same() {
        let _ = write!(hs, " version={} magic={}", h.version, hex(&h.magic));
    }
    p.push(("header-scalars", vec![hs]));
    // the number of external skin profiles is a header field of every version from 264 on
    if cx.both(|v| v >= 264) {
        p.push(("header-skin-profiles", vec![format!("{:?}", h.num_skin_profiles)]));
    }
    p.push(("name", vec![format!("{:?}", m.name)]));
    p.push(("global_sequences", m.global_sequences.iter().map(|x| x.to_string()).collect()));
    let seq_full = cx.same();
    p.push((
        "sequences",
        m.animations
            .iter()
            .map(|a| {
                let mut s = format!("id={} sub={} start={} speed={} flags={:08x} freq={} pad={}", a.animation_id, a.sub_animation_id, a.start_timestamp, fb(a.movement_speed), a.flags, a.frequency, a.padding);
                let vanilla_fmt = cx.both(|v| v <= 256);
                let bc_fmt = cx.both(|v| v > 256);
                if seq_full || vanilla_fmt {
                    let _ = write!(s, " end={:?} replay={:?}", a.end_timestamp, a.replay.map(|r| (fb(r.minimum), fb(r.maximum))));
                }
                if seq_full || bc_fmt {
                    let _ = write!(s, " ext={:?}..{:?} rad={:?} next={:?} alias={:?}", a.minimum_extent.map(|e| f3(&e)), a.maximum_extent.map(|e| f3(&e)), a.extent_radius.map(fb), a.next_animation, a.aliasing);
                }
                s
            })
            .collect(),
    ));
    p.push(("animation_lookup", u16_list(&m.animation_lookup)));
    p.push((
        "bones",
        m.bones
            .iter()
            .enumerate()
            .map(|(i, b)| {
                let rd = &m.raw_data.bone_animation_data;
                let f = |tt: TrackType| rd.iter().find(|x| x.bone_index == i && x.track_type == tt);
                let mut s = format!("id={} flags={:08x} parent={} submesh={} unk={:?}", b.bone_id, b.flags.bits(), b.parent_bone, b.submesh_id, b.unknown);
                if cx.both(|v| v >= 260) || (cx.same()) {
                    let _ = write!(s, " crc={:?}", b.bone_name_crc);
                }
                let _ = write!(s, " T{} R{} S{} pivot={}", bone_track(&b.translation, f(TrackType::Translation), cx), bone_track(&b.rotation, f(TrackType::Rotation), cx), bone_track(&b.scale, f(TrackType::Scale), cx), v3(&b.pivot));
                s
            })
            .collect(),
    ));
    p.push(("key_bone_lookup", u16_list(&m.key_bone_lookup)));
    p.push((
        "vertices",
        m.vertices.iter().map(|x| format!("p={} w={:?} i={:?} n={} t={} t2={:?}", v3(&x.position), x.bone_weights, x.bone_indices, v3(&x.normal), v2(&x.tex_coords), x.tex_coords2.map(|t| v2(&t)))).collect(),
    ));
    p.push(("textures", m.textures.iter().map(|t| format!("type={} flags={:08x} fn={}", t.texture_type as u32, t.flags.bits(), bytes_s(&t.filename.string.data))).collect()));
    p.push(("materials", m.materials.iter().map(|x| format!("flags={:04x} blend={:04x}", x.flags.bits(), x.blend_mode.bits())).collect()));
    let rd = &m.raw_data;
    p.push(("bone_lookup_table", u16_list(&rd.bone_lookup_table)));
    p.push(("texture_lookup_table", u16_list(&rd.texture_lookup_table)));
    p.push(("texture_units", u16_list(&rd.texture_units)));
    p.push(("transparency_lookup_table", u16_list(&rd.transparency_lookup_table)));
    p.push(("texture_animation_lookup", u16_list(&rd.texture_animation_lookup)));
    p.push(("bounding_triangles", vec![bytes_s(&rd.bounding_triangles)]));
    p.push(("bounding_vertices", vec![bytes_s(&rd.bounding_vertices)]));
    p.push(("bounding_normals", vec![bytes_s(&rd.bounding_normals)]));
    p.push(("attachment_lookup_table", u16_list(&rd.attachment_lookup_table)));
    p.push(("camera_lookup_table", u16_list(&rd.camera_lookup_table)));
    if cx.both(|v| v <= 263) {
        p.push((
            "embedded_skins",
            rd.embedded_skins
                .iter()
                .map(|s| format!("idx={} tri={} prop={} bat={} bone_count_max={}", bytes_s(&s.indices), bytes_s(&s.triangles), bytes_s(&s.properties), bytes_s(&s.batches), if s.model_view.len() >= 44 { hex(&s.model_view[40..44]) } else { "short".into() }))
                .collect(),
        ));
        // submesh records are 32 bytes before 260 and 48 bytes from 260 on; both start with the same eight u16 fields.
        // Across that boundary only the record count and those 16 bytes are common content.
        let rec = if cx.v < 260 { 32 } else { 48 };
        let same_layout = (cx.v < 260) == (cx.o < 260);
        p.push((
            "embedded_skin_submeshes",
            rd.embedded_skins
                .iter()
                .map(|s| {
                    if same_layout {
                        bytes_s(&s.submeshes)
                    } else {
                        let n = s.submeshes.len() / rec;
                        format!("n={} heads={}", n, (0..n).map(|i| hex(&s.submeshes[i * rec..i * rec + 16])).collect::<Vec<_>>().join(","))
                    }
                })
                .collect(),
        ));
    }
    p.push((
        "particle_emitters",
        m.particle_emitters
            .iter()
            .enumerate()
            .map(|(i, e)| {
                let l = &rd.particle_animation_data;
                // the optional tail of the record (fallback model, file data ids, encryption, multi-texture parameters, initial state ...)
                // exists per record class: up to 272 / Legion family (273-279) / BfA and later; across classes it is not common content
                let pe_class = |v: u32| if v <= 272 { 0 } else if v < 280 { 1 } else { 2 };
                let opt = pe_class(cx.v) == pe_class(cx.o);
                let mut s = format!(
                    "id={} flags={:08x} pos={} bone={} tex={} mfn={}/{} parent={} geo={} blend={} et={} pt={} hot={} tiles={}/{}",
                    e.id, e.flags.bits(), v3(&e.position), e.bone_index, e.texture_index, e.model_filename.count, 0, e.parent_emitter, e.geometry_model_unknown,
                    e.blending_type, e.emitter_type as u8, e.particle_type, e.head_or_tail, e.texture_tile_coordinates.count, 0
                );
                if opt {
                    let _ = write!(s, " fb={:?} tfd={:?} enc={:?} mt={:?}/{:?}", e.fallback_model_filename.map(|a| a.count), e.texture_file_data_ids.map(|a| a.count), e.enable_encryption, e.multi_texture_param0, e.multi_texture_param1);
                }
                let fl = [
                    e.lifetime, e.emission_rate, e.emission_area_length, e.emission_area_width, e.emission_velocity, e.min_lifetime, e.max_lifetime,
                    e.min_emission_rate, e.max_emission_rate, e.min_emission_area_length, e.max_emission_area_length, e.min_emission_area_width,
                    e.max_emission_area_width, e.min_emission_velocity, e.max_emission_velocity, e.position_variation, e.min_position_variation,
                    e.max_position_variation, e.initial_size, e.min_initial_size, e.max_initial_size, e.size_variation, e.min_size_variation,
                    e.max_size_variation, e.horizontal_range, e.min_horizontal_range, e.max_horizontal_range, e.vertical_range, e.min_vertical_range,
                    e.max_vertical_range, e.gravity, e.min_gravity, e.max_gravity, e.initial_velocity, e.min_initial_velocity, e.max_initial_velocity,
                    e.speed_variation, e.min_speed_variation, e.max_speed_variation, e.rotation_speed, e.min_rotation_speed, e.max_rotation_speed,
                    e.initial_rotation, e.min_initial_rotation, e.max_initial_rotation, e.mid_point_color.r, e.mid_point_color.g, e.mid_point_color.b,
                    e.color_animation_speed, e.color_median_time, e.lifespan_unused, e.emission_rate_unused, e.unknown_2,
                ];
                let _ = write!(s, " f=[{}] u1={}", fl.iter().map(|x| fb(*x)).collect::<Vec<_>>().join(","), e.unknown_1);
                let _ = write!(
                    s,
                    " A{} B{} C{} D{} E{} F{} G{} H{} I{} J{}",
                    blk(&e.emission_speed_animation, find_kf!(l, emitter_index, i, ParticleTrackType::EmissionSpeed)),
                    blk(&e.emission_rate_animation, find_kf!(l, emitter_index, i, ParticleTrackType::EmissionRate)),
                    blk(&e.emission_area_animation, find_kf!(l, emitter_index, i, ParticleTrackType::EmissionArea)),
                    blk(&e.xy_scale_animation, find_kf!(l, emitter_index, i, ParticleTrackType::XYScale)),
                    blk(&e.z_scale_animation, find_kf!(l, emitter_index, i, ParticleTrackType::ZScale)),
                    blk(&e.color_animation, find_kf!(l, emitter_index, i, ParticleTrackType::Color)),
                    blk(&e.transparency_animation, find_kf!(l, emitter_index, i, ParticleTrackType::Transparency)),
                    blk(&e.size_animation, find_kf!(l, emitter_index, i, ParticleTrackType::Size)),
                    blk(&e.intensity_animation, find_kf!(l, emitter_index, i, ParticleTrackType::Intensity)),
                    blk(&e.z_source_animation, find_kf!(l, emitter_index, i, ParticleTrackType::ZSource))
                );
                if opt {
                let _ = write!(s, " pis={:?} pisv={:?} pct={:?} phys={:?}", e.particle_initial_state, e.particle_initial_state_variation.map(fb), e.particle_convergence_time.map(fb), e.physics_parameters.map(|p| p.iter().map(|x| fb(*x)).collect::<Vec<_>>()));
                }
                s
            })
            .collect(),
    ));
    p.push((
        "ribbon_emitters",
        m.ribbon_emitters
            .iter()
            .enumerate()
            .map(|(i, e)| {
                let l = &rd.ribbon_animation_data;
                let mut s = format!(
                    "bone={} pos={} ti={} mi={} C{} A{} HA{} HB{} eps={} life={} grav={} rows={} cols={} id={} flags={:08x}",
                    e.bone_index, v3(&e.position), e.texture_indices.count, e.material_indices.count,
                    blk(&e.color_animation, find_kf!(l, emitter_index, i, RibbonTrackType::Color)),
                    blk(&e.alpha_animation, find_kf!(l, emitter_index, i, RibbonTrackType::Alpha)),
                    blk(&e.height_above_animation, find_kf!(l, emitter_index, i, RibbonTrackType::HeightAbove)),
                    blk(&e.height_below_animation, find_kf!(l, emitter_index, i, RibbonTrackType::HeightBelow)),
                    fb(e.edges_per_second), fb(e.edge_lifetime), fb(e.gravity), e.texture_rows, e.texture_cols, e.id, e.flags
                );
                if cx.both(|v| v >= 272) || cx.same() {
                    let _ = write!(s, " slice={:?} var={:?}", e.texture_slice, e.variation);
                }
                s
            })
            .collect(),
    ));
    p.push((
        "texture_animations",
        m.texture_animations
            .iter()
            .enumerate()
            .map(|(i, a)| {
                let l = &rd.texture_animation_data;
                format!(
                    "type={} U{} V{} R{} SU{} SV{}",
                    a.animation_type as u16,
                    blk(&a.translation_u, find_kf!(l, animation_index, i, TextureTrackType::TranslationU)),
                    blk(&a.translation_v, find_kf!(l, animation_index, i, TextureTrackType::TranslationV)),
                    blk(&a.rotation, find_kf!(l, animation_index, i, TextureTrackType::Rotation)),
                    blk(&a.scale_u, find_kf!(l, animation_index, i, TextureTrackType::ScaleU)),
                    blk(&a.scale_v, find_kf!(l, animation_index, i, TextureTrackType::ScaleV))
                )
            })
            .collect(),
    ));
    p.push((
        "color_animations",
        m.color_animations
            .iter()
            .enumerate()
            .map(|(i, a)| {
                let l = &rd.color_animation_data;
                format!("C{} A{}", blk(&a.color, find_kf!(l, animation_index, i, ColorTrackType::Color)), blk(&a.alpha, find_kf!(l, animation_index, i, ColorTrackType::Alpha)))
            })
            .collect(),
    ));
    p.push((
        "transparency_animations",
        m.transparency_animations
            .iter()
            .enumerate()
            .map(|(i, a)| {
                let l = &rd.transparency_animation_data;
                format!("A{}", blk(&a.alpha, find_kf!(l, animation_index, i, TransparencyTrackType::Alpha)))
            })
            .collect(),
    ));
    p.push((
        "events",
        m.events
            .iter()
            .enumerate()
            .map(|(i, e)| {
                let raw = rd.event_data.iter().find(|x| x.event_index == i);
                format!(
                    "id={} data={} bone={} unk={} pos={} it={} gs={} n={}/{} kf={}",
                    hex(&e.identifier), e.data, e.bone_index, e.unknown, f3(&e.position), e.interp_type, e.global_sequence, e.ranges.count, e.times.count,
                    match raw {
                        Some(r) => format!("r={} t={}", bytes_s(&r.ranges), bytes_s(&r.timestamps)),
                        None => "none".into(),
                    }
                )
            })
            .collect(),
    ));
    p.push((
        "attachments",
        m.attachments
            .iter()
            .enumerate()
            .map(|(i, a)| format!("id={} bone={} pos={} S{}", a.id, a.bone_index, v3(&a.position), blk(&a.scale_animation, find_kf!(rd.attachment_animation_data, attachment_index, i, AttachmentTrackType::Scale))))
            .collect(),
    ));
    p.push((
        "cameras",
        m.cameras
            .iter()
            .enumerate()
            .map(|(i, cam)| {
                let l = &rd.camera_animation_data;
                let mut s = format!(
                    "type={} fov={} far={} near={} P{} pb={} T{} tb={} R{}",
                    cam.camera_type, fb(cam.fov), fb(cam.far_clip), fb(cam.near_clip),
                    blk(&cam.position_animation, find_kf!(l, camera_index, i, CameraTrackType::Position)), v3(&cam.position_base),
                    blk(&cam.target_position_animation, find_kf!(l, camera_index, i, CameraTrackType::TargetPosition)), v3(&cam.target_position_base),
                    blk(&cam.roll_animation, find_kf!(l, camera_index, i, CameraTrackType::Roll))
                );
                if cx.both(|v| v >= 264) || cx.same() {
                    let _ = write!(s, " id={} flags={:04x}", cam.id, cam.flags.bits());
                }
                s
            })
            .collect(),
    ));
    p.push((
        "lights",
        m.lights
            .iter()
            .enumerate()
            .map(|(i, li)| {
                let l = &rd.light_animation_data;
                format!(
                    "type={} bone={} pos={} AC{} DC{} AS{} AE{} V{} id={} flags={:04x}",
                    li.light_type as u8, li.bone_index, v3(&li.position),
                    blk(&li.ambient_color_animation, find_kf!(l, light_index, i, LightTrackType::AmbientColor)),
                    blk(&li.diffuse_color_animation, find_kf!(l, light_index, i, LightTrackType::DiffuseColor)),
                    blk(&li.attenuation_start_animation, find_kf!(l, light_index, i, LightTrackType::AttenuationStart)),
                    blk(&li.attenuation_end_animation, find_kf!(l, light_index, i, LightTrackType::AttenuationEnd)),
                    blk(&li.visibility_animation, find_kf!(l, light_index, i, LightTrackType::Visibility)),
                    li.id, li.flags.bits()
                )
            })
            .collect(),
    ));
    p
}

fn clip(s: &str) -> String {
    if s.len() > 600 { format!("{}…({} chars)", s.chars().take(600).collect::<String>(), s.len()) } else { s.to_string() }
}

/// Compare two projections section by section. `mk_sig(section)` builds the signature.
fn cmp_proj(c: &mut Case, a: &Proj, b: &Proj, mk_sig: &dyn Fn(&str) -> String, what: &str, ctx: &Value) -> u64 {
    let mut bad = 0;
    for ((sa, ea), (sb, eb)) in a.iter().zip(b.iter()) {
        debug_assert_eq!(sa, sb);
        c.count("sections_compared", 1);
        c.count("elements_compared", ea.len() as u64);
        if ea != eb {
            bad += 1;
            let i = ea.iter().zip(eb.iter()).position(|(x, y)| x != y).unwrap_or(ea.len().min(eb.len()));
            c.violate(
                mk_sig(sa),
                format!("{what}: section `{sa}` differs (expected {} elements, got {}; first difference at element {i})", ea.len(), eb.len()),
                json!({"ctx": ctx, "section": sa, "index": i, "expected": ea.get(i).map(|s| clip(s)), "got": eb.get(i).map(|s| clip(s))}),
            );
        }
    }
    if a.len() != b.len() {
        c.violate(mk_sig("section-set"), format!("{what}: projections have different section sets"), ctx.clone());
        bad += 1;
    }
    bad
}

// ------------------------------------------------------------------ independent walker ----
// Written against the on-disk layout (header field order, record sizes, positions of nested (count, offset)
// pairs inside records); shares no code with the crate's reader or writer.

fn rd32(b: &[u8], at: usize) -> Option<u32> {
    b.get(at..at + 4).map(|s| u32::from_le_bytes([s[0], s[1], s[2], s[3]]))
}

struct HdrPair {
    name: &'static str,
    count: u32,
    offset: u32,
    elem: usize,
}

/// (relative offset of the (count, offset) pair inside a record, element size, slot kind)
fn nested_layout(section: &str, v: u32) -> Vec<(usize, usize, char)> {
    let blocks = |base: usize, sizes: &[usize]| -> Vec<(usize, usize, char)> {
        let mut out = Vec::new();
        for (i, &sz) in sizes.iter().enumerate() {
            let b = base + 28 * i;
            out.push((b + 4, 8, 'r'));
            out.push((b + 12, 4, 't'));
            out.push((b + 20, sz, 'v'));
        }
        out
    };
    match section {
        "bones" => {
            let base = if v >= 260 { 16 } else { 12 };
            let mut out = Vec::new();
            for (i, &sz) in [12usize, 8, 12].iter().enumerate() {
                if v < 264 {
                    let b = base + 28 * i;
                    out.push((b + 4, 8, 'r'));
                    out.push((b + 12, 4, 't'));
                    out.push((b + 20, sz, 'v'));
                } else {
                    let b = base + 20 * i;
                    out.push((b + 4, 4, 't'));
                    out.push((b + 12, sz, 'v'));
                }
            }
            out
        }
        "textures" => vec![(8, 1, 'n')],
        "embedded_skins" => vec![(0, 2, 'x'), (8, 2, 'x'), (16, 4, 'x'), (24, if v < 260 { 32 } else { 48 }, 'x'), (32, 24, 'x')],
        "attachments" => blocks(20, &[4]),
        "events" => vec![(28, 8, 'r'), (36, 4, 't')],
        "lights" => blocks(16, &[12, 12, 4, 4, 4]),
        "cameras" => {
            let mut o = blocks(16, &[12]);
            o.extend(blocks(56, &[12]));
            o.extend(blocks(96, &[4]));
            o
        }
        "ribbon_emitters" => blocks(32, &[12, 4, 4, 4]),
        "particle_emitters" => blocks(264, &[4, 4, 4, 8, 4, 12, 4, 4, 4, 4]),
        "texture_animations" => blocks(4, &[4, 4, 4, 4, 4]),
        "color_animations" => blocks(0, &[12, 2]),
        "transparency_animations" => blocks(0, &[4]),
        _ => Vec::new(),
    }
}

fn decode_header(b: &[u8]) -> Result<(u32, usize, Vec<HdrPair>, u32), String> {
    if b.len() < 8 || &b[0..4] != b"MD20" {
        return Err("no MD20 magic".into());
    }
    let v = rd32(b, 4).ok_or("short")?;
    let mut pos = 8usize;
    let mut pairs = Vec::new();
    let mut pair = |name: &'static str, elem: usize, pos: &mut usize| -> Result<(), String> {
        let count = rd32(b, *pos).ok_or_else(|| format!("header truncated at {name}"))?;
        let offset = rd32(b, *pos + 4).ok_or_else(|| format!("header truncated at {name}"))?;
        *pos += 8;
        pairs.push(HdrPair { name, count, offset, elem });
        Ok(())
    };
    pair("name", 1, &mut pos)?;
    pos += 4; // flags
    pair("global_sequences", 4, &mut pos)?;
    pair("sequences", if v <= 256 { 32 } else { 52 }, &mut pos)?;
    pair("animation_lookup", 2, &mut pos)?;
    if v <= 263 {
        pair("playable_animation_lookup", 2, &mut pos)?;
    }
    pair("bones", if v < 260 { 108 } else if v < 264 { 112 } else { 88 }, &mut pos)?;
    pair("key_bone_lookup", 2, &mut pos)?;
    pair("vertices", 48, &mut pos)?;
    let mut skin_profiles = 0;
    if v <= 263 {
        pair("embedded_skins", 44, &mut pos)?;
    } else {
        skin_profiles = rd32(b, pos).ok_or("header truncated at skin profiles")?;
        pos += 4;
    }
    pair("color_animations", 56, &mut pos)?;
    pair("textures", 16, &mut pos)?;
    pair("transparency_animations", 28, &mut pos)?;
    if v <= 263 {
        pair("texture_flipbooks", 1, &mut pos)?;
    }
    pair("texture_animations", 144, &mut pos)?;
    pair("color_replacements", 2, &mut pos)?;
    pair("materials", 4, &mut pos)?;
    pair("bone_lookup_table", 2, &mut pos)?;
    pair("texture_lookup_table", 2, &mut pos)?;
    pair("texture_units", 2, &mut pos)?;
    pair("transparency_lookup_table", 2, &mut pos)?;
    pair("texture_animation_lookup", 2, &mut pos)?;
    pos += 14 * 4; // two boxes + two radii
    pair("bounding_triangles", 2, &mut pos)?;
    pair("bounding_vertices", 12, &mut pos)?;
    pair("bounding_normals", 12, &mut pos)?;
    pair("attachments", 48, &mut pos)?;
    pair("attachment_lookup_table", 2, &mut pos)?;
    pair("events", 44, &mut pos)?;
    pair("lights", 164, &mut pos)?;
    pair("cameras", if v < 264 { 124 } else { 132 }, &mut pos)?;
    pair("camera_lookup_table", 2, &mut pos)?;
    pair("ribbon_emitters", if v >= 272 { 172 } else { 168 }, &mut pos)?;
    pair("particle_emitters", 544, &mut pos)?;
    if pos > b.len() {
        return Err("header longer than file".into());
    }
    Ok((v, pos, pairs, skin_profiles))
}

/// one track as seen in the file (or expected from the model): slots in record order
#[derive(Debug, Clone, PartialEq)]
struct NestedSlot {
    section: &'static str,
    kind: char,
    count: u32,
    bytes: Vec<u8>,
}

/// Expected nested payloads derived from the model, in file order of the sections that carry tracks.
fn expected_nested(m: &M2Model, v: u32) -> Vec<NestedSlot> {
    let mut out = Vec::new();
    let rd = &m.raw_data;
    let slot = |out: &mut Vec<NestedSlot>, section: &'static str, kind: char, count: u32, bytes: &[u8]| out.push(NestedSlot { section, kind, count, bytes: if count > 0 { bytes.to_vec() } else { Vec::new() } });
    for (i, b) in m.bones.iter().enumerate() {
        let f = |tt: TrackType| rd.bone_animation_data.iter().find(|x| x.bone_index == i && x.track_type == tt);
        let tracks: [(Option<M2Array<u32>>, u32, u32, Option<&BoneAnimationRaw>); 3] = [
            (b.translation.ranges, b.translation.timestamps.count, b.translation.values.count, f(TrackType::Translation)),
            (b.rotation.ranges, b.rotation.timestamps.count, b.rotation.values.count, f(TrackType::Rotation)),
            (b.scale.ranges, b.scale.timestamps.count, b.scale.values.count, f(TrackType::Scale)),
        ];
        for (rg, nt, nv, raw) in tracks {
            if v < 264 {
                slot(&mut out, "bones", 'r', rg.map(|r| r.count).unwrap_or(0), raw.and_then(|r| r.ranges.as_deref()).unwrap_or(&[]));
            }
            slot(&mut out, "bones", 't', nt, raw.map(|r| &r.timestamps[..]).unwrap_or(&[]));
            slot(&mut out, "bones", 'v', nv, raw.map(|r| &r.values[..]).unwrap_or(&[]));
        }
    }
    macro_rules! blkx {
        ($sec:literal, $b:expr, $raw:expr) => {{
            let t = &$b.track;
            let raw: RawRef = $raw;
            slot(&mut out, $sec, 'r', t.interpolation_ranges.count, raw.map(|r| r.0).unwrap_or(&[]));
            slot(&mut out, $sec, 't', t.timestamps.count, raw.map(|r| r.1).unwrap_or(&[]));
            slot(&mut out, $sec, 'v', t.values.array.count, raw.map(|r| r.2).unwrap_or(&[]));
        }};
    }
    for (i, e) in m.particle_emitters.iter().enumerate() {
        let l = &rd.particle_animation_data;
        blkx!("particle_emitters", e.emission_speed_animation, find_kf!(l, emitter_index, i, ParticleTrackType::EmissionSpeed));
        blkx!("particle_emitters", e.emission_rate_animation, find_kf!(l, emitter_index, i, ParticleTrackType::EmissionRate));
        blkx!("particle_emitters", e.emission_area_animation, find_kf!(l, emitter_index, i, ParticleTrackType::EmissionArea));
        blkx!("particle_emitters", e.xy_scale_animation, find_kf!(l, emitter_index, i, ParticleTrackType::XYScale));
        blkx!("particle_emitters", e.z_scale_animation, find_kf!(l, emitter_index, i, ParticleTrackType::ZScale));
        blkx!("particle_emitters", e.color_animation, find_kf!(l, emitter_index, i, ParticleTrackType::Color));
        blkx!("particle_emitters", e.transparency_animation, find_kf!(l, emitter_index, i, ParticleTrackType::Transparency));
        blkx!("particle_emitters", e.size_animation, find_kf!(l, emitter_index, i, ParticleTrackType::Size));
        blkx!("particle_emitters", e.intensity_animation, find_kf!(l, emitter_index, i, ParticleTrackType::Intensity));
        blkx!("particle_emitters", e.z_source_animation, find_kf!(l, emitter_index, i, ParticleTrackType::ZSource));
    }
    for (i, e) in m.ribbon_emitters.iter().enumerate() {
        let l = &rd.ribbon_animation_data;
        blkx!("ribbon_emitters", e.color_animation, find_kf!(l, emitter_index, i, RibbonTrackType::Color));
        blkx!("ribbon_emitters", e.alpha_animation, find_kf!(l, emitter_index, i, RibbonTrackType::Alpha));
        blkx!("ribbon_emitters", e.height_above_animation, find_kf!(l, emitter_index, i, RibbonTrackType::HeightAbove));
        blkx!("ribbon_emitters", e.height_below_animation, find_kf!(l, emitter_index, i, RibbonTrackType::HeightBelow));
    }
    for (i, a) in m.texture_animations.iter().enumerate() {
        let l = &rd.texture_animation_data;
        blkx!("texture_animations", a.translation_u, find_kf!(l, animation_index, i, TextureTrackType::TranslationU));
        blkx!("texture_animations", a.translation_v, find_kf!(l, animation_index, i, TextureTrackType::TranslationV));
        blkx!("texture_animations", a.rotation, find_kf!(l, animation_index, i, TextureTrackType::Rotation));
        blkx!("texture_animations", a.scale_u, find_kf!(l, animation_index, i, TextureTrackType::ScaleU));
        blkx!("texture_animations", a.scale_v, find_kf!(l, animation_index, i, TextureTrackType::ScaleV));
    }
    for (i, a) in m.color_animations.iter().enumerate() {
        let l = &rd.color_animation_data;
        blkx!("color_animations", a.color, find_kf!(l, animation_index, i, ColorTrackType::Color));
        blkx!("color_animations", a.alpha, find_kf!(l, animation_index, i, ColorTrackType::Alpha));
    }
    for (i, a) in m.transparency_animations.iter().enumerate() {
        let l = &rd.transparency_animation_data;
        blkx!("transparency_animations", a.alpha, find_kf!(l, animation_index, i, TransparencyTrackType::Alpha));
    }
    for (i, e) in m.events.iter().enumerate() {
        let raw = rd.event_data.iter().find(|x| x.event_index == i);
        slot(&mut out, "events", 'r', e.ranges.count, raw.map(|r| &r.ranges[..]).unwrap_or(&[]));
        slot(&mut out, "events", 't', e.times.count, raw.map(|r| &r.timestamps[..]).unwrap_or(&[]));
    }
    for (i, a) in m.attachments.iter().enumerate() {
        blkx!("attachments", a.scale_animation, find_kf!(rd.attachment_animation_data, attachment_index, i, AttachmentTrackType::Scale));
    }
    for (i, cam) in m.cameras.iter().enumerate() {
        let l = &rd.camera_animation_data;
        blkx!("cameras", cam.position_animation, find_kf!(l, camera_index, i, CameraTrackType::Position));
        blkx!("cameras", cam.target_position_animation, find_kf!(l, camera_index, i, CameraTrackType::TargetPosition));
        blkx!("cameras", cam.roll_animation, find_kf!(l, camera_index, i, CameraTrackType::Roll));
    }
    for (i, li) in m.lights.iter().enumerate() {
        let l = &rd.light_animation_data;
        blkx!("lights", li.ambient_color_animation, find_kf!(l, light_index, i, LightTrackType::AmbientColor));
        blkx!("lights", li.diffuse_color_animation, find_kf!(l, light_index, i, LightTrackType::DiffuseColor));
        blkx!("lights", li.attenuation_start_animation, find_kf!(l, light_index, i, LightTrackType::AttenuationStart));
        blkx!("lights", li.attenuation_end_animation, find_kf!(l, light_index, i, LightTrackType::AttenuationEnd));
        blkx!("lights", li.visibility_animation, find_kf!(l, light_index, i, LightTrackType::Visibility));
    }
    out
}

const TRACK_SECTIONS: &[&str] = &["bones", "particle_emitters", "ribbon_emitters", "texture_animations", "color_animations", "transparency_animations", "events", "attachments", "cameras", "lights"];

/// Walk the written bytes. `m` is only used for expected counts and expected key-frame payloads.
fn walk_m2(c: &mut Case, bytes: &[u8], m: &M2Model, vlabel: &str, sigtag: &dyn Fn(String) -> String, ctx: &Value) {
    let (v, hsize, pairs, _profiles) = match decode_header(bytes) {
        Ok(x) => x,
        Err(e) => {
            c.violate(sigtag(format!("walker|header-undecodable|{vlabel}")), format!("walker cannot decode the written header: {e}"), ctx.clone());
            return;
        }
    };
    c.count("walker_files", 1);
    if v != m.header.version {
        c.violate(sigtag(format!("walker|version-field|{vlabel}")), format!("version field {} written for a model of version {}", v, m.header.version), ctx.clone());
    }
    let expected_count = |name: &str| -> Option<usize> {
        Some(match name {
            "name" => m.name.as_ref().map(|s| s.len() + 1).unwrap_or(0),
            "global_sequences" => m.global_sequences.len(),
            "sequences" => m.animations.len(),
            "animation_lookup" => m.animation_lookup.len(),
            "bones" => m.bones.len(),
            "key_bone_lookup" => m.key_bone_lookup.len(),
            "vertices" => m.vertices.len(),
            "embedded_skins" => m.raw_data.embedded_skins.len(),
            "color_animations" => m.color_animations.len(),
            "textures" => m.textures.len(),
            "transparency_animations" => m.transparency_animations.len(),
            "texture_animations" => m.texture_animations.len(),
            "materials" => m.materials.len(),
            "bone_lookup_table" => m.raw_data.bone_lookup_table.len(),
            "texture_lookup_table" => m.raw_data.texture_lookup_table.len(),
            "texture_units" => m.raw_data.texture_units.len(),
            "transparency_lookup_table" => m.raw_data.transparency_lookup_table.len(),
            "texture_animation_lookup" => m.raw_data.texture_animation_lookup.len(),
            "bounding_triangles" => m.raw_data.bounding_triangles.len() / 2,
            "bounding_vertices" => m.raw_data.bounding_vertices.len() / 12,
            "bounding_normals" => m.raw_data.bounding_normals.len() / 12,
            "attachments" => m.attachments.len(),
            "attachment_lookup_table" => m.raw_data.attachment_lookup_table.len(),
            "events" => m.events.len(),
            "lights" => m.lights.len(),
            "cameras" => m.cameras.len(),
            "camera_lookup_table" => m.raw_data.camera_lookup_table.len(),
            "ribbon_emitters" => m.ribbon_emitters.len(),
            "particle_emitters" => m.particle_emitters.len(),
            "playable_animation_lookup" | "texture_flipbooks" | "color_replacements" => 0,
            _ => return None,
        })
    };
    // regions: (start, end, label)
    let mut regions: Vec<(u64, u64, String)> = Vec::new();
    let flen = bytes.len() as u64;
    let mut found: Vec<NestedSlot> = Vec::new();
    let mut per_section: std::collections::BTreeMap<&'static str, Vec<NestedSlot>> = Default::default();
    for p in &pairs {
        c.count("walker_pairs", 1);
        if let Some(exp) = expected_count(p.name) {
            if exp != p.count as usize {
                c.violate(sigtag(format!("walker|{}-count|{vlabel}", p.name)), format!("header count for `{}` is {} but the model has {}", p.name, p.count, exp), ctx.clone());
            }
        }
        if p.count == 0 {
            continue;
        }
        let start = p.offset as u64;
        let end = start + p.count as u64 * p.elem as u64;
        if start < hsize as u64 || end > flen {
            c.violate(
                sigtag(format!("walker|{}-outside-file|{vlabel}", p.name)),
                format!("header pair `{}` = (count {}, offset {}) × {} bytes = [{start}, {end}) is not inside the data area [{hsize}, {flen})", p.name, p.count, p.offset, p.elem),
                ctx.clone(),
            );
            continue;
        }
        regions.push((start, end, p.name.to_string()));
        // nested arrays inside the records
        let lay = nested_layout(p.name, v);
        if lay.is_empty() {
            continue;
        }
        for i in 0..p.count as usize {
            let rec = p.offset as usize + i * p.elem;
            for &(rel, esz, kind) in &lay {
                c.count("walker_nested_pairs", 1);
                let (Some(cnt), Some(off)) = (rd32(bytes, rec + rel), rd32(bytes, rec + rel + 4)) else { continue };
                let mut got = Vec::new();
                if cnt > 0 {
                    let s = off as u64;
                    let e = s + cnt as u64 * esz as u64;
                    if s < hsize as u64 || e > flen {
                        c.violate(
                            sigtag(format!("walker|{}-nested-outside-file|{vlabel}", p.name)),
                            format!("record {i} of `{}`: nested array (count {cnt}, offset {off}) × {esz} bytes = [{s}, {e}) is not inside the data area [{hsize}, {flen})", p.name),
                            ctx.clone(),
                        );
                    } else {
                        got = bytes[s as usize..e as usize].to_vec();
                        let lab = format!("{}[{i}]+{rel}", p.name);
                        if !regions.iter().any(|r| r.0 == s && r.1 == e && r.2.contains('+')) {
                            regions.push((s, e, lab));
                        }
                    }
                }
                if p.name == "textures" && kind == 'n' {
                    // the name as it stands in the file: the model's name bytes and one terminator, counted as such
                    if let Some(t) = m.textures.get(i) {
                        c.count("walker_texture_names", 1);
                        let named = t.filename.array.count != 0 && t.filename.array.offset != 0;
                        let mut want = Vec::new();
                        if named {
                            want.extend_from_slice(&t.filename.string.data);
                            want.push(0);
                        }
                        if got != want {
                            c.violate(
                                sigtag(format!("walker|texture-name-bytes|{vlabel}")),
                                format!("texture {i}: the file holds name (count {cnt}, offset {off}) = {}, the model has {}", bytes_s(&got), bytes_s(&want)),
                                ctx.clone(),
                            );
                        }
                    }
                }
                if kind == 'r' || kind == 't' || kind == 'v' {
                    per_section.entry(p.name).or_default().push(NestedSlot { section: p.name, kind, count: cnt, bytes: got });
                }
            }
        }
    }
    for s in TRACK_SECTIONS {
        if let Some(v) = per_section.remove(s) {
            found.extend(v);
        }
    }
    // overlap
    regions.sort();
    for w in regions.windows(2) {
        c.count("walker_overlap_checks", 1);
        if w[1].0 < w[0].1 {
            c.violate(
                sigtag(format!("walker|sections-overlap|{vlabel}")),
                format!("regions overlap: `{}` = [{}, {}) and `{}` = [{}, {})", w[0].2, w[0].0, w[0].1, w[1].2, w[1].0, w[1].1),
                ctx.clone(),
            );
            break;
        }
    }
    // key-frame payloads as found in the file vs. the model
    let exp = expected_nested(m, v);
    if exp.len() != found.len() {
        c.violate(sigtag(format!("walker|track-slot-count|{vlabel}")), format!("walker found {} track slots in the file, the model has {}", found.len(), exp.len()), ctx.clone());
    } else {
        for (e, f) in exp.iter().zip(found.iter()) {
            c.count("walker_keyframe_slots", 1);
            if e != f {
                c.violate(
                    sigtag(format!("walker|{}-keyframes-mismatch|{vlabel}", e.section)),
                    format!("`{}` track slot '{}': model has count {} bytes {}, file has section `{}` slot '{}' count {} bytes {}", e.section, e.kind, e.count, bytes_s(&e.bytes), f.section, f.kind, f.count, bytes_s(&f.bytes)),
                    ctx.clone(),
                );
                break;
            }
        }
    }
}

// ------------------------------------------------------------------ model cases ----

enum W {
    Bytes(Vec<u8>),
    Rejected(String),
    Panic(vh_common::PanicInfo),
}

fn write_model(m: &M2Model) -> W {
    match trap(|| {
        let mut cur = Cursor::new(Vec::new());
        m.write(&mut cur).map(|_| cur.into_inner())
    }) {
        Ok(Ok(b)) => W::Bytes(b),
        Ok(Err(e)) => W::Rejected(format!("{e}")),
        Err(p) => W::Panic(p),
    }
}

fn parse_model(b: &[u8]) -> Result<Result<M2Model, String>, vh_common::PanicInfo> {
    trap(|| M2Model::parse(&mut Cursor::new(b.to_vec())).map_err(|e| format!("{e}")))
}

// ------------------------------------------------------------------ other ways in and out (files, sinks that hold data) ----

static SCRATCH: std::sync::OnceLock<std::path::PathBuf> = std::sync::OnceLock::new();

/// A path inside the worker's scratch directory. Every other call leaves a longer file there first, so that the
/// save helper has to replace content (a file reused for an object that became shorter).
fn scratch_file(c: &Case, tag: &str, fresh: &[u8]) -> Option<std::path::PathBuf> {
    let dir = SCRATCH.get()?;
    let path = dir.join(format!("c13-{}-{tag}", std::process::id()));
    let _ = std::fs::remove_file(&path);
    if c.idx % 2 == 0 {
        let mut prior = fresh.to_vec();
        prior.extend(std::iter::repeat_n(0x5Au8, 1 + (c.idx % 7) as usize * 500));
        if std::fs::write(&path, &prior).is_err() {
            return None;
        }
    }
    Some(path)
}

/// save(path) must leave exactly the bytes of the in-memory write in the file. Returns true when the file may be loaded.
fn saved_file_equals(c: &mut Case, what: &str, lab: &str, path: &std::path::Path, saved: Result<Result<(), String>, vh_common::PanicInfo>, b1: &[u8], sig: &dyn Fn(String) -> String, ctx: &Value) -> bool {
    match saved {
        Err(p) => {
            c.violate(sig(format!("file-save-panic|{what}|{lab}|{}", p.sig())), format!("{what}::save panicked: {}", p.msg), ctx.clone());
            false
        }
        Ok(Err(e)) => {
            c.violate(sig(format!("file-save-fails|{what}|{lab}")), format!("{what}::save fails for an object that writes in memory: {e}"), ctx.clone());
            false
        }
        Ok(Ok(())) => match std::fs::read(path) {
            Err(_) => false,
            Ok(fb) => {
                c.count("files_saved", 1);
                c.count(&format!("files_saved|{what}"), 1);
                if c.idx % 2 == 0 {
                    c.count("files_saved_over_a_longer_file", 1);
                }
                if fb != b1 {
                    c.violate(
                        sig(format!("file-save-differs|{what}|{lab}")),
                        format!("{what}::save left {} bytes in the file, write into memory gives {} (first difference at {}; the path held {} before)", fb.len(), b1.len(), first_diff(&fb, b1), if c.idx % 2 == 0 { "a longer file" } else { "nothing" }),
                        ctx.clone(),
                    );
                    return false;
                }
                true
            }
        },
    }
}

/// The same object into a stream that already holds data in front of the writer's position and / or from that position
/// on (a container, a reused buffer): the stretch that starts where the writer started is the fresh write, whatever stood
/// in front stays. One shape per case.
fn sink_leg(c: &mut Case, what: &str, lab: &str, b1: &[u8], write: &dyn Fn(&mut Cursor<Vec<u8>>) -> Result<(), String>, ctx: &Value) {
    let shape = (c.idx % 3) as usize;
    let mut r = Rng::for_case(0x51AC, c.idx, 13);
    let pre = if shape == 1 { 0 } else { 1 + r.usize(300) };
    let post = if shape == 0 { 0 } else { 1 + r.usize(b1.len() + 64) };
    let mut buf = vec![0xA5u8; pre];
    if shape != 0 {
        buf.extend(std::iter::repeat_n(0x5Au8, b1.len() + post));
    }
    let name = ["behind-a-prefix", "over-longer-content", "behind-a-prefix-over-longer-content"][shape];
    // the trigger predicate of the signature: does the writer start at 0 or not
    let trig = if pre > 0 { "start-position-nonzero" } else { "start-position-zero-over-longer-content" };
    let res = trap(|| {
        let mut cur = Cursor::new(buf);
        cur.set_position(pre as u64);
        write(&mut cur).map(|_| cur.into_inner())
    });
    c.count("sink_shapes_checked", 1);
    c.count(&format!("sink_shapes_checked|{what}|{name}"), 1);
    match res {
        Err(p) => c.violate(format!("write-depends-on-sink|{what}|{lab}|panic|{}", p.sig()), format!("{what}::write panicked on a stream {name}: {}", p.msg), ctx.clone()),
        Ok(Err(e)) => c.violate(format!("write-depends-on-sink|{what}|{lab}|{trig}"), format!("{what}::write fails on a stream {name}: {e}"), ctx.clone()),
        Ok(Ok(out)) => {
            let end = pre + b1.len();
            let body_ok = out.len() >= end && out[pre..end] == b1[..];
            let prefix_ok = out.len() >= pre && out[..pre].iter().all(|&x| x == 0xA5);
            if !(body_ok && prefix_ok) {
                let d = if out.len() >= end { first_diff(&out[pre..end], b1) } else { out.len().saturating_sub(pre) };
                c.violate(
                    format!("write-depends-on-sink|{what}|{lab}|{trig}"),
                    format!("{what}::write into a stream holding {pre} bytes in front of the start position and {} bytes from there on: the {} bytes from the start position {} the fresh write (first difference at {d}), the bytes in front are {}", out.len().saturating_sub(pre).min(if shape == 0 { 0 } else { b1.len() + post }), b1.len(), if body_ok { "equal" } else { "differ from" }, if prefix_ok { "intact" } else { "overwritten" }),
                    json!({"ctx": ctx, "prefix": pre, "fresh_len": b1.len(), "first_diff": d, "prefix_intact": prefix_ok}),
                );
            }
        }
    }
}

fn le16s(b: &[u8]) -> Vec<u16> {
    b.chunks_exact(2).map(|x| u16::from_le_bytes([x[0], x[1]])).collect()
}

/// The accessors for the skin profiles embedded in a written model of version <= 260 (M2Model::parse_embedded_skin /
/// parse_all_embedded_skins, which go through skin::parse_embedded_skin): a second reader over the same written bytes.
/// Profile 0 must carry what the model's embedded skin 0 carries (vertex lookup, triangle indices, sub-mesh records, batches).
fn embedded_skin_leg(c: &mut Case, m: &M2Model, p: &M2Model, b1: &[u8], v: u32, vlabel: &str, sigtag: &dyn Fn(String) -> String, ctx: &Value) {
    let skins = &m.raw_data.embedded_skins;
    if skins.is_empty() || v > 263 {
        return;
    }
    if v > 260 {
        // the accessor turns down header revisions 261-263 by design (its documentation speaks of "version <= 260")
        c.count("embedded_skin_accessor_not_offered_for_revision", 1);
        return;
    }
    let raw = &skins[0];
    // signature features: the record family (32-byte sub-mesh records before 260, 48 from 260 on) and whether profile 0 has batches
    let fam = if v < 260 { "Vanilla" } else { "TBC" };
    let trig = if raw.batches.is_empty() { "no-batches" } else { "batches-present" };
    let _ = vlabel;
    let sub = if v < 260 { 32 } else { 48 };
    let first = match trap(|| p.parse_embedded_skin(b1, 0).map_err(|e| format!("{e}"))) {
        Err(pn) => {
            c.violate(sigtag(format!("embedded-skin-access|panic|{fam}|{trig}|{}", pn.sig())), format!("M2Model::parse_embedded_skin panicked: {}", pn.msg), ctx.clone());
            return;
        }
        Ok(Err(e)) => {
            c.violate(sigtag(format!("embedded-skin-access|rejects-own-output|{fam}|{trig}")), format!("M2Model::parse_embedded_skin(written bytes, 0) fails on a model written with {} embedded skins: {e}", skins.len()), ctx.clone());
            return;
        }
        Ok(Ok(s)) => s,
    };
    c.count("embedded_skin_profiles_read_back", 1);
    let want_sub: Vec<String> = raw.submeshes.chunks_exact(sub).map(|r| if sub == 48 { format!("{} bi={} c={} sc={} r={}", hex(&r[..16]), hex(&r[16..18]), hex(&r[20..32]), hex(&r[32..44]), hex(&r[44..48])) } else { hex(&r[..16]) }).collect();
    let u = |x: u16| hex(&x.to_le_bytes());
    let ff = |a: &[f32; 3]| a.iter().map(|x| hex(&x.to_le_bytes())).collect::<String>();
    let got_sub: Vec<String> = first
        .submeshes()
        .iter()
        .map(|x| {
            let head = format!("{}{}{}{}{}{}{}{}", u(x.id), u(x.level), u(x.vertex_start), u(x.vertex_count), u(x.triangle_start), u(x.triangle_count), u(x.bone_count), u(x.bone_start));
            if sub == 48 { format!("{head} bi={} c={} sc={} r={}", u(x.bone_influence), ff(&x.center), ff(&x.sort_center), hex(&x.bounding_radius.to_le_bytes())) } else { head }
        })
        .collect();
    let want_bat: Vec<String> = raw.batches.chunks_exact(24).map(|r| SkinBatch::parse(&mut Cursor::new(r.to_vec())).map(|b| proj_batch(&b)).unwrap_or_default()).collect();
    let want: Proj = vec![
        ("embedded-skin-indices", le16s(&raw.indices).iter().map(|x| x.to_string()).collect()),
        ("embedded-skin-triangles", le16s(&raw.triangles).iter().map(|x| x.to_string()).collect()),
        ("embedded-skin-submeshes", want_sub),
        ("embedded-skin-batches", want_bat),
    ];
    let got: Proj = vec![
        ("embedded-skin-indices", first.indices().iter().map(|x| x.to_string()).collect()),
        ("embedded-skin-triangles", first.triangles().iter().map(|x| x.to_string()).collect()),
        ("embedded-skin-submeshes", got_sub),
        ("embedded-skin-batches", first.batches().iter().map(proj_batch).collect()),
    ];
    cmp_proj(c, &want, &got, &|s| sigtag(format!("embedded-skin-access|{s}|{fam}|{trig}")), "parse_embedded_skin(write(m), 0) vs embedded skin 0 of m", ctx);
    match trap(|| p.parse_all_embedded_skins(b1).map_err(|e| format!("{e}"))) {
        Err(pn) => c.violate(sigtag(format!("embedded-skin-access|panic|{fam}|{trig}|{}", pn.sig())), format!("M2Model::parse_all_embedded_skins panicked: {}", pn.msg), ctx.clone()),
        Ok(Err(e)) => c.violate(sigtag(format!("embedded-skin-access|all-rejects-own-output|{fam}|{trig}")), format!("parse_all_embedded_skins fails although profile 0 reads: {e}"), ctx.clone()),
        Ok(Ok(all)) => {
            c.count("embedded_skin_sets_read_back", 1);
            if all.len() != skins.len() {
                c.violate(sigtag(format!("embedded-skin-access|profile-count|{fam}|{trig}")), format!("parse_all_embedded_skins returns {} profiles for a model written with {}", all.len(), skins.len()), ctx.clone());
            } else if project_skin(&all[0], false) != project_skin(&first, false) {
                c.violate(sigtag(format!("embedded-skin-access|all-differs-from-single|{fam}|{trig}")), "parse_all_embedded_skins()[0] differs from parse_embedded_skin(0)", ctx.clone());
            }
        }
    }
    // the raw-bytes helper has no stated content; what it does with the writer's output is tallied only
    match trap(|| wow_m2::embedded_skin::extract_embedded_skin_bytes(b1, 0).map(|b| b.len())) {
        Ok(Ok(_)) => c.count("extract_embedded_skin_bytes|ok", 1),
        Ok(Err(_)) => c.count("extract_embedded_skin_bytes|err", 1),
        Err(_) => c.count("extract_embedded_skin_bytes|panic", 1),
    }
}

/// M2Model::save / load / load_legacy: the file holds the bytes of the in-memory write, and loading it gives what parsing those bytes gives.
fn model_file_leg(c: &mut Case, m: &M2Model, b1: &[u8], pp: &Proj, v: u32, vlabel: &str, sigtag: &dyn Fn(String) -> String, ctx: &Value) {
    let Some(path) = scratch_file(c, "model.m2", b1) else { return };
    let saved = trap(|| m.save(&path).map_err(|e| format!("{e}")));
    if saved_file_equals(c, "M2Model", vlabel, &path, saved, b1, sigtag, ctx) {
        match trap(|| M2Model::load(&path).map_err(|e| format!("{e}"))) {
            Ok(Ok(M2Format::Legacy(p2))) => {
                c.count("files_loaded", 1);
                if &project(&p2, Ctx::full(v)) != pp {
                    c.violate(sigtag(format!("file-load-differs|M2Model::load|{vlabel}")), "M2Model::load of the saved file yields other content than M2Model::parse of the same bytes", ctx.clone());
                }
            }
            Ok(Ok(M2Format::Chunked(_))) => c.violate(sigtag(format!("parse_m2-wrong-format|{vlabel}")), "M2Model::load classified a saved MD20 file as chunked", ctx.clone()),
            Ok(Err(e)) => c.violate(sigtag(format!("file-load-fails|M2Model::load|{vlabel}")), format!("M2Model::load fails on a file whose bytes parse in memory: {e}"), ctx.clone()),
            Err(pn) => c.violate(sigtag(format!("parse-panic|{vlabel}|{}", pn.sig())), format!("M2Model::load panicked: {}", pn.msg), ctx.clone()),
        }
        match trap(|| M2Model::load_legacy(&path).map_err(|e| format!("{e}"))) {
            Ok(Ok(p2)) => {
                c.count("files_loaded", 1);
                if &project(&p2, Ctx::full(v)) != pp {
                    c.violate(sigtag(format!("file-load-differs|M2Model::load_legacy|{vlabel}")), "M2Model::load_legacy of the saved file yields other content than M2Model::parse of the same bytes", ctx.clone());
                }
            }
            Ok(Err(e)) => c.violate(sigtag(format!("file-load-fails|M2Model::load_legacy|{vlabel}")), format!("M2Model::load_legacy fails on a file whose bytes parse in memory: {e}"), ctx.clone()),
            Err(pn) => c.violate(sigtag(format!("parse-panic|{vlabel}|{}", pn.sig())), format!("M2Model::load_legacy panicked: {}", pn.msg), ctx.clone()),
        }
    }
    let _ = std::fs::remove_file(&path);
}

fn pattern_for(r: &mut Rng, k: u64) -> [u8; NSECT] {
    let mut p = [0u8; NSECT];
    match k {
        0 => {}
        1 => p = [1; NSECT],
        2 => p = [2; NSECT],
        _ => {
            // mixed: every section independently empty / one / many, biased so that several are populated at once
            let bias = r.below(3);
            for x in p.iter_mut() {
                *x = match bias {
                    0 => r.below(3) as u8,
                    1 => [0u8, 1, 2, 2][r.usize(4)],
                    _ => [0u8, 0, 1, 2][r.usize(4)],
                };
            }
        }
    }
    p
}

fn model_case(c: &mut Case, rng: &mut Rng, rs: Rng, share: Share, vi: usize, risk: Risk, pattern: &[u8; NSECT], thorough: bool) {
    let (m, tracks, sharing) = gen_model(rng, rs, share, vi, risk, pattern, thorough);
    let ctx = json!({"version": ALLV[vi].0, "risk": risk.tag(), "share": share.tag(), "pattern": pattern.iter().map(|d| d.to_string()).collect::<String>(), "tracks_with_keyframes": tracks, "tracks_sharing_an_array": sharing});
    let populated = pattern.iter().filter(|&&d| d > 0).count();
    if populated >= 2 {
        c.count("models_with_several_sections_populated", 1);
    }
    c.count("tracks_with_keyframes", tracks);
    c.count("tracks_sharing_an_array", sharing);
    if sharing > 0 {
        c.count("models_with_shared_keyframe_arrays", 1);
    }
    check_model(c, &m, vi, risk, ctx);
}

/// share mode of a random model case (drawn from the sharing lane)
fn share_for(rs: &mut Rng) -> Share {
    match rs.below(8) {
        0..=3 => Share::Private,
        4 | 5 => Share::Some,
        6 => Share::Most,
        _ => Share::AllTimestamps,
    }
}

/// sections whose records carry animation blocks / time-stamp arrays that can be shared (index into SECT_NAMES)
const SHARING_SECTIONS: &[usize] = &[20, 21, 22, 23, 24, 25, 26, 27, 28];

/// The smallest object that exhibits each risk feature, built from `M2Model::default()` (seed independent).
fn minimal_model(vi: usize, risk: Risk) -> Option<M2Model> {
    let (_, mv, v) = ALLV[vi];
    let mut m = M2Model::default();
    m.header = M2Header::new(mv);
    match risk {
        Risk::Clean => {}
        Risk::TexFilename => {
            let mut t = M2Texture::parse(&mut zeros(), v).ok()?;
            t.filename.string.data = b"a.blp".to_vec();
            t.filename.array = M2Array::new(6, 0x1000);
            m.textures.push(t);
        }
        Risk::EventRanges => {
            let mut e = M2Event::parse(&mut zeros(), v).ok()?;
            e.identifier = *b"$HIT";
            e.ranges = M2Array::new(1, 0x1000);
            e.times = M2Array::new(1, 0x1040);
            let mut raw = EventRaw::default();
            raw.event_index = 0;
            raw.ranges = vec![1, 0, 0, 0, 2, 0, 0, 0];
            raw.original_ranges_offset = 0x1000;
            raw.timestamps = vec![7, 0, 0, 0];
            raw.original_timestamps_offset = 0x1040;
            m.raw_data.event_data.push(raw);
            m.events.push(e);
            // a following section with one key frame shows the collateral damage
            let mut a = M2Attachment::parse(&mut zeros(), v).ok()?;
            a.scale_animation.track.timestamps = M2Array::new(1, 0x2000);
            a.scale_animation.track.values.array = M2Array::new(1, 0x2040);
            a.scale_animation.track.values.data = vec![1.0];
            let mut raw = AttachmentAnimationRaw::default();
            raw.timestamps = vec![9, 0, 0, 0];
            raw.values = 1.0f32.to_le_bytes().to_vec();
            raw.original_timestamps_offset = 0x2000;
            raw.original_values_offset = 0x2040;
            m.raw_data.attachment_animation_data.push(raw);
            m.attachments.push(a);
        }
        Risk::SkinBatches => {
            if v > 263 {
                return None;
            }
            let mut sk = EmbeddedSkinRaw::default();
            sk.batches = (0u8..24).collect();
            let mut mvw = vec![0u8; 44];
            mvw[32] = 1; // one batch
            mvw[36] = 0x10;
            sk.model_view = mvw;
            sk.original_batches_offset = 0x10;
            m.raw_data.embedded_skins.push(sk);
        }
        Risk::PivotNan => {
            let mut b = M2Bone::parse(&mut zeros(), v).ok()?;
            reset_track(&mut b.translation);
            reset_track(&mut b.rotation);
            reset_track(&mut b.scale);
            b.pivot.y = f32::NAN;
            m.bones.push(b);
        }
        Risk::VertexZeroWeightNoBones => {
            m.vertices.push(M2Vertex::parse(&mut zeros(), v).ok()?);
        }
        Risk::VertexBoneIndexOob => {
            let mut b = M2Bone::parse(&mut zeros(), v).ok()?;
            reset_track(&mut b.translation);
            reset_track(&mut b.rotation);
            reset_track(&mut b.scale);
            m.bones.push(b);
            let mut x = M2Vertex::parse(&mut zeros(), v).ok()?;
            x.bone_indices = [0, 3, 0, 0];
            x.bone_weights = [254, 1, 0, 0];
            m.vertices.push(x);
        }
        Risk::FlagCombiners => m.header.flags = M2ModelFlags::from_bits_retain(0x8),
        Risk::FlagBlendOverride => {
            if v < 260 {
                return None;
            }
            m.header.flags = M2ModelFlags::from_bits_retain(0x0800_0000)
        }
        Risk::PostMoP => {}
        Risk::StaticTrackHeaders => {
            let mut b = M2Bone::parse(&mut zeros(), v).ok()?;
            reset_track(&mut b.translation);
            reset_track(&mut b.rotation);
            reset_track(&mut b.scale);
            b.translation.base.interpolation_type = M2InterpolationType::Linear;
            b.rotation.base.global_sequence = 3;
            m.bones.push(b);
        }
    }
    Some(m)
}

/// trigger predicate of `Risk::PostMoP`, read off the written file
fn post_mop_short(b: &[u8]) -> bool {
    matches!(decode_header(b), Ok((v, hsize, _, _)) if v > 272 && b.len() < hsize + 8)
}

fn check_model(c: &mut Case, m: &M2Model, vi: usize, risk: Risk, ctx: Value) {
    let m = m.clone();
    let (vlabel, mver, v) = ALLV[vi];
    let risk = match (v > 272, write_model(&m)) {
        (true, W::Bytes(b)) if post_mop_short(&b) => Risk::PostMoP,
        _ => risk,
    };
    // a case with a risk feature reports under one signature per (risk, clause family): the feature, not the collateral damage, is the defect
    let sigtag = |s: String| -> String {
        // the submesh re-encoding defect of convert() across the 260 boundary is independent of every risk feature and
        // precisely identified by its own signature, so it keeps that signature everywhere
        if risk == Risk::Clean || s.starts_with("convert-content|embedded_skin_submeshes|") || s.starts_with("embedded-skin-access|") || std::env::var("C13_RAW_SIGS").is_ok() { s } else { format!("risk={}", risk.tag()) }
    };
    c.count("objects_models", 1);
    c.count(&format!("models|{vlabel}"), 1);
    // ---- (a)+(b)+(e) plain round trip
    let b1 = match write_model(&m) {
        W::Bytes(b) => b,
        W::Rejected(e) => {
            c.count("writer_rejected", 1);
            c.note(json!({"writer_rejected": e}));
            c.nontrivial = false;
            return;
        }
        W::Panic(p) => {
            c.violate(sigtag(format!("write-panic|{vlabel}|{}", p.sig())), format!("M2Model::write panicked: {}", p.msg), ctx.clone());
            return;
        }
    };
    c.count("bytes_written", b1.len() as u64);
    walk_m2(c, &b1, &m, vlabel, &sigtag, &ctx);
    let pm = project(&m, Ctx::full(v));
    match parse_model(&b1) {
        Err(p) => c.violate(sigtag(format!("parse-panic|{vlabel}|{}", p.sig())), format!("M2Model::parse panicked on the writer's own output: {}", p.msg), ctx.clone()),
        Ok(Err(e)) => c.violate(sigtag(format!("parse-rejects-own-output|{vlabel}")), format!("M2Model::parse rejected the writer's own output: {e}"), ctx.clone()),
        Ok(Ok(p)) => {
            c.count("roundtrips", 1);
            let pp = project(&p, Ctx::full(v));
            cmp_proj(c, &pm, &pp, &|s| sigtag(format!("roundtrip-content|{s}|{vlabel}")), "parse(write(m)) vs m", &ctx);
            // auto-detecting entry point agrees
            match trap(|| parse_m2(&mut Cursor::new(b1.clone()))) {
                Ok(Ok(M2Format::Legacy(p2))) => {
                    let pp2 = project(&p2, Ctx::full(v));
                    if pp2 != pp {
                        c.violate(sigtag(format!("parse_m2-differs-from-parse|{vlabel}")), "parse_m2 and M2Model::parse disagree on the same bytes", ctx.clone());
                    }
                }
                Ok(Ok(M2Format::Chunked(_))) => c.violate(sigtag(format!("parse_m2-wrong-format|{vlabel}")), "parse_m2 classified MD20 output as chunked", ctx.clone()),
                Ok(Err(e)) => c.violate(sigtag(format!("parse-rejects-own-output|{vlabel}")), format!("parse_m2 rejected the writer's own output: {e}"), ctx.clone()),
                Err(pn) => c.violate(sigtag(format!("parse-panic|{vlabel}|{}", pn.sig())), format!("parse_m2 panicked: {}", pn.msg), ctx.clone()),
            }
            // the same bytes through a source that returns short reads (a pipe, an archive-backed stream): same content; and
            // the same model into a sink that accepts short writes: same bytes
            if c.idx % 3 == 0 || b1.len() < 4000 {
                let max = 1 + (c.idx % 9) as usize * 7;
                match trap(|| M2Model::parse(&mut vh_common::ShortIo::new(Cursor::new(b1.clone()), max)).map_err(|e| format!("{e}"))) {
                    Ok(Ok(ps)) => {
                        c.count("short_read_parses", 1);
                        if project(&ps, Ctx::full(v)) != pp {
                            c.violate(sigtag(format!("short-read-parse-differs|{vlabel}")), format!("M2Model::parse through a reader that returns at most {max} bytes per call yields other content than through a Cursor"), ctx.clone());
                        }
                    }
                    Ok(Err(e)) => c.violate(sigtag(format!("short-read-parse-rejects|{vlabel}")), format!("M2Model::parse through a reader that returns at most {max} bytes per call fails: {e}"), ctx.clone()),
                    Err(pn) => c.violate(sigtag(format!("parse-panic|{vlabel}|{}", pn.sig())), format!("M2Model::parse (short reads) panicked: {}", pn.msg), ctx.clone()),
                }
                match trap(|| {
                    let mut w = vh_common::ShortIo::new(Cursor::new(Vec::new()), max);
                    m.write(&mut w).map(|_| w.inner.into_inner()).map_err(|e| format!("{e}"))
                }) {
                    Ok(Ok(bs)) => {
                        c.count("short_write_writes", 1);
                        if bs != b1 {
                            c.violate(sigtag(format!("short-write-differs|{vlabel}")), format!("M2Model::write into a sink that accepts at most {max} bytes per call produced other bytes (first difference at {})", first_diff(&bs, &b1)), ctx.clone());
                        }
                    }
                    Ok(Err(e)) => c.violate(sigtag(format!("short-write-rejected|{vlabel}")), format!("M2Model::write into a sink that accepts short writes fails: {e}"), ctx.clone()),
                    Err(pn) => c.violate(sigtag(format!("write-panic|{vlabel}|{}", pn.sig())), format!("M2Model::write (short writes) panicked: {}", pn.msg), ctx.clone()),
                }
            }
            // the file helpers (save / load / load_legacy), the accessors for embedded skin profiles, and a sink that already holds data
            if c.idx % 3 == 1 || b1.len() < 1500 {
                model_file_leg(c, &m, &b1, &pp, v, vlabel, &sigtag, &ctx);
            }
            embedded_skin_leg(c, &m, &p, &b1, v, vlabel, &sigtag, &ctx);
            if c.idx % 2 == 0 || b1.len() < 1500 {
                sink_leg(c, "M2Model", vlabel, &b1, &|cur| m.write(cur).map_err(|e| format!("{e}")), &ctx);
            }
            // (b) second write
            match write_model(&p) {
                W::Bytes(b2) => {
                    c.count("rewrites", 1);
                    if b2 != b1 {
                        let fd = first_diff(&b1, &b2);
                        c.violate(
                            sigtag(format!("rewrite-not-bytewise|{vlabel}")),
                            format!("write(parse(write(m))) differs from write(m): lengths {} vs {}, first difference at byte {fd}", b1.len(), b2.len()),
                            json!({"ctx": ctx, "first_diff": fd, "len1": b1.len(), "len2": b2.len()}),
                        );
                    }
                }
                W::Rejected(e) => c.violate(sigtag(format!("rewrite-rejected|{vlabel}")), format!("writer rejected the parsed result of its own output: {e}"), ctx.clone()),
                W::Panic(pn) => c.violate(sigtag(format!("write-panic|{vlabel}|{}", pn.sig())), format!("second write panicked: {}", pn.msg), ctx.clone()),
            }
            // (b') parse -> empty one populated list of the parsed object -> write -> parse (after C13-r3m2): the object handed
            // to the writer is the truth, whatever the header it still carries from the earlier parse says
            if risk == Risk::Clean {
                let mut e = p.clone();
                let k = (c.idx % 10) as usize;
                let mut had = 0;
                let mut which = "";
                for off in 0..10 {
                    let (name, n): (&str, usize) = match (k + off) % 10 {
                        0 => ("particle_emitters", std::mem::take(&mut e.particle_emitters).len()),
                        1 => ("ribbon_emitters", std::mem::take(&mut e.ribbon_emitters).len()),
                        2 => ("texture_animations", std::mem::take(&mut e.texture_animations).len()),
                        3 => ("color_animations", std::mem::take(&mut e.color_animations).len()),
                        4 => ("transparency_animations", std::mem::take(&mut e.transparency_animations).len()),
                        5 => ("events", std::mem::take(&mut e.events).len()),
                        6 => ("attachments", std::mem::take(&mut e.attachments).len()),
                        7 => ("cameras", std::mem::take(&mut e.cameras).len()),
                        8 => ("lights", std::mem::take(&mut e.lights).len()),
                        _ => ("global_sequences", std::mem::take(&mut e.global_sequences).len()),
                    };
                    if n > 0 {
                        had = n;
                        which = name;
                        break;
                    }
                }
                if had > 0 {
                    c.count("edit_stages", 1);
                    c.count(&format!("edit_stage_emptied|{which}"), 1);
                    match write_model(&e) {
                        W::Bytes(b3) => match parse_model(&b3) {
                            Ok(Ok(p3)) => {
                                cmp_proj(c, &project(&e, Ctx::full(v)), &project(&p3, Ctx::full(v)), &|s| sigtag(format!("edit-roundtrip|emptied-{which}|{s}|{vlabel}")), "parse(write(parsed model with one list emptied)) vs that model", &ctx);
                            }
                            Ok(Err(er)) => c.violate(sigtag(format!("edit-roundtrip|emptied-{which}|parse-rejects|{vlabel}")), format!("after emptying {which} ({had} elements) of a parsed model the written file is rejected: {er}"), ctx.clone()),
                            Err(pn) => c.violate(sigtag(format!("parse-panic|{vlabel}|{}", pn.sig())), format!("parse after the edit stage panicked: {}", pn.msg), ctx.clone()),
                        },
                        W::Rejected(er) => {
                            c.count("edit_stage_writer_rejected", 1);
                            c.note(json!({"edit_stage_writer_rejected": er, "emptied": which}));
                        }
                        W::Panic(pn) => c.violate(sigtag(format!("write-panic|{vlabel}|{}", pn.sig())), format!("write after the edit stage panicked: {}", pn.msg), ctx.clone()),
                    }
                }
            }
        }
    }
    // ---- (c)+(d) conversions
    let conv = M2Converter::new();
    // a header revision belongs to the family of its canonical version: signatures name the family (the defect does not depend on
    // the revision number), converting to its own family is the same-version clause, and it may keep its revision number
    let family = if vi < VERSIONS.len() { vlabel } else { VERSIONS.iter().find(|x| x.1 == mver).map(|x| x.0).unwrap_or(vlabel) };
    // targets: the five classic versions; a post-MoP model also goes to its own version and to one other post-MoP version,
    // every second clean classic model without particle emitters to one post-MoP version
    let mut targets: Vec<(usize, &str, M2Version, u32)> = VERSIONS.iter().enumerate().map(|(ti, x)| (ti, x.0, x.1, x.2)).collect();
    let npost = ALLV.len() - POST_MOP;
    if vi >= POST_MOP {
        targets.push((vi, ALLV[vi].0, ALLV[vi].1, ALLV[vi].2));
        let o = POST_MOP + (vi - POST_MOP + 1 + (c.idx as usize / 7) % (npost - 1)) % npost;
        targets.push((o, ALLV[o].0, ALLV[o].1, ALLV[o].2));
    } else if risk == Risk::Clean && c.idx % 2 == 0 && m.particle_emitters.is_empty() {
        // (models without particle emitters only: the emitter record layout above 272 is not in the walker's tables)
        let o = POST_MOP + (c.idx as usize / 2) % npost;
        targets.push((o, ALLV[o].0, ALLV[o].1, ALLV[o].2));
    }
    let sigtag_outer = &sigtag;
    for (ti, tlabel, tver, tv) in targets {
        let pair = format!("{family}->{tlabel}");
        // a converted file that meets the trigger predicate of Risk::PostMoP reports under it, whatever the source was
        let short_target = std::cell::Cell::new(false);
        let sigtag = |s: String| -> String { if short_target.get() && std::env::var("C13_RAW_SIGS").is_err() { format!("risk={}", Risk::PostMoP.tag()) } else { sigtag_outer(s) } };
        if tv > 272 {
            c.count("conversions_to_post_mop_versions", 1);
        }
        let same_version = ti == vi || (vi >= VERSIONS.len() && vi < POST_MOP && tver == mver);
        // both entry points for the same-version clause, alternating ones for the cross-version pairs
        let modes: &[bool] = if same_version { &[true, false] } else if (ti + vi) % 2 == 0 { &[true] } else { &[false] };
        for &use_converter in modes {
        let r = trap(|| if use_converter { conv.convert(&m, tver) } else { m.convert(tver) });
        let cm = match r {
            Err(p) => {
                c.violate(sigtag(format!("convert-panic|{pair}|{}", p.sig())), format!("convert panicked: {}", p.msg), ctx.clone());
                continue;
            }
            Ok(Err(e)) => {
                c.count("convert_rejected", 1);
                c.note(json!({"convert_rejected": format!("{pair}: {e}")}));
                continue;
            }
            Ok(Ok(x)) => x,
        };
        c.count("conversions", 1);
        // the requested version is reached when the header number is the target's own or one the library itself assigns to the target
        // (e.g. 275 for Legion: M2Version::from_header_version maps 273..=279 to Legion)
        let in_target_family = cm.header.version != tv && M2Version::from_header_version(cm.header.version) == Some(tver);
        if in_target_family {
            c.count("conversions_ending_on_another_number_of_the_target_version", 1);
        }
        if cm.header.version != tv && !in_target_family && !(same_version && cm.header.version == v) {
            c.violate(sigtag(format!("convert-version-field|{pair}")), format!("converted model carries version {} instead of {}", cm.header.version, tv), ctx.clone());
            continue;
        }
        if same_version {
            // (c) same version: nothing may change
            c.count("conversions_same_version", 1);
            let pc = project(&cm, Ctx::full(v));
            let bad = cmp_proj(c, &pm, &pc, &|s| sigtag(format!("convert-same-version-changed|{vlabel}|{s}")), "convert(v→v) vs m", &ctx);
            if bad == 0 {
                match write_model(&cm) {
                    W::Bytes(bc) if bc == b1 => {}
                    W::Bytes(bc) => c.violate(sigtag(format!("convert-same-version-changed|{vlabel}|bytes")), format!("write(convert(v→v)) differs from write(m) at byte {}", first_diff(&b1, &bc)), ctx.clone()),
                    _ => c.violate(sigtag(format!("convert-same-version-changed|{vlabel}|write")), "convert(v→v) result is no longer writable", ctx.clone()),
                }
            }
            continue;
        }
        let _ = mver;
        // (d) other version: write, walk, parse, compare what both versions can represent
        c.count("conversion_pairs_cross", 1);
        c.count(&format!("pair|{pair}"), 1);
        let bc = match write_model(&cm) {
            W::Bytes(b) => b,
            W::Rejected(e) => {
                c.count("writer_rejected_converted", 1);
                c.note(json!({"writer_rejected_converted": format!("{pair}: {e}")}));
                continue;
            }
            W::Panic(p) => {
                c.violate(sigtag(format!("convert-write-panic|{pair}|{}", p.sig())), format!("writing the converted model panicked: {}", p.msg), ctx.clone());
                continue;
            }
        };
        short_target.set(post_mop_short(&bc));
        walk_m2(c, &bc, &cm, &pair, &|s| sigtag(format!("convert-{s}")), &ctx);
        match parse_model(&bc) {
            Err(p) => c.violate(sigtag(format!("convert-parse-panic|{pair}|{}", p.sig())), format!("parse of the converted model panicked: {}", p.msg), ctx.clone()),
            Ok(Err(e)) => c.violate(sigtag(format!("convert-output-unparseable|{pair}")), format!("written converted model is rejected by the parser: {e}"), ctx.clone()),
            Ok(Ok(pcm)) => {
                let a = project(&m, Ctx { v, o: tv });
                let b = project(&pcm, Ctx { v: tv, o: v });
                cmp_proj(c, &a, &b, &|s| sigtag(format!("convert-content|{s}|{pair}")), "parse(write(convert(m))) vs m on common content", &ctx);
            }
        }
    }
        }
}

// ------------------------------------------------------------------ main ----

fn main() {
    let mut run = Run::new();
    let thorough = run.args.thorough();
    if !run.args.scratch.is_empty() {
        let dir = std::path::PathBuf::from(&run.args.scratch);
        if std::fs::create_dir_all(&dir).is_ok() {
            let _ = SCRATCH.set(dir);
        }
    }
    let n_models: u64 = if thorough { 300_000 } else { 10_000 };
    let n_skins: u64 = if thorough { 48_000 } else { 2_400 };
    let n_anims: u64 = if thorough { 24_000 } else { 1_200 };
    run.extra("versions", json!(VERSIONS.iter().map(|v| format!("{}={}", v.0, v.2)).collect::<Vec<_>>()));
    run.extra("sections", json!(SECT_NAMES));
    run.extra("risk_features", json!(RISK_SCHEDULE.iter().map(|r| r.tag()).collect::<std::collections::BTreeSet<_>>().into_iter().collect::<Vec<_>>()));
    run.extra("chunked_md21_writer", json!("unsupported: the crate has no MD21 writer (M2Model::write always emits MD20); chunked Legion+ not exercised"));
    let mut idx = 0u64;
    for k in 0..n_models {
        let i = idx;
        idx += 1;
        if !run.want(i) {
            continue;
        }
        let mut rng = run.rng(i, 0);
        let vi = (k % 5) as usize;
        let risk = RISK_SCHEDULE[((k / 5) % RISK_SCHEDULE.len() as u64) as usize];
        let round = k / 5 / RISK_SCHEDULE.len() as u64;
        let pattern = match risk {
            Risk::Clean => pattern_for(&mut rng, round),
            Risk::FlagCombiners | Risk::FlagBlendOverride if round % 2 == 0 => pattern_for(&mut rng, 0),
            _ => pattern_for(&mut rng, 3),
        };
        let pat_s: String = pattern.iter().map(|d| d.to_string()).collect();
        let mut rs = run.rng(i, 1);
        let share = share_for(&mut rs);
        let class = format!("m2|{}|{}|{}|share={}", VERSIONS[vi].0, risk.tag(), pat_s, share.tag());
        run.case(i, &class, json!({"kind": "m2", "version": VERSIONS[vi].0, "risk": risk.tag(), "share": share.tag(), "pattern": pat_s, "sections": SECT_NAMES}), |c| {
            model_case(c, &mut rng, rs, share, vi, risk, &pattern, thorough);
        });
    }
    for k in 0..n_skins {
        let i = idx;
        idx += 1;
        if !run.want(i) {
            continue;
        }
        let mut rng = run.rng(i, 0);
        skin_case(&mut run, i, k, &mut rng);
    }
    for k in 0..n_anims {
        let i = idx;
        idx += 1;
        if !run.want(i) {
            continue;
        }
        let mut rng = run.rng(i, 0);
        anim_case(&mut run, i, k, &mut rng);
    }
    // seed-independent minimal objects: one per (risk feature, version)
    const ALL_RISKS: &[Risk] = &[
        Risk::Clean, Risk::TexFilename, Risk::EventRanges, Risk::SkinBatches, Risk::PivotNan, Risk::VertexZeroWeightNoBones,
        Risk::VertexBoneIndexOob, Risk::FlagCombiners, Risk::FlagBlendOverride, Risk::StaticTrackHeaders,
    ];
    for &risk in ALL_RISKS {
        for vi in 0..VERSIONS.len() {
            let i = idx;
            idx += 1;
            if !run.want(i) {
                continue;
            }
            let class = format!("m2-minimal|{}|{}", VERSIONS[vi].0, risk.tag());
            run.case(i, &class, json!({"kind": "m2-minimal", "version": VERSIONS[vi].0, "risk": risk.tag()}), |c| match minimal_model(vi, risk) {
                Some(m) => check_model(c, &m, vi, risk, json!({"version": VERSIONS[vi].0, "risk": risk.tag(), "minimal": true})),
                None => {
                    c.skip("feature does not exist in this version");
                }
            });
        }
    }
    // shared key-frame arrays, one section at a time: the section under test has many elements whose tracks all reference
    // one time-stamp array; every other track-bearing section has one element (so a wrong running offset is seen behind it)
    let rounds: u64 = if thorough { 40 } else { 4 };
    for round in 0..rounds {
        for &sect in SHARING_SECTIONS {
            for vi in 0..VERSIONS.len() {
                let i = idx;
                idx += 1;
                if !run.want(i) {
                    continue;
                }
                let mut rng = run.rng(i, 0);
                let rs = run.rng(i, 1);
                let mut pattern = [0u8; NSECT];
                for &s2 in SHARING_SECTIONS {
                    pattern[s2] = 1;
                }
                pattern[4] = 1; // bones
                pattern[sect] = 2;
                let share = if round % 2 == 0 { Share::AllTimestamps } else { Share::Most };
                let pat_s: String = pattern.iter().map(|d| d.to_string()).collect();
                let class = format!("m2-shared|{}|{}|share={}", VERSIONS[vi].0, SECT_NAMES[sect], share.tag());
                run.case(i, &class, json!({"kind": "m2-shared", "version": VERSIONS[vi].0, "section": SECT_NAMES[sect], "share": share.tag(), "pattern": pat_s}), |c| {
                    model_case(c, &mut rng, rs, share, vi, Risk::Clean, &pattern, thorough);
                });
            }
        }
    }
    // ---- header revisions between the canonical versions (appended: the indices of everything above stay put)
    idx = idx.max(1_000_000);
    let n_rev: u64 = if thorough { 42_000 } else { 2_100 };
    for k in 0..n_rev {
        let i = idx;
        idx += 1;
        if !run.want(i) {
            continue;
        }
        let mut rng = run.rng(i, 0);
        let nrev = (POST_MOP - VERSIONS.len()) as u64;
        let vi = VERSIONS.len() + (k % nrev) as usize;
        let risk = if k / nrev % 3 == 0 { Risk::Clean } else { RISK_SCHEDULE[((k / nrev) % RISK_SCHEDULE.len() as u64) as usize] };
        let pattern = if risk == Risk::Clean { pattern_for(&mut rng, k / nrev) } else { pattern_for(&mut rng, 3) };
        let pat_s: String = pattern.iter().map(|d| d.to_string()).collect();
        let mut rs = run.rng(i, 1);
        let share = share_for(&mut rs);
        let class = format!("m2|{}|{}|{}|share={}", ALLV[vi].0, risk.tag(), pat_s, share.tag());
        run.case(i, &class, json!({"kind": "m2", "version": ALLV[vi].0, "header_version": ALLV[vi].2, "risk": risk.tag(), "share": share.tag(), "pattern": pat_s, "sections": SECT_NAMES}), |c| {
            model_case(c, &mut rng, rs, share, vi, risk, &pattern, thorough);
        });
    }
    // ---- the versions behind MoP as MD20 (appended behind everything else: their own index range). Every such case carries the
    // clean space except for all but empty models (see Risk::PostMoP). No particle emitters: their record layout above 272 is not in the walker's tables.
    {
        let mut idx2 = 2_000_000u64;
        let n_post: u64 = if thorough { 12_000 } else { 600 };
        let npost = (ALLV.len() - POST_MOP) as u64;
        for k in 0..n_post {
            let i = idx2;
            idx2 += 1;
            if !run.want(i) {
                continue;
            }
            let mut rng = run.rng(i, 0);
            let vi = POST_MOP + (k % npost) as usize;
            let mut pattern = pattern_for(&mut rng, k / npost);
            pattern[20] = 0;
            let pat_s: String = pattern.iter().map(|d| d.to_string()).collect();
            let mut rs = run.rng(i, 1);
            let share = share_for(&mut rs);
            let class = format!("m2|{}|clean|{}|share={}", ALLV[vi].0, pat_s, share.tag());
            run.case(i, &class, json!({"kind": "m2", "version": ALLV[vi].0, "header_version": ALLV[vi].2, "risk": "clean", "share": share.tag(), "pattern": pat_s, "sections": SECT_NAMES}), |c| {
                c.count("models_post_mop_versions", 1);
                model_case(c, &mut rng, rs, share, vi, Risk::Clean, &pattern, thorough);
            });
        }
    }
    // skeletons around the limit of the byte-sized vertex bone index: the highest addressable bones are ordinary bones
    for &nbones in &[255usize, 256, 257, 300] {
        for vi in 0..VERSIONS.len() {
            let i = idx;
            idx += 1;
            if !run.want(i) {
                continue;
            }
            let (vl, mv, v) = VERSIONS[vi];
            let class = format!("m2-large-skeleton|{vl}|bones{nbones}");
            run.case(i, &class, json!({"kind": "m2-large-skeleton", "version": vl, "bones": nbones}), |c| {
                let mut m = M2Model::default();
                m.header = M2Header::new(mv);
                for k in 0..nbones {
                    let Ok(mut b) = M2Bone::parse(&mut zeros(), v) else { return };
                    reset_track(&mut b.translation);
                    reset_track(&mut b.rotation);
                    reset_track(&mut b.scale);
                    b.bone_id = k as i32;
                    b.parent_bone = if k == 0 { -1 } else { (k - 1) as i16 };
                    m.bones.push(b);
                }
                let top = (nbones - 1).min(255) as u8;
                for quad in [[top, top - 1, 0, 0], [0, top, top - 1, top - 2], [top - 1, 0, 0, top], [254, 253, top, 1]] {
                    let Ok(mut x) = M2Vertex::parse(&mut zeros(), v) else { return };
                    x.bone_indices = quad;
                    x.bone_weights = [100, 80, 50, 25];
                    x.tex_coords2 = Some(C2Vector { x: 0.0, y: 0.0 });
                    m.vertices.push(x);
                }
                check_model(c, &m, vi, Risk::Clean, json!({"version": vl, "bones": nbones, "vertex_bone_indices_up_to": top}));
            });
        }
    }
    run.done();
}


// ------------------------------------------------------------------ skin cases ----

fn proj_submesh(x: &SkinSubmesh) -> String {
    format!(
        "id={} lvl={} vs={} vc={} ts={} tc={} bc={} bs={} bi={} c={} sc={} r={}",
        x.id, x.level, x.vertex_start, x.vertex_count, x.triangle_start, x.triangle_count, x.bone_count, x.bone_start, x.bone_influence, f3(&x.center), f3(&x.sort_center), fb(x.bounding_radius)
    )
}
fn proj_batch(b: &SkinBatch) -> String {
    format!(
        "f={} p={} sh={} ss={} g={} c={} m={} l={} tc={} t={} tcc={} tw={} tt={}",
        b.flags, b.priority_plane, b.shader_id, b.skin_section_index, b.geoset_index, b.color_index, b.material_index, b.material_layer, b.texture_count, b.texture_combo_index,
        b.texture_coord_combo_index, b.texture_weight_combo_index, b.texture_transform_combo_index
    )
}
fn skin_data_proj(ind: &[u16], tri: &[u16], bones: &[u8], sub: &[SkinSubmesh], bat: &[SkinBatch]) -> Proj {
    vec![
        ("skin-indices", ind.iter().map(|x| x.to_string()).collect()),
        ("skin-triangles", tri.iter().map(|x| x.to_string()).collect()),
        ("skin-bone_indices", vec![bytes_s(bones)]),
        ("skin-submeshes", sub.iter().map(proj_submesh).collect()),
        ("skin-batches", bat.iter().map(proj_batch).collect()),
    ]
}
/// `with_header` = false restricts to the mesh data common to both layouts (used across conversions)
fn project_skin(f: &SkinFile, with_header: bool) -> Proj {
    let mut p: Proj = Vec::new();
    match f {
        SkinFile::New(s) => {
            if with_header {
                p.push(("skin-header", vec![format!("new version={} name_count={} vertex_count={} center={:?} bounds={:?}", s.header.version, s.header.name.count, s.header.vertex_count, s.header.center_position.map(|c| f3(&c)), s.header.center_bounds.map(fb))]));
            }
            p.extend(skin_data_proj(&s.indices, &s.triangles, &s.bone_indices, &s.submeshes, &s.batches));
        }
        SkinFile::Old(s) => {
            if with_header {
                p.push(("skin-header", vec![format!("old bone_count_max={}", s.header.bone_count_max)]));
            }
            p.extend(skin_data_proj(&s.indices, &s.triangles, &s.bone_indices, &s.submeshes, &s.batches));
        }
    }
    p
}

fn write_skin(f: &SkinFile) -> W {
    match trap(|| {
        let mut cur = Cursor::new(Vec::new());
        f.write(&mut cur).map(|_| cur.into_inner())
    }) {
        Ok(Ok(b)) => W::Bytes(b),
        Ok(Err(e)) => W::Rejected(format!("{e}")),
        Err(p) => W::Panic(p),
    }
}

/// independent walker for .skin files
fn walk_skin(c: &mut Case, b: &[u8], f: &SkinFile, lab: &str, sig: &dyn Fn(String) -> String, ctx: &Value) {
    c.count("walker_files", 1);
    let (is_new, counts): (bool, [usize; 5]) = match f {
        SkinFile::New(s) => (true, [s.indices.len(), s.triangles.len(), s.bone_indices.len() / 4, s.submeshes.len(), s.batches.len()]),
        SkinFile::Old(s) => (false, [s.indices.len(), s.triangles.len(), s.bone_indices.len() / 4, s.submeshes.len(), s.batches.len()]),
    };
    if b.len() < 4 || &b[0..4] != b"SKIN" {
        c.violate(sig(format!("skin-walker|no-magic|{lab}")), "written skin does not start with SKIN", ctx.clone());
        return;
    }
    let (first, hsize) = if is_new { (20usize, 60usize) } else { (4usize, 48usize) };
    if b.len() < hsize {
        c.violate(sig(format!("skin-walker|header-truncated|{lab}")), format!("written skin is {} bytes, header needs {hsize}", b.len()), ctx.clone());
        return;
    }
    let names = ["indices", "triangles", "bone_indices", "submeshes", "batches"];
    let elems = [2usize, 2, 4, 48, 24];
    let mut regions = Vec::new();
    for k in 0..5 {
        c.count("walker_pairs", 1);
        let cnt = rd32(b, first + 8 * k).unwrap_or(0) as u64;
        let off = rd32(b, first + 8 * k + 4).unwrap_or(0) as u64;
        if cnt as usize != counts[k] {
            c.violate(sig(format!("skin-walker|{}-count|{lab}", names[k])), format!("header count of `{}` is {cnt}, the object has {}", names[k], counts[k]), ctx.clone());
        }
        if cnt == 0 {
            continue;
        }
        let end = off + cnt * elems[k] as u64;
        if off < hsize as u64 || end > b.len() as u64 {
            c.violate(sig(format!("skin-walker|{}-outside-file|{lab}", names[k])), format!("`{}` = (count {cnt}, offset {off}) × {} = [{off}, {end}) not inside [{hsize}, {})", names[k], elems[k], b.len()), ctx.clone());
            continue;
        }
        regions.push((off, end, names[k]));
    }
    regions.sort();
    for w in regions.windows(2) {
        c.count("walker_overlap_checks", 1);
        if w[1].0 < w[0].1 {
            c.violate(sig(format!("skin-walker|sections-overlap|{lab}")), format!("`{}` [{}, {}) overlaps `{}` [{}, {})", w[0].2, w[0].0, w[0].1, w[1].2, w[1].0, w[1].1), ctx.clone());
            break;
        }
    }
}

/// write → walk → typed parse (+ autodetecting parse) → compare → rewrite
fn skin_roundtrip(c: &mut Case, f: &SkinFile, lab: &str, autodetect: bool, sig: &dyn Fn(String) -> String, ctx: &Value) -> Option<Vec<u8>> {
    let b1 = match write_skin(f) {
        W::Bytes(b) => b,
        W::Rejected(e) => {
            c.count("writer_rejected", 1);
            c.note(json!({"skin_writer_rejected": e}));
            return None;
        }
        W::Panic(p) => {
            c.violate(sig(format!("skin-write-panic|{lab}|{}", p.sig())), format!("skin write panicked: {}", p.msg), ctx.clone());
            return None;
        }
    };
    c.count("bytes_written", b1.len() as u64);
    walk_skin(c, &b1, f, lab, sig, ctx);
    let pf = project_skin(f, true);
    let typed = trap(|| match f {
        SkinFile::New(_) => Skin::parse(&mut Cursor::new(b1.clone())).map(SkinFile::New).map_err(|e| format!("{e}")),
        SkinFile::Old(_) => OldSkin::parse(&mut Cursor::new(b1.clone())).map(SkinFile::Old).map_err(|e| format!("{e}")),
    });
    match typed {
        Err(p) => c.violate(sig(format!("skin-parse-panic|{lab}|{}", p.sig())), format!("skin parse panicked: {}", p.msg), ctx.clone()),
        Ok(Err(e)) => c.violate(sig(format!("skin-parse-rejects-own-output|{lab}")), format!("typed skin parser rejected the writer's output: {e}"), ctx.clone()),
        Ok(Ok(p)) => {
            c.count("roundtrips", 1);
            cmp_proj(c, &pf, &project_skin(&p, true), &|s| sig(format!("skin-roundtrip-content|{s}|{lab}")), "skin parse(write(s)) vs s", ctx);
            match write_skin(&p) {
                W::Bytes(b2) => {
                    c.count("rewrites", 1);
                    if b2 != b1 {
                        c.violate(sig(format!("skin-rewrite-not-bytewise|{lab}")), format!("second skin write differs at byte {} (lengths {} / {})", first_diff(&b1, &b2), b1.len(), b2.len()), ctx.clone());
                    }
                }
                _ => c.violate(sig(format!("skin-rewrite-rejected|{lab}")), "parsed skin is not writable again", ctx.clone()),
            }
        }
    }
    if autodetect {
        match trap(|| SkinFile::parse(&mut Cursor::new(b1.clone())).map_err(|e| format!("{e}"))) {
            Err(p) => c.violate(sig(format!("skin-parse-panic|{lab}|{}", p.sig())), format!("SkinFile::parse panicked: {}", p.msg), ctx.clone()),
            Ok(Err(e)) => c.violate(sig(format!("skin-parse-rejects-own-output|autodetect|{lab}")), format!("SkinFile::parse rejected the writer's output: {e}"), ctx.clone()),
            Ok(Ok(p)) => {
                c.count("roundtrips_autodetect", 1);
                if p.is_new_format() != f.is_new_format() {
                    c.violate(sig(format!("skin-format-misdetected|{lab}")), format!("SkinFile::parse read a {} skin as {}", if f.is_new_format() { "new-format" } else { "old-format" }, if p.is_new_format() { "new-format" } else { "old-format" }), ctx.clone());
                } else {
                    cmp_proj(c, &pf, &project_skin(&p, true), &|s| sig(format!("skin-roundtrip-content|autodetect|{s}|{lab}")), "SkinFile::parse(write(s)) vs s", ctx);
                }
            }
        }
    }
    // ---- the file helpers: SkinFile::save (-> SkinG::save), then the typed load (SkinG::load) and - where auto-detection is part of
    // the clean space - SkinFile::load / load_skin; each must give what the in-memory parse of the same bytes gives
    if c.idx % 2 == 1 || b1.len() < 600 {
        if let Some(path) = scratch_file(c, "mesh.skin", &b1) {
            let saved = if c.idx % 4 < 2 {
                trap(|| f.save(&path).map_err(|e| format!("{e}")))
            } else {
                trap(|| match f {
                    SkinFile::New(s) => s.save(&path).map_err(|e| format!("{e}")),
                    SkinFile::Old(s) => s.save(&path).map_err(|e| format!("{e}")),
                })
            };
            if saved_file_equals(c, "SkinFile", lab, &path, saved, &b1, sig, ctx) {
                let mem = |b: &[u8], auto: bool| -> Option<Proj> {
                    trap(|| {
                        let mut cur = Cursor::new(b.to_vec());
                        if auto {
                            SkinFile::parse(&mut cur).ok()
                        } else {
                            match f {
                                SkinFile::New(_) => Skin::parse(&mut cur).map(SkinFile::New).ok(),
                                SkinFile::Old(_) => OldSkin::parse(&mut cur).map(SkinFile::Old).ok(),
                            }
                        }
                    })
                    .ok()
                    .flatten()
                    .map(|s| project_skin(&s, true))
                };
                let mut loads: Vec<(&str, Result<Result<SkinFile, String>, vh_common::PanicInfo>, bool)> = vec![(
                    "SkinG::load",
                    trap(|| match f {
                        SkinFile::New(_) => Skin::load(&path).map(SkinFile::New).map_err(|e| format!("{e}")),
                        SkinFile::Old(_) => OldSkin::load(&path).map(SkinFile::Old).map_err(|e| format!("{e}")),
                    }),
                    false,
                )];
                if autodetect {
                    loads.push(("SkinFile::load", trap(|| SkinFile::load(&path).map_err(|e| format!("{e}"))), true));
                    loads.push(("load_skin", trap(|| wow_m2::load_skin(&path).map_err(|e| format!("{e}"))), true));
                }
                for (name, got, auto) in loads {
                    let want = mem(&b1, auto);
                    match got {
                        Err(p) => c.violate(sig(format!("skin-parse-panic|{lab}|{}", p.sig())), format!("{name} panicked: {}", p.msg), ctx.clone()),
                        Ok(got) => {
                            c.count("files_loaded", 1);
                            c.count(&format!("files_loaded|{name}"), 1);
                            let gp = got.as_ref().ok().map(|s| project_skin(s, true));
                            if gp != want {
                                c.violate(
                                    sig(format!("file-load-differs|{name}|{lab}")),
                                    format!("{name} of the saved file ({}) and the in-memory parse of the same bytes ({}) disagree", match &got { Ok(_) => "Ok".to_string(), Err(e) => format!("Err: {e}") }, if want.is_some() { "Ok" } else { "Err" }),
                                    ctx.clone(),
                                );
                            }
                        }
                    }
                }
            }
            let _ = std::fs::remove_file(&path);
        }
    }
    sink_leg(c, "SkinFile", lab, &b1, &|cur| f.write(cur).map_err(|e| format!("{e}")), ctx);
    Some(b1)
}

fn skin_case(run: &mut Run, i: u64, k: u64, rng: &mut Rng) {
    // layout: old / new(version 1..3); risk schedule
    let layout = (k % 4) as u32; // 0 = old, 1..3 = new with that version number
    let risk = match (k / 4) % 5 {
        0 | 2 | 4 => "clean",
        1 => "skin-old-format-few-indices",
        _ => "skin-submeshes-and-batches",
    };
    let risk = if risk == "skin-old-format-few-indices" && layout != 0 { "clean" } else { risk };
    let cls = |r: &mut Rng| r.below(3) as u8;
    let mut pat = [cls(rng), cls(rng), cls(rng), cls(rng), cls(rng)];
    if k / 20 < 3 {
        pat = [(k / 20) as u8; 5];
    }
    if risk == "skin-submeshes-and-batches" {
        pat[3] = pat[3].max(1);
        pat[4] = pat[4].max(1);
    } else if pat[3] > 0 && pat[4] > 0 {
        // clean: not both populated
        if rng.bool() { pat[3] = 0 } else { pat[4] = 0 }
    }
    let lab = if layout == 0 { "old".to_string() } else { format!("new-v{layout}") };
    let class = format!("skin|{lab}|{risk}|{}", pat.iter().map(|d| d.to_string()).collect::<String>());
    let desc = json!({"kind": "skin", "layout": lab, "risk": risk, "pattern(indices,triangles,bone_indices,submeshes,batches)": pat});
    let mut r = rng.clone();
    run.case(i, &class, desc.clone(), |c| {
        let r = &mut r;
        let mut n_idx = size_of_class(r, pat[0], true);
        if risk == "skin-old-format-few-indices" {
            n_idx = r.usize(5);
        }
        let few = n_idx <= 4;
        let indices = u16s(r, n_idx);
        let nt = size_of_class(r, pat[1], true);
        let triangles = u16s(r, nt);
        let nbv = size_of_class(r, pat[2], true);
        let bone_indices = r.bytes(nbv * 4);
        let nsub = size_of_class(r, pat[3], false);
        let submeshes: Vec<SkinSubmesh> = (0..nsub)
            .map(|_| {
                let mut x = SkinSubmesh::parse(&mut zeros()).expect("seed submesh");
                x.id = r.next_u32() as u16;
                x.level = r.next_u32() as u16;
                x.vertex_start = r.next_u32() as u16;
                x.vertex_count = r.next_u32() as u16;
                x.triangle_start = r.next_u32() as u16;
                x.triangle_count = r.next_u32() as u16;
                x.bone_count = r.next_u32() as u16;
                x.bone_start = r.next_u32() as u16;
                x.bone_influence = r.next_u32() as u16;
                x.center = [fx(r), fx(r), fx(r)];
                x.sort_center = [fx(r), fx(r), fx(r)];
                x.bounding_radius = fx(r);
                x
            })
            .collect();
        let nbat = size_of_class(r, pat[4], false);
        let batches: Vec<SkinBatch> = (0..nbat)
            .map(|_| {
                let mut b = SkinBatch::parse(&mut zeros()).expect("seed batch");
                b.flags = r.next_u32() as u8;
                b.priority_plane = r.next_u32() as i8;
                b.shader_id = r.next_u32() as u16;
                b.skin_section_index = r.next_u32() as u16;
                b.geoset_index = r.next_u32() as u16;
                b.color_index = r.next_u32() as u16;
                b.material_index = r.next_u32() as u16;
                b.material_layer = r.next_u32() as u16;
                b.texture_count = r.next_u32() as u16;
                b.texture_combo_index = r.next_u32() as u16;
                b.texture_coord_combo_index = r.next_u32() as u16;
                b.texture_weight_combo_index = r.next_u32() as u16;
                b.texture_transform_combo_index = r.next_u32() as u16;
                b
            })
            .collect();
        let file = if layout == 0 {
            let mut h = OldSkinHeader::new();
            // realistic value in the risk partition: the mis-detected layout turns this field into an element count, and an
            // arbitrary u32 there makes the parser request >100 GB (an abort, which is C05's subject, not this property's)
            h.bone_count_max = if risk == "skin-old-format-few-indices" { 1 + r.below(255) as u32 } else { r.next_u32() };
            SkinFile::Old(OldSkin { header: h, indices, triangles, bone_indices, submeshes, batches })
        } else {
            let mut h = SkinHeader::new([M2Version::Cataclysm, M2Version::MoP, M2Version::WoD][(layout - 1) as usize]);
            h.vertex_count = r.next_u32();
            SkinFile::New(Skin { header: h, indices, triangles, bone_indices, submeshes, batches })
        };
        let ctx = json!({"layout": lab, "risk": risk, "indices": n_idx, "triangles": nt, "bone_vertices": nbv, "submeshes": nsub, "batches": nbat});
        let sig = |s: String| -> String { if risk == "clean" || std::env::var("C13_RAW_SIGS").is_ok() { s } else { format!("risk={risk}") } };
        c.count("objects_skins", 1);
        c.count(&format!("skins|{lab}"), 1);
        // auto-detection is part of the clean space only when the old layout has more than four indices
        let autodetect = layout != 0 || !few || risk == "skin-old-format-few-indices";
        let Some(b1) = skin_roundtrip(c, &file, &lab, autodetect, &sig, &ctx) else {
            c.nontrivial = false;
            return;
        };
        // conversions
        for &(tlabel, tver, _) in VERSIONS {
            let pair = format!("{lab}->{tlabel}");
            let conv = match trap(|| file.convert(tver)) {
                Err(p) => {
                    c.violate(sig(format!("skin-convert-panic|{pair}|{}", p.sig())), format!("skin convert panicked: {}", p.msg), ctx.clone());
                    continue;
                }
                Ok(Err(_)) => {
                    c.count("convert_rejected", 1);
                    continue;
                }
                Ok(Ok(x)) => x,
            };
            c.count("conversions", 1);
            let want_new = tver.uses_new_skin_format();
            if conv.is_new_format() != want_new {
                c.violate(sig(format!("skin-convert-wrong-layout|{pair}")), format!("convert to {tlabel} produced the {} layout", if conv.is_new_format() { "new" } else { "old" }), ctx.clone());
                continue;
            }
            let same_version = match (&file, layout) {
                (SkinFile::Old(_), _) => !want_new,
                (SkinFile::New(_), 1) => tlabel == "Cataclysm",
                (SkinFile::New(_), 2) => tlabel == "MoP",
                _ => false,
            };
            if same_version {
                c.count("conversions_same_version", 1);
                let bad = cmp_proj(c, &project_skin(&file, true), &project_skin(&conv, true), &|s| sig(format!("skin-convert-same-version-changed|{s}|{lab}")), "skin convert(v→v) vs s", &ctx);
                if bad == 0 {
                    if let W::Bytes(bc) = write_skin(&conv) {
                        if bc != b1 {
                            c.violate(sig(format!("skin-convert-same-version-changed|bytes|{lab}")), "write(convert(v→v)) differs from write(s)", ctx.clone());
                        }
                    }
                }
                continue;
            }
            c.count("conversion_pairs_cross", 1);
            c.count(&format!("pair|skin:{pair}"), 1);
            let W::Bytes(bc) = write_skin(&conv) else {
                c.count("writer_rejected_converted", 1);
                continue;
            };
            let clab = format!("convert:{pair}");
            walk_skin(c, &bc, &conv, &clab, &sig, &ctx);
            // parse the converted file with the typed parser; auto-detection only where it is part of the clean space
            let parsed = trap(|| {
                if conv.is_new_format() { Skin::parse(&mut Cursor::new(bc.clone())).map(SkinFile::New).map_err(|e| format!("{e}")) } else { OldSkin::parse(&mut Cursor::new(bc.clone())).map(SkinFile::Old).map_err(|e| format!("{e}")) }
            });
            match parsed {
                Ok(Ok(pc)) => {
                    cmp_proj(c, &project_skin(&file, false), &project_skin(&pc, false), &|s| sig(format!("skin-convert-content|{s}|{pair}")), "skin parse(write(convert(s))) vs s on mesh data", &ctx);
                }
                Ok(Err(e)) => c.violate(sig(format!("skin-convert-output-unparseable|{pair}")), format!("converted skin rejected by the parser: {e}"), ctx.clone()),
                Err(p) => c.violate(sig(format!("skin-convert-parse-panic|{pair}|{}", p.sig())), format!("parse of converted skin panicked: {}", p.msg), ctx.clone()),
            }
        }
    });
}

// ------------------------------------------------------------------ anim cases ----

fn project_anim(a: &AnimFile) -> Proj {
    let mut p: Proj = Vec::new();
    let meta = match &a.metadata {
        AnimMetadata::Modern { header, entries } => format!("modern magic={} version={} id_count={} unknown={} entry_ids={:?}", hex(&header.magic), header.version, header.id_count, header.unknown, entries.iter().map(|e| e.id).collect::<Vec<_>>()),
        AnimMetadata::Legacy { .. } => "legacy".to_string(),
    };
    p.push(("anim-header", vec![format!("format={:?} {meta}", a.format)]));
    p.push((
        "anim-sections",
        a.sections
            .iter()
            .map(|s| {
                let mut o = format!("magic={} id={} start={} end={} bones=[", hex(&s.header.magic), s.header.id, s.header.start, s.header.end);
                for b in &s.bone_animations {
                    let _ = write!(o, "{{id={}", b.bone_id);
                    if let Some(t) = &b.translation {
                        let _ = write!(o, " T ts={:?} v=[{}]", t.timestamps, t.translations.iter().map(v3).collect::<Vec<_>>().join(","));
                    }
                    if let Some(t) = &b.rotation {
                        let _ = write!(o, " R ts={:?} v=[{}]", t.timestamps, t.rotations.iter().map(|q| format!("{}/{}/{}/{}", fb(q.x), fb(q.y), fb(q.z), fb(q.w))).collect::<Vec<_>>().join(","));
                    }
                    if let Some(t) = &b.scaling {
                        let _ = write!(o, " S ts={:?} v=[{}]", t.timestamps, t.scalings.iter().map(v3).collect::<Vec<_>>().join(","));
                    }
                    o.push('}');
                }
                o.push(']');
                o
            })
            .collect(),
    ));
    p
}

fn write_anim(a: &AnimFile) -> W {
    match trap(|| {
        let mut cur = Cursor::new(Vec::new());
        a.write(&mut cur).map(|_| cur.into_inner())
    }) {
        Ok(Ok(b)) => W::Bytes(b),
        Ok(Err(e)) => W::Rejected(format!("{e}")),
        Err(p) => W::Panic(p),
    }
}

/// independent walker for .anim files (modern: header + entry table + AFID sections; legacy: count + offset table)
fn walk_anim(c: &mut Case, b: &[u8], a: &AnimFile, lab: &str, sig: &dyn Fn(String) -> String, ctx: &Value) {
    c.count("walker_files", 1);
    let flen = b.len() as u64;
    match a.format {
        AnimFormat::Modern => {
            if b.len() < 20 || &b[0..4] != b"MAOF" {
                c.violate(sig(format!("anim-walker|header|{lab}")), "modern anim output has no MAOF header", ctx.clone());
                return;
            }
            let n = rd32(b, 8).unwrap_or(0) as u64;
            let eo = rd32(b, 16).unwrap_or(0) as u64;
            c.count("walker_pairs", 1);
            if n as usize != a.sections.len() {
                c.violate(sig(format!("anim-walker|id-count|{lab}")), format!("id_count {n} written for {} sections", a.sections.len()), ctx.clone());
            }
            if eo < 20 || eo + n * 12 > flen {
                c.violate(sig(format!("anim-walker|entries-outside-file|{lab}")), format!("entry table [{eo}, {}) not inside [20, {flen})", eo + n * 12), ctx.clone());
                return;
            }
            let mut regions = vec![(eo, eo + n * 12)];
            for k in 0..n {
                c.count("walker_pairs", 1);
                let off = rd32(b, (eo + k * 12 + 4) as usize).unwrap_or(0) as u64;
                let size = rd32(b, (eo + k * 12 + 8) as usize).unwrap_or(0) as u64;
                if off < 20 || off + size > flen || size < 16 {
                    c.violate(sig(format!("anim-walker|section-outside-file|{lab}")), format!("entry {k}: (offset {off}, size {size}) not inside [20, {flen}) or shorter than a section header"), ctx.clone());
                    continue;
                }
                if &b[off as usize..off as usize + 4] != b"AFID" {
                    c.violate(sig(format!("anim-walker|section-magic|{lab}")), format!("entry {k} points at {off} which is not an AFID section"), ctx.clone());
                }
                regions.push((off, off + size));
            }
            regions.sort();
            for w in regions.windows(2) {
                c.count("walker_overlap_checks", 1);
                if w[1].0 < w[0].1 {
                    c.violate(sig(format!("anim-walker|sections-overlap|{lab}")), format!("[{}, {}) overlaps [{}, {})", w[0].0, w[0].1, w[1].0, w[1].1), ctx.clone());
                    break;
                }
            }
        }
        AnimFormat::Legacy => {
            let n = rd32(b, 0).unwrap_or(u32::MAX) as u64;
            c.count("walker_pairs", 1);
            if n as usize != a.sections.len() || 4 + n * 4 > flen {
                c.violate(sig(format!("anim-walker|legacy-count|{lab}")), format!("count {n} written for {} sections (file {flen} bytes)", a.sections.len()), ctx.clone());
                return;
            }
            let mut prev = 4 + n * 4;
            for k in 0..n {
                c.count("walker_pairs", 1);
                let off = rd32(b, (4 + 4 * k) as usize).unwrap_or(0) as u64;
                if off < prev || off + 16 > flen {
                    c.violate(sig(format!("anim-walker|legacy-offset|{lab}")), format!("animation {k} offset {off} not inside [{prev}, {flen})"), ctx.clone());
                    break;
                }
                prev = off + 16;
            }
        }
    }
}

fn anim_roundtrip(c: &mut Case, a: &AnimFile, lab: &str, sig: &dyn Fn(String) -> String, ctx: &Value) -> Option<Vec<u8>> {
    let b1 = match write_anim(a) {
        W::Bytes(b) => b,
        W::Rejected(e) => {
            c.count("writer_rejected", 1);
            c.note(json!({"anim_writer_rejected": e}));
            return None;
        }
        W::Panic(p) => {
            c.violate(sig(format!("anim-write-panic|{lab}|{}", p.sig())), format!("anim write panicked: {}", p.msg), ctx.clone());
            return None;
        }
    };
    c.count("bytes_written", b1.len() as u64);
    walk_anim(c, &b1, a, lab, sig, ctx);
    let mut auto: Option<AnimFile> = None;
    match trap(|| AnimFile::parse(&mut Cursor::new(b1.clone())).map_err(|e| format!("{e}"))) {
        Err(p) => c.violate(sig(format!("anim-parse-panic|{lab}|{}", p.sig())), format!("AnimFile::parse panicked: {}", p.msg), ctx.clone()),
        Ok(Err(e)) => c.violate(sig(format!("anim-parse-rejects-own-output|{lab}")), format!("AnimFile::parse rejected the writer's output: {e}"), ctx.clone()),
        Ok(Ok(p)) => {
            auto = Some(p.clone());
            c.count("roundtrips", 1);
            cmp_proj(c, &project_anim(a), &project_anim(&p), &|s| sig(format!("anim-roundtrip-content|{s}|{lab}")), "anim parse(write(a)) vs a", ctx);
            match write_anim(&p) {
                W::Bytes(b2) => {
                    c.count("rewrites", 1);
                    if b2 != b1 {
                        c.violate(sig(format!("anim-rewrite-not-bytewise|{lab}")), format!("second anim write differs at byte {} (lengths {} / {})", first_diff(&b1, &b2), b1.len(), b2.len()), ctx.clone());
                    }
                }
                _ => c.violate(sig(format!("anim-rewrite-rejected|{lab}")), "parsed anim is not writable again", ctx.clone()),
            }
        }
    }
    if let Some(auto) = &auto {
        let pa = project_anim(auto);
        // ---- the entry points that take the format from the caller: the written file read with its known format is the
        // auto-detected parse
        let explicit: [(&str, Result<Result<AnimFile, String>, vh_common::PanicInfo>); 2] = [
            ("AnimFile::parse_with_format", trap(|| AnimFile::parse_with_format(&mut Cursor::new(b1.clone()), a.format).map_err(|e| format!("{e}")))),
            ("AnimParser::parse_with_format", trap(|| wow_m2::anim::AnimParser::parse_with_format(&mut Cursor::new(b1.clone()), a.format).map_err(|e| format!("{e}")))),
        ];
        for (name, got) in explicit {
            c.count("explicit_format_parses", 1);
            match got {
                Err(p) => c.violate(sig(format!("anim-parse-panic|{lab}|{}", p.sig())), format!("{name} panicked: {}", p.msg), ctx.clone()),
                Ok(Err(e)) => c.violate(sig(format!("anim-entry-points-disagree|{name}|{lab}")), format!("{name} with the file's own format fails on bytes that AnimFile::parse reads: {e}"), ctx.clone()),
                Ok(Ok(x)) => {
                    if project_anim(&x) != pa {
                        c.violate(sig(format!("anim-entry-points-disagree|{name}|{lab}")), format!("{name} with the file's own format yields other content than AnimFile::parse"), ctx.clone());
                    }
                }
            }
        }
        // parse_validated = parse + validate: same content, and a verdict that is validate()'s verdict on the parsed object
        c.count("validated_parses", 1);
        let verdict = trap(|| auto.validate().is_ok()).unwrap_or(false);
        match trap(|| AnimFile::parse_validated(&mut Cursor::new(b1.clone())).map_err(|e| format!("{e}"))) {
            Err(p) => c.violate(sig(format!("anim-parse-panic|{lab}|{}", p.sig())), format!("AnimFile::parse_validated panicked: {}", p.msg), ctx.clone()),
            Ok(Ok(x)) => {
                c.count("validated_parses_accepted", 1);
                if !verdict || project_anim(&x) != pa {
                    c.violate(sig(format!("anim-entry-points-disagree|AnimFile::parse_validated|{lab}")), format!("parse_validated accepts the file (validate() on the parsed object: {}) with {} content", if verdict { "Ok" } else { "Err" }, if project_anim(&x) != pa { "other" } else { "the same" }), ctx.clone());
                }
            }
            Ok(Err(e)) => {
                c.count("validated_parses_turned_down", 1);
                if verdict {
                    c.violate(sig(format!("anim-entry-points-disagree|AnimFile::parse_validated|{lab}")), format!("parse_validated fails ({e}) although AnimFile::parse reads the bytes and validate() accepts the result"), ctx.clone());
                }
            }
        }
        // ---- the file helpers
        if let Some(path) = scratch_file(c, "bones.anim", &b1) {
            let saved = trap(|| a.save(&path).map_err(|e| format!("{e}")));
            if saved_file_equals(c, "AnimFile", lab, &path, saved, &b1, sig, ctx) {
                let hint = if a.format == AnimFormat::Modern { [M2Version::Legion, M2Version::BfA, M2Version::TheWarWithin][(c.idx % 3) as usize] } else { [M2Version::Vanilla, M2Version::WotLK, M2Version::MoP][(c.idx % 3) as usize] };
                let loads: [(&str, Result<Result<AnimFile, String>, vh_common::PanicInfo>); 2] =
                    [("AnimFile::load", trap(|| AnimFile::load(&path).map_err(|e| format!("{e}")))), ("AnimFile::load_with_version", trap(|| AnimFile::load_with_version(&path, hint).map_err(|e| format!("{e}"))))];
                for (name, got) in loads {
                    c.count("files_loaded", 1);
                    c.count(&format!("files_loaded|{name}"), 1);
                    match got {
                        Err(p) => c.violate(sig(format!("anim-parse-panic|{lab}|{}", p.sig())), format!("{name} panicked: {}", p.msg), ctx.clone()),
                        Ok(Err(e)) => c.violate(sig(format!("file-load-fails|{name}|{lab}")), format!("{name} fails on a file whose bytes parse in memory: {e}"), ctx.clone()),
                        Ok(Ok(x)) => {
                            if project_anim(&x) != pa {
                                c.violate(sig(format!("file-load-differs|{name}|{lab}")), format!("{name} of the saved file yields other content than AnimFile::parse of the same bytes"), ctx.clone());
                            }
                        }
                    }
                }
            }
            let _ = std::fs::remove_file(&path);
        }
    }
    // ---- optimize_memory: the optimised object is an object like any other - write -> parse gives it back
    {
        let mut o = a.clone();
        if trap(|| o.optimize_memory()).is_err() {
            c.violate(sig(format!("anim-optimize-panic|{lab}")), "AnimFile::optimize_memory panicked", ctx.clone());
        } else {
            let dropped: usize = a.sections.iter().map(|s| s.bone_animations.len()).sum::<usize>() - o.sections.iter().map(|s| s.bone_animations.len()).sum::<usize>();
            c.count("optimized_objects", 1);
            c.count("optimized_objects_bone_entries_dropped", dropped as u64);
            if let W::Bytes(bo) = write_anim(&o) {
                match trap(|| AnimFile::parse(&mut Cursor::new(bo.clone())).map_err(|e| format!("{e}"))) {
                    Ok(Ok(po)) => {
                        c.count("optimized_roundtrips", 1);
                        cmp_proj(c, &project_anim(&o), &project_anim(&po), &|s| sig(format!("anim-optimized-roundtrip-content|{s}|{lab}")), "anim parse(write(optimize_memory(a))) vs optimize_memory(a)", ctx);
                    }
                    Ok(Err(e)) => c.violate(sig(format!("anim-optimized-parse-rejects-own-output|{lab}")), format!("AnimFile::parse rejected the written optimised object: {e}"), ctx.clone()),
                    Err(p) => c.violate(sig(format!("anim-parse-panic|{lab}|{}", p.sig())), format!("AnimFile::parse panicked on the written optimised object: {}", p.msg), ctx.clone()),
                }
            }
        }
    }
    sink_leg(c, "AnimFile", lab, &b1, &|cur| a.write(cur).map_err(|e| format!("{e}")), ctx);
    Some(b1)
}

fn gen_anim_section(r: &mut Rng, with_data: bool, nbones_class: u8) -> AnimSection {
    let mut h = AnimSectionHeader::parse(&mut Cursor::new(b"AFID\0\0\0\0\0\0\0\0\0\0\0\0".to_vec())).expect("seed section header");
    h.id = r.next_u32();
    h.start = r.next_u32();
    h.end = r.next_u32();
    let nb = size_of_class(r, nbones_class, false);
    let mut bones = Vec::new();
    let cnt = |r: &mut Rng| match r.below(3) {
        0 => 0usize,
        1 => 1,
        _ => 2 + r.usize(6),
    };
    for bi in 0..nb {
        let mut b = AnimBoneAnimation { bone_id: 0, translation: None, rotation: None, scaling: None };
        if with_data && (bi == 0 || r.chance(2, 3)) {
            b.bone_id = r.next_u32();
            let which = 1 + r.below(7);
            if which & 1 != 0 {
                let n = cnt(r);
                b.translation = Some(AnimTranslation { timestamps: (0..n).map(|_| r.next_u32()).collect(), translations: (0..n).map(|_| c3(r)).collect() });
            }
            if which & 2 != 0 {
                let n = cnt(r);
                b.rotation = Some(AnimRotation {
                    timestamps: (0..n).map(|_| r.next_u32()).collect(),
                    rotations: (0..n)
                        .map(|_| {
                            let mut q = Quaternion::parse(&mut zeros()).expect("seed quaternion");
                            q.x = fx(r);
                            q.y = fx(r);
                            q.z = fx(r);
                            q.w = fx(r);
                            q
                        })
                        .collect(),
                });
            }
            if which & 4 != 0 {
                let n = cnt(r);
                b.scaling = Some(AnimScaling { timestamps: (0..n).map(|_| r.next_u32()).collect(), scalings: (0..n).map(|_| c3(r)).collect() });
            }
        }
        bones.push(b);
    }
    AnimSection { header: h, bone_animations: bones }
}

fn anim_case(run: &mut Run, i: u64, k: u64, rng: &mut Rng) {
    // modern without key frames is the clean space; modern with key frames and every legacy object sit under a trigger predicate
    let (format, risk) = match k % 4 {
        0 | 1 => (AnimFormat::Modern, "clean"),
        2 => (AnimFormat::Modern, "anim-modern-bone-keyframes"),
        _ => (AnimFormat::Legacy, "anim-legacy-format"),
    };
    let nsec_class = ((k / 4) % 3) as u8;
    let nbones_class = ((k / 12) % 3) as u8;
    let lab = if format == AnimFormat::Modern { "modern" } else { "legacy" };
    let class = format!("anim|{lab}|{risk}|s{nsec_class}b{nbones_class}|ids{}", (k / 36) % 3);
    let desc = json!({"kind": "anim", "format": lab, "risk": risk, "sections_class": nsec_class, "bones_class": nbones_class});
    let mut r = rng.clone();
    run.case(i, &class, desc, |c| {
        let r = &mut r;
        let mut nsec = size_of_class(r, nsec_class, false);
        if risk == "anim-modern-bone-keyframes" && nsec == 0 {
            nsec = 1;
        }
        let with_data = risk != "clean";
        let mut sections: Vec<AnimSection> = (0..nsec).map(|_| gen_anim_section(r, with_data, if with_data { nbones_class.max(1) } else { nbones_class })).collect();
        // animation ids: random (distinct), or drawn from a tiny id space so that variations share an id (real files do:
        // several sections per animation id), or distinct with the index entries in another order than the sections
        let id_mode = (k / 36) % 3;
        if id_mode == 1 {
            for s in sections.iter_mut() {
                s.header.id = [4u32, 64, 64, 5][r.usize(4)];
            }
        }
        let file = if format == AnimFormat::Modern {
            let mut hb = b"MAOF".to_vec();
            hb.extend_from_slice(&[0u8; 16]);
            let mut h = AnimHeader::parse(&mut Cursor::new(hb)).expect("seed anim header");
            h.version = r.next_u32();
            h.id_count = nsec as u32;
            h.unknown = r.next_u32();
            h.anim_entry_offset = 20;
            let mut entries: Vec<AnimEntry> = sections.iter().map(|s| AnimEntry { id: if id_mode != 0 || r.bool() { s.header.id } else { r.next_u32() }, offset: 0, size: 0 }).collect();
            if id_mode == 2 && entries.len() > 1 {
                // same ids, rotated: entry i no longer carries section i's id
                let ids: Vec<u32> = entries.iter().map(|e| e.id).collect();
                let n = ids.len();
                for (i, e) in entries.iter_mut().enumerate() {
                    e.id = ids[(i + 1) % n];
                }
            }
            AnimFile { format, sections, metadata: AnimMetadata::Modern { header: h, entries } }
        } else {
            AnimFile { format, sections, metadata: AnimMetadata::Legacy { file_size: 0, animation_count: nsec as u32, structure_hints: LegacyStructureHints { appears_valid: true, estimated_blocks: nsec as u32, has_timestamps: false } } }
        };
        let ctx = json!({"format": lab, "risk": risk, "sections": nsec, "bones": file.sections.iter().map(|s| s.bone_animations.len()).collect::<Vec<_>>()});
        let sig = |s: String| -> String { if risk == "clean" || std::env::var("C13_RAW_SIGS").is_ok() { s } else { format!("risk={risk}") } };
        c.count("objects_anims", 1);
        c.count(&format!("anims|{lab}"), 1);
        let Some(b1) = anim_roundtrip(c, &file, lab, &sig, &ctx) else {
            c.nontrivial = false;
            return;
        };
        // conversions: the five classic versions all map to the legacy layout, Legion maps to the modern one
        let mut targets: Vec<(&str, M2Version)> = VERSIONS.iter().map(|v| (v.0, v.1)).collect();
        targets.push(("Legion", M2Version::Legion));
        for (tlabel, tver) in targets {
            let Ok(conv) = trap(|| file.convert(tver)) else {
                c.violate(sig(format!("anim-convert-panic|{lab}->{tlabel}")), "anim convert panicked", ctx.clone());
                continue;
            };
            c.count("conversions", 1);
            let target_modern = tlabel == "Legion";
            if (conv.format == AnimFormat::Modern) != target_modern {
                c.violate(sig(format!("anim-convert-wrong-format|{lab}->{tlabel}")), format!("convert to {tlabel} produced {:?}", conv.format), ctx.clone());
                continue;
            }
            if conv.format == file.format {
                c.count("conversions_same_version", 1);
                let bad = cmp_proj(c, &project_anim(&file), &project_anim(&conv), &|s| sig(format!("anim-convert-same-format-changed|{s}|{lab}")), "anim convert(same format) vs a", &ctx);
                if bad == 0 {
                    if let W::Bytes(bc) = write_anim(&conv) {
                        if bc != b1 {
                            c.violate(sig(format!("anim-convert-same-format-changed|bytes|{lab}")), "write(convert(same format)) differs from write(a)", ctx.clone());
                        }
                    }
                }
                continue;
            }
            c.count("conversion_pairs_cross", 1);
            c.count(&format!("pair|anim:{lab}->{tlabel}"), 1);
            // cross-format: the sections are the common content; the target being legacy is itself a trigger predicate
            let csig = |s: String| -> String { if conv.format == AnimFormat::Legacy && std::env::var("C13_RAW_SIGS").is_err() { "risk=anim-legacy-format".to_string() } else { sig(s) } };
            let W::Bytes(bc) = write_anim(&conv) else {
                c.count("writer_rejected_converted", 1);
                continue;
            };
            walk_anim(c, &bc, &conv, &format!("convert:{lab}->{tlabel}"), &csig, &ctx);
            match trap(|| AnimFile::parse(&mut Cursor::new(bc.clone())).map_err(|e| format!("{e}"))) {
                Ok(Ok(pc)) => {
                    let a = project_anim(&file);
                    let b = project_anim(&pc);
                    cmp_proj(c, &a[1..].to_vec(), &b[1..].to_vec(), &|s| csig(format!("anim-convert-content|{s}|{lab}->{tlabel}")), "anim parse(write(convert(a))) vs a on sections", &ctx);
                }
                Ok(Err(e)) => c.violate(csig(format!("anim-convert-output-unparseable|{lab}->{tlabel}")), format!("converted anim rejected by the parser: {e}"), ctx.clone()),
                Err(p) => c.violate(csig(format!("anim-convert-parse-panic|{lab}->{tlabel}|{}", p.sig())), format!("parse of converted anim panicked: {}", p.msg), ctx.clone()),
            }
        }
    });
}
