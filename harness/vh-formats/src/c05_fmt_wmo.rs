//! C05 seeds + drivers: WMO root and WMO group files (wow-wmo).
//!
//! The crate has two generations of code: `parse_wmo` (chunk discovery + binrw, own `root_parser::WmoRoot` /
//! `group_parser::WmoGroup` types) and the legacy `WmoParser::parse_root` / `WmoWriter` pair working on
//! `wmo_types::WmoRoot` / `wmo_group_types::WmoGroup`. Seeds come from the library's writer wherever it has one
//! (`WmoWriter::write_root` / `write_group`); chunks the writer never emits (MOPY, MOBR, MOLR, MFOG, MCVP, GFID, MORI,
//! MORB, MOTA, MOBS, the 68-byte MOGP header) are covered by additional hand-assembled files in the on-disk format.
//!
//! Layout facts (verified): magics are stored reversed ("REVM", "PGOM", ...); root files are flat; the group parser
//! expects a 68-byte MOGP header before the sub-chunks (`chunk_info.size - 68`), `WmoWriter::write_group` writes a
//! 36-byte one.

use crate::c05_common::*;
use std::io::Cursor;
use wow_wmo::{
    BoundingBox, Color, ParsedWmo, TexCoord, Vec3, WmoBatch, WmoBspNode, WmoConvexVolumePlane, WmoConvexVolumePlanes, WmoDoodadDef, WmoDoodadSet, WmoEditor, WmoFlags,
    WmoGroupFlags, WmoGroupInfo, WmoLight, WmoLightProperties, WmoLightType, WmoLiquid, WmoLiquidVertex, WmoMaterial, WmoMaterialFlags, WmoPlane, WmoPortal,
    WmoPortalReference, WmoRoot, WmoVersion, WmoWriter,
};

const MOGP: [u8; 4] = *b"PGOM";
const MOGP_HEADER_FORMAT: usize = 68;
const MOGP_HEADER_WRITER: usize = 36;

// ------------------------------------------------------------ raw chunks ----

/// Append one chunk; `magic` is the readable name ("MOHD"), stored reversed as the format demands.
fn ch(out: &mut Vec<u8>, magic: &[u8; 4], payload: &[u8]) {
    out.extend(magic.iter().rev());
    out.extend_from_slice(&(payload.len() as u32).to_le_bytes());
    out.extend_from_slice(payload);
}

#[derive(Default)]
struct Buf(Vec<u8>);

impl Buf {
    fn u8s(mut self, v: &[u8]) -> Self {
        self.0.extend_from_slice(v);
        self
    }
    fn u16s(mut self, v: &[u16]) -> Self {
        for x in v {
            self.0.extend_from_slice(&x.to_le_bytes());
        }
        self
    }
    fn i16s(mut self, v: &[i16]) -> Self {
        for x in v {
            self.0.extend_from_slice(&x.to_le_bytes());
        }
        self
    }
    fn u32s(mut self, v: &[u32]) -> Self {
        for x in v {
            self.0.extend_from_slice(&x.to_le_bytes());
        }
        self
    }
    fn f32s(mut self, v: &[f32]) -> Self {
        for x in v {
            self.0.extend_from_slice(&x.to_le_bytes());
        }
        self
    }
}

fn v3(x: f32, y: f32, z: f32) -> Vec3 {
    let mut v = Vec3::default();
    v.x = x;
    v.y = y;
    v.z = z;
    v
}

fn rgba(r: u8, g: u8, b: u8, a: u8) -> Color {
    let mut c = Color::default();
    c.r = r;
    c.g = g;
    c.b = b;
    c.a = a;
    c
}

// ------------------------------------------------------------- root: writer ----

/// `wmo_types::WmoRoot` has no Default / constructor: obtain an empty one from the legacy parser.
fn empty_root() -> WmoRoot {
    let mut f = Vec::new();
    ch(&mut f, b"MVER", &17u32.to_le_bytes());
    ch(&mut f, b"MOHD", &[0u8; 64]);
    wow_wmo::WmoParser::new().parse_root(&mut Cursor::new(&f)).expect("minimal MVER+MOHD root must parse")
}

fn rich_root() -> WmoRoot {
    let mut r = empty_root();
    r.textures = vec!["world/wmo/azeroth/buildings/stone01.blp".into(), "world/wmo/azeroth/buildings/wood02.blp".into(), "dungeons/textures/trim.blp".into()];
    let offs: Vec<u32> = r.textures.iter().scan(0u32, |o, t| { let here = *o; *o += t.len() as u32 + 1; Some(here) }).collect();
    for (i, o) in offs.iter().enumerate() {
        r.texture_offset_index_map.insert(*o, i as u32);
    }
    for i in 0..3usize {
        r.materials.push(WmoMaterial {
            flags: WmoMaterialFlags::UNLIT | if i == 1 { WmoMaterialFlags::TWO_SIDED } else { WmoMaterialFlags::CLAMP_S },
            shader: i as u32,
            blend_mode: (i % 2) as u32,
            texture1: offs[i],
            emissive_color: rgba(1, 2, 3, 255),
            sidn_color: rgba(10, 20, 30, 255),
            framebuffer_blend: Color::default(),
            texture2: offs[(i + 1) % 3],
            diffuse_color: rgba(200, 180, 160, 255),
            ground_type: 4 + i as u32,
        });
    }
    for i in 0..3usize {
        let bb = BoundingBox { min: v3(-10.0 * (i + 1) as f32, -5.0, 0.0), max: v3(10.0, 5.0 * (i + 1) as f32, 8.0) };
        r.groups.push(WmoGroupInfo {
            flags: if i == 0 { WmoGroupFlags::INDOOR | WmoGroupFlags::HAS_DOODADS } else { WmoGroupFlags::HAS_NORMALS | WmoGroupFlags::HAS_WATER },
            bounding_box: bb,
            name: format!("room_{i:02}"),
        });
    }
    r.bounding_box = BoundingBox { min: v3(-30.0, -5.0, 0.0), max: v3(10.0, 15.0, 8.0) };
    for i in 0..2usize {
        let z = i as f32 * 3.0;
        r.portals.push(WmoPortal { vertices: vec![v3(0.0, 0.0, z), v3(2.0, 0.0, z), v3(2.0, 3.0, z), v3(0.0, 3.0, z)], normal: v3(0.0, 0.0, 1.0) });
    }
    for (p, g, s) in [(0u16, 0u16, 1u16), (0, 1, 0xFFFF), (1, 1, 1), (1, 2, 0xFFFF)] {
        r.portal_references.push(WmoPortalReference { portal_index: p, group_index: g, side: s });
    }
    r.visible_block_lists = vec![vec![0, 1, 2], vec![1], vec![2, 0]];
    for (i, t) in [WmoLightType::Omni, WmoLightType::Spot, WmoLightType::Directional, WmoLightType::Ambient].into_iter().enumerate() {
        let properties = match t {
            WmoLightType::Omni => WmoLightProperties::Omni,
            WmoLightType::Spot => WmoLightProperties::Spot { direction: v3(0.0, 0.0, -1.0), hotspot: 0.5, falloff: 1.0 },
            WmoLightType::Directional => WmoLightProperties::Directional { direction: v3(0.0, 1.0, 0.0) },
            WmoLightType::Ambient => WmoLightProperties::Ambient,
        };
        r.lights.push(WmoLight {
            light_type: t,
            position: v3(i as f32, 2.0, 3.0),
            color: rgba(255, 240, 200, 255),
            intensity: 1.5,
            rotation: [0.0, 0.0, 0.0, 1.0],
            attenuation_start: 2.0,
            attenuation_end: 9.0 + i as f32,
            use_attenuation: i % 2 == 0,
            properties,
        });
    }
    for i in 0..4usize {
        r.doodad_defs.push(WmoDoodadDef {
            name_offset: 16 * i as u32,
            position: v3(1.0 + i as f32, 2.0, 0.5),
            orientation: [0.0, 0.0, 0.7071, 0.7071],
            scale: 1.0 + 0.25 * i as f32,
            color: rgba(255, 255, 255, 255),
            set_index: (i / 2) as u16,
        });
    }
    r.doodad_sets = vec![WmoDoodadSet { name: "Set_$DefaultGlobal".into(), start_doodad: 0, n_doodads: 2 }, WmoDoodadSet { name: "Set_Inn".into(), start_doodad: 2, n_doodads: 2 }];
    r.skybox = Some("environments/stars/deathskybox.m2".into());
    r.convex_volume_planes = Some(WmoConvexVolumePlanes { planes: vec![WmoConvexVolumePlane { normal: v3(0.0, 0.0, 1.0), distance: 4.0, flags: 1 }] });
    r.header.flags = WmoFlags::HAS_VERTEX_COLORS | WmoFlags::OUTDOOR | WmoFlags::HAS_LIQUIDS;
    r.header.ambient_color = rgba(40, 50, 60, 255);
    r.header.n_materials = r.materials.len() as u32;
    r.header.n_groups = r.groups.len() as u32;
    r.header.n_portals = r.portals.len() as u32;
    r.header.n_lights = r.lights.len() as u32;
    r.header.n_doodad_defs = r.doodad_defs.len() as u32;
    r.header.n_doodad_names = r.doodad_defs.len() as u32;
    r.header.n_doodad_sets = r.doodad_sets.len() as u32;
    r
}

fn written_root(version: WmoVersion, with_materials: bool) -> Vec<u8> {
    let mut r = rich_root();
    r.version = version;
    if !with_materials {
        r.materials.clear();
        r.header.n_materials = 0;
    }
    let mut cur = Cursor::new(Vec::new());
    WmoWriter::new().write_root(&mut cur, &r, version).expect("WmoWriter::write_root failed on a consistent object");
    cur.into_inner()
}

// --------------------------------------------------------- root: hand-made ----

fn hand_root(version: u32) -> Vec<u8> {
    let mut f = Vec::new();
    ch(&mut f, b"MVER", &version.to_le_bytes());
    let textures = b"textures/a.blp\0\0textures/b_long_name.blp\0\0\0\0";
    let groups = b"\0\0antiportal\0mainhall\0";
    let doodads = b"world/generic/barrel01.m2\0\0\0world/generic/torch.m2\0\0";
    // SMOHeader, 64 bytes. The legacy parser reads `flags` where the format has wmoID: put flag-like bits there too.
    let mohd = Buf::default().u32s(&[2, 2, 2, 3, 2, 3, 2]).u8s(&[60, 50, 40, 255]).u32s(&[0x22]).f32s(&[-20.0, -20.0, 0.0, 20.0, 20.0, 15.0]).u16s(&[0x0021, 0]);
    ch(&mut f, b"MOHD", &mohd.0);
    ch(&mut f, b"MOTX", textures);
    let mut momt = Buf::default();
    for i in 0..2u32 {
        momt = momt.u32s(&[0x05 + i, i, i, if i == 0 { 0 } else { 16 }]).u8s(&[1, 2, 3, 4, 5, 6, 7, 8]).u32s(&[16]).u8s(&[9, 9, 9, 255]).u32s(&[3, 0, 0xFF00_00FF, 0]).u8s(&[0; 16]);
    }
    ch(&mut f, b"MOMT", &momt.0);
    ch(&mut f, b"MOGN", groups);
    let mut mogi = Buf::default();
    for i in 0..2u32 {
        mogi = mogi.u32s(&[0x2049 + i]).f32s(&[-20.0, -20.0, 0.0, 20.0, 20.0, 15.0]).u32s(&[if i == 0 { 2 } else { 13 }]);
    }
    ch(&mut f, b"MOGI", &mogi.0);
    ch(&mut f, b"MOSB", b"sky/stormwind.m2\0\0\0\0");
    let mut mopv = Buf::default();
    for i in 0..8u32 {
        mopv = mopv.f32s(&[(i % 4) as f32, (i / 4) as f32 * 2.0, 1.0]);
    }
    ch(&mut f, b"MOPV", &mopv.0);
    ch(&mut f, b"MOPT", &Buf::default().u16s(&[0, 4]).f32s(&[0.0, 0.0, 1.0, -1.0]).u16s(&[4, 4]).f32s(&[0.0, 1.0, 0.0, -2.0]).0);
    ch(&mut f, b"MOPR", &Buf::default().u16s(&[0, 1]).i16s(&[1, 0]).u16s(&[0, 0]).i16s(&[-1, 0]).u16s(&[1, 1]).i16s(&[1, 0]).u16s(&[1, 0]).i16s(&[-1, 0]).0);
    let mut movv = Buf::default();
    for i in 0..4u32 {
        movv = movv.f32s(&[i as f32, 1.0, 2.0]);
    }
    ch(&mut f, b"MOVV", &movv.0);
    ch(&mut f, b"MOVB", &Buf::default().u16s(&[0, 2, 2, 2]).0);
    let mut molt = Buf::default();
    for i in 0..3u8 {
        molt = molt.u8s(&[i, 1, 0, 0, 200, 210, 220, 255]).f32s(&[1.0, 2.0, 3.0, 0.8, 0.0, 0.0, 0.0, 1.0, 3.0, 7.5]);
    }
    ch(&mut f, b"MOLT", &molt.0);
    let mut mods = Buf::default();
    for (name, start, count) in [(&b"Set_$DefaultGlobal\0\0"[..], 0u32, 2u32), (&b"Set_Night\0\0\0\0\0\0\0\0\0\0\0"[..], 2, 1)] {
        mods = mods.u8s(name).u32s(&[start, count, 0]);
    }
    ch(&mut f, b"MODS", &mods.0);
    ch(&mut f, b"MODN", doodads);
    let mut modd = Buf::default();
    for i in 0..3u32 {
        modd = modd.u32s(&[if i == 2 { 28 | 0x0100_0000 } else { 0 }]).f32s(&[i as f32, 0.0, 1.0, 0.0, 0.0, 0.0, 1.0, 1.25]).u8s(&[255, 255, 255, 255]);
    }
    ch(&mut f, b"MODD", &modd.0);
    let mut mfog = Buf::default();
    for i in 0..2u32 {
        // 48 bytes on disk: flags, position, radii, fog {end, start, colour}, underwater fog {end, start, colour}
        mfog = mfog.u32s(&[i]).f32s(&[0.0, 0.0, 0.0, 10.0, 50.0, 100.0, 0.25]).u8s(&[90, 90, 90, 255]).f32s(&[60.0, 0.5]).u8s(&[30, 30, 60, 255]);
    }
    ch(&mut f, b"MFOG", &mfog.0);
    // 80 bytes: 5 planes in the 16-byte layout of the new parser, 4 in the 20-byte layout of the legacy one
    ch(&mut f, b"MCVP", &Buf::default().f32s(&[0.0, 0.0, 1.0, -5.0, 1.0, 0.0, 0.0, -9.0, 0.0, 1.0, 0.0, 3.0, 0.0, 0.0, -1.0, 4.0, 0.5, 0.5, 0.0, 1.0]).0);
    if version >= 18 {
        ch(&mut f, b"GFID", &Buf::default().u32s(&[1_000_001, 1_000_002]).0);
    }
    f
}

// ------------------------------------------------------------ group: writer ----

fn written_group(version: WmoVersion, liquid: bool) -> Vec<u8> {
    // WmoGroup has no Default either: the editor's create_group() is the crate's public constructor for an empty one.
    let mut ed = WmoEditor::new(empty_root());
    let gi = ed.create_group("seedgroup".to_string());
    let n = 12usize;
    {
        let g = ed.group_mut(gi).expect("group just created");
        g.header.flags = WmoGroupFlags::HAS_NORMALS | WmoGroupFlags::HAS_VERTEX_COLORS | WmoGroupFlags::HAS_DOODADS | if liquid { WmoGroupFlags::HAS_WATER } else { WmoGroupFlags::INDOOR };
        g.header.bounding_box = BoundingBox { min: v3(-4.0, -4.0, 0.0), max: v3(8.0, 8.0, 6.0) };
        g.header.name_offset = 2;
        g.header.group_index = 0;
        g.materials = vec![0, 1];
        g.vertices = (0..n).map(|i| v3((i % 4) as f32 * 2.0, (i / 4) as f32 * 2.0, (i % 3) as f32)).collect();
        // The crate's reader consumes 68 header bytes where its writer produced 36, i.e. it swallows the MOVT chunk
        // header and the first two vertices and takes the third vertex (x, y) for a sub-chunk header (magic, size).
        // A denormal y whose bit pattern equals the rest of the MOVT payload lets the reader step over it and arrive
        // at the MOVI header, so that the remaining sub-chunks of this *writer-produced* file are actually parsed.
        g.vertices[2].y = f32::from_bits((12 * n - 32) as u32);
        g.indices = (0..18u16).map(|i| i % n as u16).collect();
        g.normals = (0..n).map(|i| v3(0.0, (i % 2) as f32, 1.0 - (i % 2) as f32)).collect();
        g.tex_coords = (0..n)
            .map(|i| {
                let mut t = TexCoord::default();
                t.u = i as f32 / n as f32;
                t.v = 1.0 - t.u;
                t
            })
            .collect();
        g.vertex_colors = Some((0..n).map(|i| rgba(i as u8 * 20, 128, 255 - i as u8 * 20, 255)).collect());
        g.batches = (0..2u16)
            .map(|i| WmoBatch { flags: [0, 1, 2, 3, 4, 5, 6, 7, 8, 9], material_id: i, start_index: 9 * i as u32, count: 9, start_vertex: 6 * i, end_vertex: 6 * i + 5, use_large_material_id: false })
            .collect();
        g.bsp_nodes = Some(vec![
            WmoBspNode { plane: WmoPlane { normal: v3(1.0, 0.0, 0.0), distance: 2.0 }, children: [1, 2], first_face: 0, num_faces: 0 },
            WmoBspNode { plane: WmoPlane { normal: v3(0.0, 0.0, 1.0), distance: 0.0 }, children: [-1, -1], first_face: 0, num_faces: 3 },
            WmoBspNode { plane: WmoPlane { normal: v3(0.5, 0.5, 0.7), distance: 1.5 }, children: [-1, -1], first_face: 3, num_faces: 3 },
        ]);
        if liquid {
            g.liquid = Some(WmoLiquid {
                liquid_type: 13,
                flags: 1,
                width: 3,
                height: 3,
                vertices: (0..9).map(|i| WmoLiquidVertex { position: v3((i % 3) as f32, (i / 3) as f32, 1.0), height: 0.25 * i as f32 }).collect(),
                tile_flags: Some(vec![0x40, 0x0F, 0x04, 0x40]),
            });
        }
        g.doodad_refs = Some(vec![0, 1, 3]);
    }
    let mut cur = Cursor::new(Vec::new());
    WmoWriter::new().write_group(&mut cur, ed.group(gi).expect("group"), version).expect("WmoWriter::write_group failed on a consistent object");
    cur.into_inner()
}

// -------------------------------------------------------- group: hand-made ----

fn mogp_header() -> Vec<u8> {
    let b = Buf::default()
        .u32s(&[2, 13, 0x0000_2A4D])
        .f32s(&[-4.0, -4.0, 0.0, 8.0, 8.0, 6.0])
        .u16s(&[0, 2, 0, 1, 1, 0])
        .u8s(&[0, 1, 255, 255])
        .u32s(&[15, 1701, 0])
        .i16s(&[-1, -1]);
    assert_eq!(b.0.len(), MOGP_HEADER_FORMAT);
    b.0
}

/// (name, payload) of every group sub-chunk the crate knows, record sizes exact.
fn group_subchunks(moba_record: usize) -> Vec<(&'static [u8; 4], Vec<u8>)> {
    let n = 8usize; // vertices
    let tris = 4usize;
    let mut v: Vec<(&'static [u8; 4], Vec<u8>)> = Vec::new();
    v.push((b"MOPY", (0..tris).flat_map(|i| [0x20 | i as u8, (i % 2) as u8]).collect()));
    v.push((b"MOVI", Buf::default().u16s(&[0, 1, 2, 2, 3, 0, 4, 5, 6, 6, 7, 4]).0));
    let mut movt = Buf::default();
    let mut monr = Buf::default();
    let mut motv = Buf::default();
    let mut mocv = Buf::default();
    for i in 0..n {
        movt = movt.f32s(&[(i % 4) as f32, (i / 4) as f32 * 3.0, 0.5 * i as f32]);
        monr = monr.f32s(&[0.0, 0.0, 1.0]);
        motv = motv.f32s(&[i as f32 / 8.0, 1.0 - i as f32 / 8.0]);
        mocv = mocv.u8s(&[i as u8 * 30, 100, 200, 255]);
    }
    v.push((b"MOVT", movt.0));
    v.push((b"MONR", monr.0));
    v.push((b"MOTV", motv.0));
    let mut moba = Buf::default();
    for i in 0..2u16 {
        let mut rec = Buf::default().i16s(&[-4, -4, 0, 8, 8, 6]).u32s(&[6 * i as u32]).u16s(&[6, 4 * i, 4 * i + 3]).u8s(&[0, i as u8]).0;
        rec.resize(moba_record, 0);
        moba = moba.u8s(&rec);
    }
    v.push((b"MOBA", moba.0));
    v.push((b"MOLR", Buf::default().u16s(&[0, 2]).0));
    v.push((b"MODR", Buf::default().u16s(&[0, 1, 2]).0));
    let mut mobn = Buf::default();
    for (flags, neg, pos, nf, start, dist) in [(0u16, 1i16, 2i16, 0u16, 0u32, 2.0f32), (4, -1, -1, 2, 0, 0.0), (4, -1, -1, 2, 2, 0.0)] {
        mobn = mobn.u16s(&[flags]).i16s(&[neg, pos]).u16s(&[nf]).u32s(&[start]).f32s(&[dist]);
    }
    v.push((b"MOBN", mobn.0));
    v.push((b"MOBR", Buf::default().u16s(&[0, 1, 2, 3]).0));
    v.push((b"MOCV", mocv.0));
    v.push((b"MORI", Buf::default().u16s(&[0, 1, 2, 3, 4, 5, 6, 7]).0));
    v.push((b"MORB", Buf::default().u16s(&[0, 4, 0, 3]).u8s(&[0, 0]).u16s(&[4, 4, 4, 7]).u8s(&[0, 1]).0));
    v.push((b"MOTA", Buf::default().i16s(&[32767, 0, 0, 32767, 0, 32767, 0, -32767]).0));
    v.push((b"MOBS", Buf::default().u16s(&[0]).i16s(&[6]).u16s(&[0, 3]).u8s(&[0, 0]).0));
    // MLIQ last: 3x3 vertices, 2x2 tiles (the crate's reader does not step over the rest of this chunk)
    let mut mliq = Buf::default().u32s(&[3, 3, 2, 2]).f32s(&[-4.0, -4.0, 1.0]).u16s(&[1]);
    for i in 0..9u32 {
        mliq = mliq.u8s(&[i as u8, 0, 0, 0]).f32s(&[1.0 + 0.1 * i as f32]);
    }
    mliq = mliq.u8s(&[0x04, 0x04, 0x0F, 0x44]);
    v.push((b"MLIQ", mliq.0));
    v
}

/// Group file as the game stores it: sub-chunks nested in MOGP after the 68-byte header.
fn hand_group_nested(version: u32) -> Vec<u8> {
    let mut body = mogp_header();
    for (m, p) in group_subchunks(24) {
        ch(&mut body, m, &p);
    }
    let mut f = Vec::new();
    ch(&mut f, b"MVER", &version.to_le_bytes());
    ch(&mut f, b"MOGP", &body);
    f
}

/// Variant the crate's group parser accepts as well: MOGP holds only the header, the geometry chunks follow at top level.
fn hand_group_flat(version: u32) -> Vec<u8> {
    let mut f = Vec::new();
    ch(&mut f, b"MVER", &version.to_le_bytes());
    ch(&mut f, b"MOGP", &mogp_header());
    for (m, p) in group_subchunks(16) {
        ch(&mut f, m, &p);
    }
    f
}

// ------------------------------------------------------------------ seeds ----

fn root_seed(label: &str, bytes: Vec<u8>) -> Seed {
    match wow_wmo::parse_wmo(&mut Cursor::new(&bytes)).unwrap_or_else(|e| panic!("seed {label}: parse_wmo failed: {e:?}")) {
        ParsedWmo::Root(r) => {
            let counts = [r.group_info.len(), r.portals.len(), r.portal_refs.len(), r.lights.len(), r.doodad_defs.len(), r.doodad_sets.len(), r.doodad_names.len(), r.textures.len(), r.group_names.len()];
            assert!(counts.iter().all(|c| *c > 0), "seed {label}: parse_wmo lost a list: {counts:?}");
            assert!(!r.materials.is_empty() || label.ends_with("-nomat"), "seed {label}: parse_wmo found no materials");
        }
        ParsedWmo::Group(_) => panic!("seed {label}: classified as a group file"),
    }
    let r = wow_wmo::WmoParser::new().parse_root(&mut Cursor::new(&bytes)).unwrap_or_else(|e| panic!("seed {label}: WmoParser::parse_root failed: {e:?}"));
    let counts = [r.groups.len(), r.portals.len(), r.portal_references.len(), r.lights.len(), r.doodad_defs.len(), r.doodad_sets.len(), r.textures.len()];
    assert!(counts.iter().all(|c| *c > 0), "seed {label}: WmoParser::parse_root lost a list: {counts:?}");
    Seed::new(label, bytes, Layout::Chunked { start: 0, nested: vec![], payload_scan: 128 })
}

fn group_seed(label: &str, bytes: Vec<u8>, header_len: usize, want_vertices: bool) -> Seed {
    match wow_wmo::parse_wmo(&mut Cursor::new(&bytes)).unwrap_or_else(|e| panic!("seed {label}: parse_wmo failed: {e:?}")) {
        ParsedWmo::Group(g) => {
            let counts = [g.vertex_indices.len(), g.vertex_normals.len(), g.texture_coords.len(), g.render_batches.len(), g.vertex_colors.len(), g.bsp_nodes.len()];
            assert!(counts.iter().all(|c| *c > 0), "seed {label}: parse_wmo lost a list: {counts:?}");
            assert!(!want_vertices || (g.n_vertices > 0 && !g.material_info.is_empty() && !g.bsp_face_indices.is_empty() && g.liquid_header.is_some()), "seed {label}: geometry missing");
        }
        ParsedWmo::Root(_) => panic!("seed {label}: classified as a root file"),
    }
    let nested = vec![(MOGP, header_len)];
    // layout sanity: with this header length the engine's own walker must arrive at the sub-chunks of MOGP
    let mut found = Vec::new();
    walk_chunks(&bytes, 0, bytes.len(), &nested, 0, &mut found);
    assert!(found.iter().any(|c| c.magic == *b"IVOM"), "seed {label}: walker does not reach MOVI (wrong MOGP header length?)");
    Seed::new(label, bytes, Layout::Chunked { start: 0, nested, payload_scan: 128 })
}

fn root_seeds(_ctx: &SeedCtx) -> Vec<Seed> {
    vec![
        root_seed("wmo-root/v17-mop-rich", written_root(WmoVersion::Mop, true)),
        root_seed("wmo-root/v17-classic-nomat", written_root(WmoVersion::Classic, false)),
        root_seed("wmo-root/v18-wod-rich", written_root(WmoVersion::Wod, true)),
        root_seed("wmo-root/v23-tww-rich", written_root(WmoVersion::WarWithin, true)),
        root_seed("wmo-root/v17-hand-all-chunks", hand_root(17)),
        root_seed("wmo-root/v18-hand-all-chunks", hand_root(18)),
    ]
}

fn group_seeds(_ctx: &SeedCtx) -> Vec<Seed> {
    vec![
        group_seed("wmo-group/v17-writer-basic", written_group(WmoVersion::Classic, false), MOGP_HEADER_WRITER, false),
        group_seed("wmo-group/v17-writer-liquid", written_group(WmoVersion::Wotlk, true), MOGP_HEADER_WRITER, false),
        group_seed("wmo-group/v18-writer-liquid", written_group(WmoVersion::Wod, true), MOGP_HEADER_WRITER, false),
        group_seed("wmo-group/v17-hand-all-chunks", hand_group_nested(17), MOGP_HEADER_FORMAT, true),
        group_seed("wmo-group/v17-hand-flat", hand_group_flat(17), MOGP_HEADER_FORMAT, true),
    ]
}

/// The same bytes go through every public way into the crate.
fn wmo_drive(_s: &Seed, data: &[u8], p: &mut Probe) {
    let parsed = p.call("parse_wmo", || wow_wmo::parse_wmo(&mut Cursor::new(data)));
    // a valid root is no valid group and vice versa, and the legacy group parser is a stub that always errs:
    // "the seed did what a valid file does" = the format-detecting entry point accepted it
    p.seed_valid = Some(parsed.is_some());
    if let Some(w) = parsed {
        p.call_plain("ParsedWmo accessors", || {
            let _ = w.file_type();
            let _ = w.version();
        });
    }
    if let Some(mut root) = p.call("WmoParser::parse_root", || wow_wmo::WmoParser::new().parse_root(&mut Cursor::new(data))) {
        // what a caller does with a parsed root: validate it, build render data, convert it, write it again
        p.call("WmoValidator::validate_root", || wow_wmo::WmoValidator::new().validate_root(&root));
        p.call_plain("WmoVisualizer", || {
            let v = wow_wmo::WmoVisualizer::new();
            let m = v.create_mesh(&root, &[]);
            std::hint::black_box((m.positions.len(), v.extract_doodads(&root).len()))
        });
        p.call("WmoWriter::write_root", || wow_wmo::WmoWriter::new().write_root(&mut Cursor::new(Vec::new()), &root, root.version));
        if p.call("WmoConverter::convert_root", || wow_wmo::WmoConverter::new().convert_root(&mut root, wow_wmo::WmoVersion::Cataclysm)).is_some() {
            p.call("WmoWriter::write_root", || wow_wmo::WmoWriter::new().write_root(&mut Cursor::new(Vec::new()), &root, wow_wmo::WmoVersion::Cataclysm));
        }
    }
    p.call("WmoGroupParser::parse_group", || wow_wmo::WmoGroupParser::new().parse_group(&mut Cursor::new(data), 0));
    p.call("discover_wmo_chunks", || wow_wmo::discover_wmo_chunks(&mut Cursor::new(data)));
    p.call("parse_wmo_with_metadata", || wow_wmo::api::parse_wmo_with_metadata(&mut Cursor::new(data)));
    // the two file parsers behind the format detection, each on whatever the bytes are (a root parser handed a group file and
    // the reverse are reachable only this way)
    if let Some(d) = p.call("chunk_discovery::discover_chunks", || wow_wmo::chunk_discovery::discover_chunks(&mut Cursor::new(data)).map_err(|e| e.to_string())) {
        let d2 = d.clone();
        p.call("root_parser::parse_root_file", || wow_wmo::root_parser::parse_root_file(&mut Cursor::new(data), d).map_err(|e| e.to_string()));
        p.call("group_parser::parse_group_file", || wow_wmo::group_parser::parse_group_file(&mut Cursor::new(data), d2).map_err(|e| e.to_string()));
    }
}

const WMO_ENTRIES: &[&str] = &["parse_wmo", "ParsedWmo accessors", "WmoParser::parse_root", "WmoGroupParser::parse_group", "discover_wmo_chunks", "WmoValidator::validate_root", "WmoVisualizer",
    "WmoWriter::write_root", "WmoConverter::convert_root", "parse_wmo_with_metadata", "chunk_discovery::discover_chunks", "root_parser::parse_root_file", "group_parser::parse_group_file"];

pub fn formats() -> Vec<FormatDef> {
    vec![
        FormatDef { name: "wmo-root",
            family: "wmo", entries: WMO_ENTRIES, seeds: root_seeds, drive: wmo_drive, cipher: None, havoc_scale: 1.0, max_field_offsets: (600, 2500) },
        FormatDef { name: "wmo-group",
            family: "wmo", entries: WMO_ENTRIES, seeds: group_seeds, drive: wmo_drive, cipher: None, havoc_scale: 1.0, max_field_offsets: (600, 2500) },
    ]
}
