//! C05 seeds + drivers: crate wow-m2 — M2 models (MD20 / chunked MD21), .skin files, .anim files.
//!
//! Seeds come from the library's own writers (`M2Model::write`, `SkinG::write`, `AnimFile::write`). Three writer
//! defects make the plain writer output less useful as a seed than it should be; each is repaired *after* writing and
//! the seed writer asserts that the repaired file parses back with the intended content:
//!   * `M2Model::write` patches the texture filename (count, offset) pairs at `size_of::<M2Header>()`-relative
//!     positions (the in-memory struct size, not the file header size), so the pairs land inside the vertex block and
//!     the texture definitions keep (0, 0): `fix_texture_names` writes the pairs where they belong and re-serialises
//!     the vertex block with `M2Vertex::write`.
//!   * `AnimFile::write` stores the byte size of the whole section in the entry table while `AnimSection::parse`
//!     derives the bone count from it ((size - 16) / 4): a section with keyframes never parses back. The entry sizes
//!     are rewritten to 16 + 4 * bones (what the parser expects for the writer's own layout).
//!   * `M2Model::parse_chunked` never looks into the MD21 payload (parse_md21_simple returns an empty model), so
//!     `validate()` of the chunked seed always answers "Model has no vertices"; that seed is kept for the chunk walker.

use crate::c05_common::*;
use std::io::Cursor;
use wow_m2::chunks::animation::{M2Animation, M2AnimationBlock, M2AnimationTrack};
use wow_m2::chunks::bone::{M2Bone, M2BoneFlags};
use wow_m2::chunks::material::{M2BlendMode, M2Material};
use wow_m2::chunks::*;
use wow_m2::common::{C2Vector, C3Vector, FixedString, M2Array, M2ArrayString, M2Parse, Quaternion};
use wow_m2::header::{M2Header, M2ModelFlags};
use wow_m2::model::*;
use wow_m2::version::M2Version;

// ------------------------------------------------------------- helpers ----

fn le16s(v: &[u16]) -> Vec<u8> {
    v.iter().flat_map(|x| x.to_le_bytes()).collect()
}
fn le32s(v: &[u32]) -> Vec<u8> {
    v.iter().flat_map(|x| x.to_le_bytes()).collect()
}
fn f32s(v: &[f32]) -> Vec<u8> {
    v.iter().flat_map(|x| x.to_le_bytes()).collect()
}
fn put32(d: &mut [u8], off: usize, v: u32) {
    d[off..off + 4].copy_from_slice(&v.to_le_bytes());
}
fn v3(x: f32, y: f32, z: f32) -> C3Vector {
    let mut v = C3Vector::default();
    v.x = x;
    v.y = y;
    v.z = z;
    v
}

/// Library object without Default/constructor: let the library's own parser build it from zero bytes.
fn zeroed<T>(f: impl FnOnce(&mut Cursor<Vec<u8>>) -> wow_m2::Result<T>) -> T {
    f(&mut Cursor::new(vec![0u8; 2048])).expect("element parser rejected an all-zero record")
}

/// Serialised length of one element (exact table stride).
fn wlen(f: impl FnOnce(&mut Vec<u8>) -> wow_m2::Result<()>) -> usize {
    let mut v = Vec::new();
    f(&mut v).expect("element writer failed");
    v.len()
}

/// The writer relocates keyframe arrays by their *original* offsets: hand out unique fake ones.
struct Fake(u32);
impl Fake {
    fn next(&mut self) -> u32 {
        self.0 += 0x100;
        self.0
    }
}

/// Keyframe payload of one animation block (1 interpolation range, n timestamps, n values).
struct Keys {
    r_off: u32,
    t_off: u32,
    v_off: u32,
    ranges: Vec<u8>,
    times: Vec<u8>,
    values: Vec<u8>,
}

fn keys(fk: &mut Fake, n: u32, value_size: usize, salt: u32) -> Keys {
    let values = if value_size == 2 {
        le16s(&(0..n).map(|i| 0x7FFF - (i as u16) * 100).collect::<Vec<_>>())
    } else {
        f32s(&(0..n as usize * value_size / 4).map(|i| 0.25 + i as f32 * 0.5 + salt as f32).collect::<Vec<_>>())
    };
    Keys {
        r_off: fk.next(),
        t_off: fk.next(),
        v_off: fk.next(),
        ranges: le32s(&[0, n.saturating_sub(1)]),
        times: le32s(&(0..n).map(|i| i * 33 + salt).collect::<Vec<_>>()),
        values,
    }
}

fn block<T: M2Parse>(k: &Keys, n: u32) -> M2AnimationBlock<T> {
    let mut t = M2AnimationTrack::<T>::default();
    t.interpolation_type = M2InterpolationType::Linear;
    t.global_sequence = -1;
    t.interpolation_ranges = M2Array::new(1, k.r_off);
    t.timestamps = M2Array::new(n, k.t_off);
    t.values.array = M2Array::new(n, k.v_off);
    M2AnimationBlock::new(t)
}

/// `<Kind>AnimationRaw` records all have the same shape; Default + assignment.
macro_rules! raw {
    ($ty:ident, $idx:ident = $i:expr, $tt:expr, $k:expr) => {{
        let k: Keys = $k;
        let mut r = $ty::default();
        r.$idx = $i;
        r.track_type = $tt;
        r.interpolation_ranges = k.ranges;
        r.timestamps = k.times;
        r.values = k.values;
        r.original_ranges_offset = k.r_off;
        r.original_timestamps_offset = k.t_off;
        r.original_values_offset = k.v_off;
        r
    }};
}

/// block + raw record in one go: `anim!(list, RawType, idx_field = i, TrackType, fk, n, value_size, salt)` -> block
macro_rules! anim {
    ($list:expr, $ty:ident, $idx:ident = $i:expr, $tt:expr, $fk:expr, $n:expr, $vs:expr, $salt:expr) => {{
        let k = keys($fk, $n, $vs, $salt);
        let b = block(&k, $n);
        $list.push(raw!($ty, $idx = $i, $tt, k));
        b
    }};
}

// ------------------------------------------------------------------ M2 ----

fn texture(name: Option<&str>, ty: M2TextureType, fk: &mut Fake) -> M2Texture {
    let mut s = M2ArrayString::default();
    if let Some(n) = name {
        let mut fs = FixedString::default();
        fs.data = n.as_bytes().to_vec();
        s.string = fs;
        // count includes the terminator the writer appends; the offset only has to be non-zero
        s.array = M2Array::new(n.len() as u32 + 1, fk.next());
    }
    M2Texture::new(ty, s)
}

fn vertex(i: usize, bones: u8) -> M2Vertex {
    let mut v = zeroed(|c| M2Vertex::parse(c, 264));
    v.position = v3(i as f32, (i * i) as f32 * 0.5, -(i as f32));
    v.bone_weights = [200, 55, 0, 0];
    v.bone_indices = [(i as u8) % bones.max(1), 0, 0, 0];
    v.normal = v3(0.0, 1.0, 0.0);
    let mut t = C2Vector::default();
    t.x = i as f32 / 8.0;
    t.y = 1.0 - i as f32 / 8.0;
    v.tex_coords = t;
    v.tex_coords2 = Some(t);
    v
}

fn embedded_skin(version: u32, k: u16) -> EmbeddedSkinRaw {
    let submesh_size = if version < 260 { 32 } else { 48 };
    let mut s = EmbeddedSkinRaw::default();
    s.indices = le16s(&[0, 1, 2, 3, 4, 5]);
    s.triangles = le16s(&[0, 1, 2, 3 + k % 2, 4, 5]);
    s.properties = vec![0, 1, 2, 0].repeat(6);
    s.submeshes = (0..2 * submesh_size).map(|i| (i as u8).wrapping_mul(3)).collect();
    // the writer divides by 96, the reader multiplies by 24
    s.batches = (0..192u32).map(|i| (i % 7) as u8).collect();
    s.model_view = vec![0u8; 44];
    s.model_view[40] = 64;
    s
}

fn rich_model(version: M2Version) -> M2Model {
    let v = version.to_header_version();
    let pre_wotlk = v < 264;
    let mut fk = Fake(0x0100_0000);
    let mut m = M2Model::default();
    m.header = M2Header::new(version);
    m.header.flags = M2ModelFlags::TILT_X | M2ModelFlags::HAS_BONES;
    m.header.bounding_box_min = [-1.0, -2.0, -3.0];
    m.header.bounding_box_max = [1.0, 2.0, 3.0];
    m.header.bounding_sphere_radius = 3.75;
    m.header.collision_box_min = [-0.5, -0.5, -0.5];
    m.header.collision_box_max = [0.5, 0.5, 0.5];
    m.header.collision_sphere_radius = 0.9;
    if let Some(n) = m.header.num_skin_profiles.as_mut() {
        *n = 2;
    }
    m.name = Some("World\\Creature\\Seed\\SeedModel".to_string());
    m.global_sequences = vec![0, 1000, 3333];

    for i in 0..3u16 {
        let mut a: M2Animation = zeroed(|c| M2Animation::parse(c, v));
        a.animation_id = i * 4;
        a.sub_animation_id = i % 2;
        a.start_timestamp = 1000 * (i as u32 + 1);
        a.end_timestamp = a.end_timestamp.map(|_| 1000 * (i as u32 + 2));
        a.movement_speed = 2.5;
        a.flags = 0x20;
        a.frequency = 32767;
        a.next_animation = a.next_animation.map(|_| -1);
        a.extent_radius = a.extent_radius.map(|_| 1.5);
        m.animations.push(a);
    }
    m.animation_lookup = vec![0, 0xFFFF, 0xFFFF, 0xFFFF, 1, 0xFFFF, 0xFFFF, 0xFFFF, 2];

    // bones: 0 = root with all three tracks, 1 = rotation only, 2 = static
    for i in 0..3i32 {
        let mut b = M2Bone::new(i, (i - 1) as i16);
        b.flags = M2BoneFlags::TRANSFORMED;
        b.bone_name_crc = if v >= 260 { Some(0xC0FF_EE00 + i as u32) } else { None };
        b.pivot = v3(0.0, i as f32, 0.5);
        let tracks: &[TrackType] = match i {
            0 => &[TrackType::Translation, TrackType::Rotation, TrackType::Scale],
            1 => &[TrackType::Rotation],
            _ => &[],
        };
        for tt in tracks {
            let n = 4u32;
            let vs = if *tt == TrackType::Rotation { 8 } else { 12 };
            let k = keys(&mut fk, n, vs, i as u32);
            let mut r = BoneAnimationRaw::default();
            r.bone_index = i as usize;
            r.track_type = *tt;
            r.original_timestamps_offset = k.t_off;
            r.original_values_offset = k.v_off;
            let ranges = if pre_wotlk {
                r.ranges = Some(k.ranges.clone());
                r.original_ranges_offset = Some(k.r_off);
                Some(M2Array::new(1, k.r_off))
            } else {
                None
            };
            match tt {
                TrackType::Rotation => {
                    b.rotation.base.interpolation_type = M2InterpolationType::Linear;
                    b.rotation.ranges = ranges;
                    b.rotation.timestamps = M2Array::new(n, k.t_off);
                    b.rotation.values = M2Array::new(n, k.v_off);
                }
                TrackType::Translation => {
                    b.translation.base.interpolation_type = M2InterpolationType::Linear;
                    b.translation.ranges = ranges;
                    b.translation.timestamps = M2Array::new(n, k.t_off);
                    b.translation.values = M2Array::new(n, k.v_off);
                }
                TrackType::Scale => {
                    b.scale.base.interpolation_type = M2InterpolationType::Hermite;
                    b.scale.base.global_sequence = 1;
                    b.scale.ranges = ranges;
                    b.scale.timestamps = M2Array::new(n, k.t_off);
                    b.scale.values = M2Array::new(n, k.v_off);
                }
            }
            r.timestamps = k.times;
            r.values = k.values;
            m.raw_data.bone_animation_data.push(r);
        }
        m.bones.push(b);
    }
    m.key_bone_lookup = vec![0, 1, 0xFFFF, 2];
    m.vertices = (0..6).map(|i| vertex(i, 3)).collect();

    m.textures = vec![
        texture(Some("Creature\\Seed\\SeedSkin01.blp"), M2TextureType::Hardcoded, &mut fk),
        texture(None, M2TextureType::Body, &mut fk),
        texture(Some("World\\Generic\\Glow.blp"), M2TextureType::Hardcoded, &mut fk),
    ];
    m.materials = vec![M2Material::new(M2BlendMode::OPAQUE), M2Material::new(M2BlendMode::ALPHA_KEY)];

    let rd = &mut m.raw_data;
    rd.bone_lookup_table = vec![0, 1, 2, 0];
    rd.texture_lookup_table = vec![0, 1, 2];
    rd.texture_units = vec![0, 0xFFFF];
    rd.transparency_lookup_table = vec![0, 1];
    rd.texture_animation_lookup = vec![0, 0xFFFF, 1];
    rd.bounding_triangles = le16s(&[0, 1, 2, 2, 1, 3]);
    rd.bounding_vertices = f32s(&[0.0, 0.0, 0.0, 1.0, 0.0, 0.0, 0.0, 1.0, 0.0, 1.0, 1.0, 0.0]);
    rd.bounding_normals = f32s(&[0.0, 0.0, 1.0, 0.0, 0.0, 1.0]);
    rd.attachment_lookup_table = vec![0, 1, 0xFFFF, 2];
    rd.camera_lookup_table = vec![0, 0xFFFF, 1];
    if pre_wotlk {
        rd.embedded_skins = vec![embedded_skin(v, 0), embedded_skin(v, 1)];
    }

    // particle emitters (no constructor in the crate: parsed from zero bytes, then filled in)
    for i in 0..2usize {
        let mut e: M2ParticleEmitter = zeroed(|c| M2ParticleEmitter::parse(c, v));
        e.id = i as u32;
        e.bone_index = i as u16;
        e.position = v3(0.1, 0.2, 0.3);
        e.blending_type = 2;
        e.emitter_type = M2ParticleEmitterType::Sphere;
        e.lifetime = 1.5;
        e.emission_rate = 10.0;
        e.gravity = 9.8;
        if i == 0 {
            let l = &mut rd.particle_animation_data;
            e.emission_speed_animation = anim!(l, ParticleAnimationRaw, emitter_index = i, ParticleTrackType::EmissionSpeed, &mut fk, 3, 4, 1);
            e.xy_scale_animation = anim!(l, ParticleAnimationRaw, emitter_index = i, ParticleTrackType::XYScale, &mut fk, 2, 8, 2);
            e.color_animation = anim!(l, ParticleAnimationRaw, emitter_index = i, ParticleTrackType::Color, &mut fk, 3, 12, 3);
            e.z_source_animation = anim!(l, ParticleAnimationRaw, emitter_index = i, ParticleTrackType::ZSource, &mut fk, 2, 4, 4);
        }
        m.particle_emitters.push(e);
    }
    for i in 0..2usize {
        let mut e: M2RibbonEmitter = zeroed(|c| M2RibbonEmitter::parse(c, v));
        e.bone_index = i as u32;
        e.position = v3(0.0, 0.0, 1.0);
        e.edges_per_second = 15.0;
        e.edge_lifetime = 0.5;
        e.texture_rows = 1;
        e.texture_cols = 1;
        e.id = 7 + i as u32;
        if i == 0 {
            let l = &mut rd.ribbon_animation_data;
            e.color_animation = anim!(l, RibbonAnimationRaw, emitter_index = i, RibbonTrackType::Color, &mut fk, 2, 12, 5);
            e.alpha_animation = anim!(l, RibbonAnimationRaw, emitter_index = i, RibbonTrackType::Alpha, &mut fk, 3, 4, 6);
            e.height_above_animation = anim!(l, RibbonAnimationRaw, emitter_index = i, RibbonTrackType::HeightAbove, &mut fk, 2, 4, 7);
        }
        m.ribbon_emitters.push(e);
    }

    {
        let l = &mut rd.texture_animation_data;
        let mut a = M2TextureAnimation::new(M2TextureAnimationType::Scroll);
        a.translation_u = anim!(l, TextureAnimationRaw, animation_index = 0, TextureTrackType::TranslationU, &mut fk, 3, 4, 8);
        a.translation_v = anim!(l, TextureAnimationRaw, animation_index = 0, TextureTrackType::TranslationV, &mut fk, 3, 4, 9);
        let mut b = M2TextureAnimation::new(M2TextureAnimationType::Rotate);
        b.rotation = anim!(l, TextureAnimationRaw, animation_index = 1, TextureTrackType::Rotation, &mut fk, 2, 4, 10);
        b.scale_v = anim!(l, TextureAnimationRaw, animation_index = 1, TextureTrackType::ScaleV, &mut fk, 2, 4, 11);
        m.texture_animations = vec![a, b];
    }
    {
        let l = &mut rd.color_animation_data;
        let color = anim!(l, ColorAnimationRaw, animation_index = 0, ColorTrackType::Color, &mut fk, 3, 12, 12);
        let alpha = anim!(l, ColorAnimationRaw, animation_index = 0, ColorTrackType::Alpha, &mut fk, 4, 2, 13);
        let static_alpha = anim!(l, ColorAnimationRaw, animation_index = 1, ColorTrackType::Alpha, &mut fk, 2, 2, 14);
        m.color_animations = vec![M2ColorAnimation { color, alpha }, M2ColorAnimation { color: M2AnimationBlock::default(), alpha: static_alpha }];
    }
    {
        let l = &mut rd.transparency_animation_data;
        let mut a = M2TransparencyAnimation::new();
        a.alpha = anim!(l, TransparencyAnimationRaw, animation_index = 0, TransparencyTrackType::Alpha, &mut fk, 3, 4, 15);
        m.transparency_animations = vec![a, M2TransparencyAnimation::new()];
    }
    for (i, id) in [*b"$CAH", *b"$HIT", *b"$FSD"].into_iter().enumerate() {
        let mut e = M2Event::new(id, i as i16 % 2);
        e.data = 1000 + i as u32;
        e.position = [0.0, 0.5, 1.0];
        if i < 2 {
            // only the timestamps array is relocated by the writer
            let off = fk.next();
            e.times = M2Array::new(3, off);
            let mut r = EventRaw::default();
            r.event_index = i;
            r.timestamps = le32s(&[10, 500 + i as u32, 900]);
            r.original_timestamps_offset = off;
            rd.event_data.push(r);
        }
        m.events.push(e);
    }
    for i in 0..3usize {
        let mut a = M2Attachment::new(i as u32 * 5, i as i32 % 3);
        a.position = v3(0.0, 0.1 * i as f32, 0.0);
        if i == 1 {
            a.scale_animation = anim!(&mut rd.attachment_animation_data, AttachmentAnimationRaw, attachment_index = i, AttachmentTrackType::Scale, &mut fk, 2, 4, 16);
        }
        m.attachments.push(a);
    }
    for i in 0..2usize {
        let mut c = M2Camera::new(i as u32);
        c.camera_type = i as u32;
        c.position_base = v3(5.0, 0.0, 2.0);
        c.target_position_base = v3(0.0, 0.0, 1.0);
        if i == 0 {
            let l = &mut rd.camera_animation_data;
            c.position_animation = anim!(l, CameraAnimationRaw, camera_index = i, CameraTrackType::Position, &mut fk, 2, 12, 17);
            c.target_position_animation = anim!(l, CameraAnimationRaw, camera_index = i, CameraTrackType::TargetPosition, &mut fk, 2, 12, 18);
            c.roll_animation = anim!(l, CameraAnimationRaw, camera_index = i, CameraTrackType::Roll, &mut fk, 3, 4, 19);
        }
        m.cameras.push(c);
    }
    for i in 0..2usize {
        let mut lt = M2Light::new(if i == 0 { M2LightType::Point } else { M2LightType::Directional }, i as u16, 40 + i as u32);
        lt.position = v3(0.0, 2.0, 0.0);
        if i == 0 {
            let l = &mut rd.light_animation_data;
            lt.ambient_color_animation = anim!(l, LightAnimationRaw, light_index = i, LightTrackType::AmbientColor, &mut fk, 2, 12, 20);
            lt.attenuation_start_animation = anim!(l, LightAnimationRaw, light_index = i, LightTrackType::AttenuationStart, &mut fk, 2, 4, 21);
            lt.visibility_animation = anim!(l, LightAnimationRaw, light_index = i, LightTrackType::Visibility, &mut fk, 3, 4, 22);
        }
        m.lights.push(lt);
    }
    m
}

fn minimal_model() -> M2Model {
    // the smallest model `validate()` accepts: header + one vertex
    let mut m = M2Model::default();
    m.header = M2Header::new(M2Version::WotLK);
    m.vertices = vec![vertex(0, 0)];
    m
}

/// Every (count, offset) pair of the fixed header that `M2Model::write` emits.
fn header_arrays(h: &M2Header) -> Vec<(u32, u32)> {
    let mut v = vec![
        (h.name.count, h.name.offset),
        (h.global_sequences.count, h.global_sequences.offset),
        (h.animations.count, h.animations.offset),
        (h.animation_lookup.count, h.animation_lookup.offset),
        (h.bones.count, h.bones.offset),
        (h.key_bone_lookup.count, h.key_bone_lookup.offset),
        (h.vertices.count, h.vertices.offset),
        (h.views.count, h.views.offset),
        (h.color_animations.count, h.color_animations.offset),
        (h.textures.count, h.textures.offset),
        (h.transparency_lookup.count, h.transparency_lookup.offset),
        (h.texture_animations.count, h.texture_animations.offset),
        (h.color_replacements.count, h.color_replacements.offset),
        (h.render_flags.count, h.render_flags.offset),
        (h.bone_lookup_table.count, h.bone_lookup_table.offset),
        (h.texture_lookup_table.count, h.texture_lookup_table.offset),
        (h.texture_units.count, h.texture_units.offset),
        (h.transparency_lookup_table.count, h.transparency_lookup_table.offset),
        (h.texture_animation_lookup.count, h.texture_animation_lookup.offset),
        (h.bounding_triangles.count, h.bounding_triangles.offset),
        (h.bounding_vertices.count, h.bounding_vertices.offset),
        (h.bounding_normals.count, h.bounding_normals.offset),
        (h.attachments.count, h.attachments.offset),
        (h.attachment_lookup_table.count, h.attachment_lookup_table.offset),
        (h.events.count, h.events.offset),
        (h.lights.count, h.lights.offset),
        (h.cameras.count, h.cameras.offset),
        (h.camera_lookup_table.count, h.camera_lookup_table.offset),
        (h.ribbon_emitters.count, h.ribbon_emitters.offset),
        (h.particle_emitters.count, h.particle_emitters.offset),
    ];
    if let Some(a) = &h.playable_animation_lookup {
        v.push((a.count, a.offset));
    }
    if let Some(a) = &h.texture_flipbooks {
        v.push((a.count, a.offset));
    }
    v
}

/// Repair of the writer's texture-filename defect (see module doc). No-op when the writer got it right.
fn fix_texture_names(bytes: &mut [u8], m: &M2Model) {
    let h = M2Header::parse(&mut Cursor::new(&bytes[..])).expect("header of a freshly written model");
    if h.textures.count as usize != m.textures.len() || m.textures.is_empty() {
        return;
    }
    let defs = h.textures.offset as usize;
    let mut cur = defs + 16 * m.textures.len();
    for (i, t) in m.textures.iter().enumerate() {
        let (cnt, off) = (t.filename.array.count, t.filename.array.offset);
        if cnt == 0 || off == 0 {
            continue;
        }
        put32(bytes, defs + 16 * i + 8, cnt);
        put32(bytes, defs + 16 * i + 12, cur as u32);
        assert_eq!(&bytes[cur..cur + cnt as usize - 1], &t.filename.string.data[..], "texture filename bytes are not where the writer's own layout puts them");
        cur += cnt as usize;
    }
    // the stray (count, offset) writes landed in the vertex block: serialise it again
    let mut vb = Vec::new();
    for v in &m.vertices {
        v.write(&mut vb, h.version).expect("vertex writer");
    }
    let vo = h.vertices.offset as usize;
    assert_eq!(h.vertices.count as usize, m.vertices.len());
    bytes[vo..vo + vb.len()].copy_from_slice(&vb);
}

fn m2_bytes(m: &M2Model) -> Vec<u8> {
    let mut cur = Cursor::new(Vec::new());
    m.write(&mut cur).expect("M2Model::write failed on a valid model");
    let mut bytes = cur.into_inner();
    fix_texture_names(&mut bytes, m);
    bytes
}

/// Parse the seed back, check that every populated list survived, derive the header / table regions.
fn m2_seed(label: &str, m: &M2Model) -> Seed {
    let bytes = m2_bytes(m);
    let parsed = wow_m2::parse_m2(&mut Cursor::new(&bytes[..])).unwrap_or_else(|e| panic!("{label}: seed does not parse back: {e:?}"));
    let p = parsed.model();
    let h = &p.header;
    let v = h.version;
    macro_rules! same {
        ($($f:ident),*) => { $( assert_eq!(p.$f.len(), m.$f.len(), "{}: list `{}` did not round-trip", label, stringify!($f)); )* };
    }
    same!(global_sequences, animations, animation_lookup, bones, key_bone_lookup, vertices, textures, materials, particle_emitters,
          ribbon_emitters, texture_animations, color_animations, transparency_animations, events, attachments, cameras, lights);
    assert_eq!(p.name, m.name, "{label}: name");
    assert_eq!(p.vertices.len(), m.vertices.len());
    for (a, b) in p.vertices.iter().zip(&m.vertices) {
        assert_eq!((a.position, a.tex_coords), (b.position, b.tex_coords), "{label}: vertex data");
    }
    for (a, b) in p.textures.iter().zip(&m.textures) {
        assert_eq!(a.filename.string.data, b.filename.string.data, "{label}: texture filename");
    }
    macro_rules! same_raw {
        ($($f:ident),*) => { $( assert_eq!(p.raw_data.$f.len(), m.raw_data.$f.len(), "{}: raw_data.{} did not round-trip", label, stringify!($f)); )* };
    }
    same_raw!(bone_animation_data, embedded_skins, particle_animation_data, ribbon_animation_data, texture_animation_data, color_animation_data,
              transparency_animation_data, event_data, attachment_animation_data, camera_animation_data, light_animation_data,
              bone_lookup_table, texture_lookup_table, texture_units, transparency_lookup_table, texture_animation_lookup,
              bounding_triangles, bounding_vertices, bounding_normals, attachment_lookup_table, camera_lookup_table);
    p.validate().unwrap_or_else(|e| panic!("{label}: validate() rejects the seed: {e:?}"));

    let header_len = header_arrays(h).iter().filter(|a| a.0 != 0 && a.1 != 0).map(|a| a.1 as usize).min().unwrap_or(bytes.len());
    let mut regions = vec![(0usize, header_len)];
    let mut table = |count: u32, off: u32, stride: Option<usize>| {
        if let (true, Some(s)) = (count > 0 && off > 0, stride) {
            regions.push((off as usize, (count as usize * s).min(512)));
        }
    };
    table(h.animations.count, h.animations.offset, p.animations.first().map(|e| wlen(|w| e.write(w, v))));
    table(h.bones.count, h.bones.offset, p.bones.first().map(|e| wlen(|w| e.write(w, v))));
    table(h.textures.count, h.textures.offset, p.textures.first().map(|e| wlen(|w| e.write(w))));
    table(h.views.count, h.views.offset, Some(44));
    table(h.particle_emitters.count, h.particle_emitters.offset, p.particle_emitters.first().map(|e| wlen(|w| e.write(w, v))));
    table(h.ribbon_emitters.count, h.ribbon_emitters.offset, p.ribbon_emitters.first().map(|e| wlen(|w| e.write(w, v))));
    table(h.texture_animations.count, h.texture_animations.offset, p.texture_animations.first().map(|e| wlen(|w| e.write(w))));
    table(h.color_animations.count, h.color_animations.offset, p.color_animations.first().map(|e| wlen(|w| e.write(w))));
    table(h.transparency_lookup.count, h.transparency_lookup.offset, p.transparency_animations.first().map(|e| wlen(|w| e.write(w))));
    table(h.events.count, h.events.offset, p.events.first().map(|e| wlen(|w| e.write(w, v))));
    table(h.attachments.count, h.attachments.offset, p.attachments.first().map(|e| wlen(|w| e.write(w, v))));
    table(h.cameras.count, h.cameras.offset, p.cameras.first().map(|e| wlen(|w| e.write(w, v))));
    table(h.lights.count, h.lights.offset, p.lights.first().map(|e| wlen(|w| e.write(w, v))));
    Seed::new(label, bytes, Layout::Fixed { regions })
}

fn chunk(out: &mut Vec<u8>, magic: &[u8; 4], payload: &[u8]) {
    out.extend_from_slice(magic);
    out.extend_from_slice(&(payload.len() as u32).to_le_bytes());
    out.extend_from_slice(payload);
}

/// Chunked (MD21) file: the MD20 image + every chunk `M2Model::parse_chunked` has a handler for + one unknown chunk.
fn md21_file(md20: &[u8]) -> Vec<u8> {
    let mut f = Vec::new();
    chunk(&mut f, b"MD21", md20);
    chunk(&mut f, b"SFID", &le32s(&[1_000_001, 1_000_002]));
    chunk(&mut f, b"AFID", &le32s(&[0x0000_0004, 2_000_001, 0x0001_0008, 2_000_002]));
    chunk(&mut f, b"TXID", &le32s(&[3_000_001, 0, 3_000_003]));
    chunk(&mut f, b"PFID", &le32s(&[4_000_001]));
    chunk(&mut f, b"SKID", &le32s(&[5_000_001]));
    chunk(&mut f, b"BFID", &le32s(&[6_000_001, 6_000_002]));
    // LDV1: 14 bytes per level: f32 distance, u16 skin index, u32 vertices, u32 triangles
    let mut ldv = Vec::new();
    for (d, s, vc, tc) in [(50.0f32, 0u16, 600u32, 300u32), (200.0, 1, 200, 90)] {
        ldv.extend(d.to_le_bytes());
        ldv.extend(s.to_le_bytes());
        ldv.extend(vc.to_le_bytes());
        ldv.extend(tc.to_le_bytes());
    }
    chunk(&mut f, b"LDV1", &ldv);
    // EXPT: tagged records: 0 = enhanced emitter (12 bytes), 1 = particle system (21 bytes), other = u32 size + skip
    let mut expt = vec![0u8, 2, 1];
    expt.extend(1.5f32.to_le_bytes());
    expt.extend([1, 0]);
    expt.extend(0.25f32.to_le_bytes());
    expt.push(1);
    expt.extend(le32s(&[7, 500]));
    expt.push(3);
    expt.extend(f32s(&[0.1, 0.2, 0.3]));
    expt.push(9);
    expt.extend(le32s(&[4, 0xDEAD_BEEF]));
    chunk(&mut f, b"EXPT", &expt);
    // EXP2: u32 emitters, u32 systems, emitters (12 + 1 bytes), systems (21 + 4 bytes)
    let mut exp2 = le32s(&[1, 1]);
    exp2.extend([2u8, 1]);
    exp2.extend(1.5f32.to_le_bytes());
    exp2.extend([1, 0]);
    exp2.extend(0.25f32.to_le_bytes());
    exp2.push(1);
    exp2.extend(le32s(&[7, 500]));
    exp2.push(3);
    exp2.extend(f32s(&[0.1, 0.2, 0.3, 0.4]));
    chunk(&mut f, b"EXP2", &exp2);
    chunk(&mut f, b"PABC", &le16s(&[1, 5, 10]));
    // PADC: u32 n, n * (u16, f32, u8), u32 k, k * (u8, u8, f32)
    let mut padc = le32s(&[2]);
    for i in 0..2u16 {
        padc.extend(i.to_le_bytes());
        padc.extend(0.5f32.to_le_bytes());
        padc.push(1);
    }
    padc.extend(le32s(&[1]));
    padc.extend([4u8, 5]);
    padc.extend(0.75f32.to_le_bytes());
    chunk(&mut f, b"PADC", &padc);
    chunk(&mut f, b"WFV1", &f32s(&[1.0, 0.5, 0.75]));
    chunk(&mut f, b"WFV2", &f32s(&[1.0, 0.5, 0.75, 0.3, 2.0]));
    chunk(&mut f, b"WFV3", &f32s(&[1.0, 0.5, 0.75, 0.3, 2.0, 0.0, 0.0, -1.0]));
    let mut edgf = le32s(&[2]);
    edgf.extend(f32s(&[10.0, 20.0]));
    edgf.extend(le32s(&[3]));
    edgf.extend(f32s(&[0.1, 0.5, 0.9]));
    chunk(&mut f, b"EDGF", &edgf);
    let mut nerf = f32s(&[0.5]);
    nerf.push(2);
    chunk(&mut f, b"NERF", &nerf);
    chunk(&mut f, b"DETL", &f32s(&[0.2, 0.7, 0.1]));
    chunk(&mut f, b"RPID", &le32s(&[7_000_001, 7_000_002]));
    chunk(&mut f, b"GPID", &le32s(&[8_000_001]));
    // TXAC: u32 n, n * (M2TextureAnimation (4 + 5 * 28) + 5 f32 + 4 u8); keyframes referenced chunk-relative
    let mut txac = le32s(&[1]);
    let rec_end = 4 + 144 + 24;
    let mut ta = M2TextureAnimation::new(M2TextureAnimationType::Scroll);
    let mut t = M2AnimationTrack::<f32>::default();
    t.interpolation_type = M2InterpolationType::Linear;
    t.timestamps = M2Array::new(2, rec_end as u32);
    t.values.array = M2Array::new(2, rec_end as u32 + 8);
    ta.translation_u = M2AnimationBlock::new(t);
    ta.write(&mut txac).expect("texture animation writer");
    txac.extend(f32s(&[0.0, 1.0, 0.0, 2.0, 0.1]));
    txac.extend([1u8, 2, 3, 0]);
    assert_eq!(txac.len(), rec_end);
    txac.extend(le32s(&[0, 1000]));
    txac.extend(f32s(&[0.0, 1.0]));
    chunk(&mut f, b"TXAC", &txac);
    chunk(&mut f, b"PGD1", &le16s(&[0, 3, 7]));
    chunk(&mut f, b"DBOC", &[1u8; 16]);
    chunk(&mut f, b"AFRA", &[2u8; 8]);
    // DPIV: 4 (count, offset) pairs relative to the payload, then the four arrays
    let (nv, nn, ni, nf) = (3u32, 1u32, 3u32, 1u32);
    let o_v = 32u32;
    let o_n = o_v + nv * 12;
    let o_i = o_n + nn * 12;
    let o_f = o_i + ni * 2;
    let mut dpiv = le32s(&[nv, o_v, nn, o_n, ni, o_i, nf, o_f]);
    dpiv.extend(f32s(&[0.0, 0.0, 0.0, 1.0, 0.0, 0.0, 0.0, 1.0, 0.0]));
    dpiv.extend(f32s(&[0.0, 0.0, 1.0]));
    dpiv.extend(le16s(&[0, 1, 2]));
    dpiv.extend(le16s(&[0x11]));
    chunk(&mut f, b"DPIV", &dpiv);
    chunk(&mut f, b"PSBC", &f32s(&[-1.0, -1.0, -1.0, 1.0, 1.0, 1.0, 1.7, -2.0, -2.0, -2.0, 2.0, 2.0, 2.0, 3.5]));
    // PEDC: (u32 id, u32 data size, u32 timestamp, data)*
    let mut pedc = le32s(&[11, 4, 250]);
    pedc.extend([9u8, 8, 7, 6]);
    pedc.extend(le32s(&[12, 0, 900]));
    chunk(&mut f, b"PEDC", &pedc);
    // PCOL: u32 vertices, u32 faces, u32 materials, then the arrays
    let mut pcol = le32s(&[3, 1, 1]);
    pcol.extend(f32s(&[0.0, 0.0, 0.0, 1.0, 0.0, 0.0, 0.0, 1.0, 0.0]));
    pcol.extend(le16s(&[0, 1, 2, 0]));
    pcol.extend(le32s(&[1]));
    pcol.extend(f32s(&[0.6, 0.1]));
    chunk(&mut f, b"PCOL", &pcol);
    // PFDC: 14 f32 + u32 flags + blob
    let mut pfdc = f32s(&[10.0, 0.0, 0.5, 0.0, 1.0, 0.0, 0.0, 0.0, 1.0, 0.0, 0.0, 0.0, 1.0]);
    pfdc.extend(le32s(&[3]));
    pfdc.extend([0xAAu8; 12]);
    chunk(&mut f, b"PFDC", &pfdc);
    chunk(&mut f, b"ZZZZ", &[0x55u8; 6]);
    f
}

fn m2_seeds(_ctx: &SeedCtx) -> Vec<Seed> {
    let mut out = Vec::new();
    for (label, ver) in [
        ("m2/vanilla-rich", M2Version::Vanilla),
        ("m2/tbc-rich", M2Version::TBC),
        ("m2/wotlk-rich", M2Version::WotLK),
        ("m2/cata-rich", M2Version::Cataclysm),
        ("m2/legion-rich", M2Version::Legion),
    ] {
        out.push(m2_seed(label, &rich_model(ver)));
    }
    out.push(m2_seed("m2/wotlk-minimal", &minimal_model()));

    let md20 = m2_bytes(&rich_model(M2Version::Legion));
    let bytes = md21_file(&md20);
    let parsed = wow_m2::parse_m2(&mut Cursor::new(&bytes[..])).expect("m2/md21-chunked: seed does not parse back");
    assert!(parsed.is_chunked());
    let p = parsed.model();
    assert_eq!(p.skin_file_ids.as_ref().map(|x| x.ids.len()), Some(2));
    assert_eq!(p.animation_file_ids.as_ref().map(|x| x.ids.len()), Some(4));
    assert_eq!(p.texture_file_ids.as_ref().map(|x| x.ids.len()), Some(3));
    assert_eq!(p.bone_file_ids.as_ref().map(|x| x.ids.len()), Some(2));
    assert_eq!(p.lod_data.as_ref().map(|x| x.levels.len()), Some(2));
    assert!(p.physics_file_id.is_some() && p.skeleton_file_id.is_some());
    assert_eq!(p.extended_particle_data.as_ref().map(|x| (x.version, x.enhanced_emitters.len(), x.particle_systems.len())), Some((2, 1, 1)));
    assert_eq!(p.parent_animation_blacklist.as_ref().map(|x| x.blacklisted_sequences.len()), Some(3));
    assert_eq!(p.parent_animation_data.as_ref().map(|x| (x.texture_weights.len(), x.blending_modes.len())), Some((2, 1)));
    assert_eq!(p.waterfall_effect.as_ref().map(|x| x.version), Some(3));
    assert_eq!(p.edge_fade_data.as_ref().map(|x| (x.fade_distances.len(), x.fade_factors.len())), Some((2, 3)));
    assert!(p.model_alpha_data.is_some() && p.lighting_details.is_some());
    assert_eq!(p.recursive_particle_ids.as_ref().map(|x| x.model_ids.len()), Some(2));
    assert_eq!(p.geometry_particle_ids.as_ref().map(|x| x.model_ids.len()), Some(1));
    assert_eq!(p.texture_animation_chunk.as_ref().map(|x| x.texture_animations.len()), Some(1));
    assert_eq!(p.texture_animation_chunk.as_ref().map(|x| x.texture_animations[0].base_animation.translation_u.track.values.data.len()), Some(2));
    assert_eq!(p.particle_geoset_data.as_ref().map(|x| x.geoset_assignments.len()), Some(3));
    assert_eq!(p.dboc_chunk.as_ref().map(|x| x.data.len()), Some(16));
    assert_eq!(p.afra_chunk.as_ref().map(|x| x.data.len()), Some(8));
    assert_eq!(p.dpiv_chunk.as_ref().map(|x| (x.vertex_positions.len(), x.face_normals.len(), x.indices.len(), x.flags.len())), Some((3, 1, 3, 1)));
    assert_eq!(p.parent_sequence_bounds.as_ref().map(|x| x.sequence_bounds.len()), Some(2));
    assert_eq!(p.parent_event_data.as_ref().map(|x| x.event_entries.len()), Some(2));
    assert_eq!(p.collision_mesh_data.as_ref().map(|x| (x.vertices.len(), x.faces.len(), x.materials.len())), Some((3, 1, 1)));
    assert_eq!(p.physics_file_data.as_ref().map(|x| x.physics_data.len()), Some(12));
    out.push(Seed::new("m2/md21-chunked", bytes, Layout::Chunked { start: 0, nested: vec![], payload_scan: 400 }));
    out
}

fn m2_drive(_s: &Seed, data: &[u8], p: &mut Probe) {
    use wow_m2::M2ModelAnimationExt;
    if let Some(fmt) = p.call("parse_m2", || wow_m2::parse_m2(&mut Cursor::new(data))) {
        p.call("M2Model::validate", || fmt.model().validate());
        // (the entry points below fail by design on some valid files - wrong kind of file, version without the feature)
        p.seed_valid = Some(p.all_ok);
        // the readers that take the parsed model together with the bytes it came from
        let m = fmt.model();
        p.call("M2Model::parse_all_embedded_skins", || m.parse_all_embedded_skins(data));
        p.call("M2Model::parse_embedded_skin", || m.parse_embedded_skin(data, 0));
        p.call("M2Model::parse_embedded_skin", || m.parse_embedded_skin(data, 3));
        p.call("M2Model::parse_all_data", || m.parse_all_data(data));
        p.call("M2Model::resolve_bone_animations", || m.resolve_bone_animations(data));
        p.call("M2Model::get_bind_pose", || m.get_bind_pose(data));
    }
    p.seed_valid = Some(p.seed_valid.unwrap_or(p.all_ok));
    // ... and the ones that take the raw bytes only
    p.call("extract_embedded_skin_bytes", || wow_m2::embedded_skin::extract_embedded_skin_bytes(data, 0));
    p.call("extract_embedded_skin_bytes", || wow_m2::embedded_skin::extract_embedded_skin_bytes(data, 1));
    p.call("M2Model::parse", || wow_m2::M2Model::parse(&mut Cursor::new(data)));
    // parse_embedded_skin needs nothing of the model but its version and the view table locator: a caller that read only the
    // header (or built the model object itself) reaches it without the full parse having accepted the file
    if data.len() >= 0x34 {
        let rd = |o: usize| u32::from_le_bytes([data[o], data[o + 1], data[o + 2], data[o + 3]]);
        let mut hm = M2Model::default();
        hm.header.version = rd(4);
        hm.header.views = M2Array::new(rd(0x2C), rd(0x30));
        if hm.header.version <= 263 {
            p.call("M2Model::parse_embedded_skin", || hm.parse_embedded_skin(data, 0));
            p.call("M2Model::parse_all_embedded_skins", || hm.parse_all_embedded_skins(data));
        }
    }
    // companion files of a model (.phys / .skel / .bone): chunk streams of their own, offered the same bytes
    p.call("PhysicsData::parse", || wow_m2::chunks::file_references::PhysicsData::parse(data));
    p.call("SkeletonData::parse", || wow_m2::chunks::file_references::SkeletonData::parse(data));
    p.call("BoneData::parse", || wow_m2::chunks::file_references::BoneData::parse(data));
}

// ---------------------------------------------------------------- skin ----

fn skin_parts() -> (Vec<u16>, Vec<u16>, Vec<u8>, Vec<wow_m2::skin::SkinSubmesh>, Vec<wow_m2::skin::SkinBatch>) {
    use wow_m2::skin::{SkinBatch, SkinSubmesh};
    let indices: Vec<u16> = (0..12).collect();
    let triangles: Vec<u16> = vec![0, 1, 2, 2, 1, 3, 4, 5, 6, 6, 5, 7, 8, 9, 10, 10, 9, 11];
    let bone_indices: Vec<u8> = (0..12 * 4).map(|i| (i % 3) as u8).collect();
    let mut submeshes = Vec::new();
    for i in 0..2u16 {
        let mut s: SkinSubmesh = zeroed(|c| SkinSubmesh::parse(c));
        s.id = i * 100;
        s.vertex_start = i * 6;
        s.vertex_count = 6;
        s.triangle_start = i * 9;
        s.triangle_count = 9;
        s.bone_count = 3;
        s.bone_influence = 2;
        s.center = [0.0, 1.0, 0.5];
        s.sort_center = [0.0, 1.0, 0.25];
        s.bounding_radius = 2.5;
        submeshes.push(s);
    }
    let mut batches = Vec::new();
    for i in 0..3u16 {
        let mut b: SkinBatch = zeroed(|c| SkinBatch::parse(c));
        b.flags = 0x10;
        b.shader_id = i;
        b.skin_section_index = i % 2;
        b.geoset_index = i % 2;
        b.color_index = 0xFFFF;
        b.material_index = i % 2;
        b.texture_count = 1;
        b.texture_combo_index = i;
        b.texture_weight_combo_index = 0;
        b.texture_transform_combo_index = 0xFFFF;
        batches.push(b);
    }
    (indices, triangles, bone_indices, submeshes, batches)
}

fn skin_seed<H: wow_m2::skin::SkinHeaderT + Clone>(label: &str, header: H, expect_new: bool) -> Seed {
    use wow_m2::skin::SkinG;
    let (indices, triangles, bone_indices, submeshes, batches) = skin_parts();
    let header_len = header.calculate_size();
    let skin = SkinG { header, indices, triangles, bone_indices, submeshes, batches };
    let mut cur = Cursor::new(Vec::new());
    skin.write(&mut cur).expect("SkinG::write failed on a valid skin");
    let bytes = cur.into_inner();
    let back = wow_m2::parse_skin(&mut Cursor::new(&bytes[..])).unwrap_or_else(|e| panic!("{label}: seed does not parse back: {e:?}"));
    assert_eq!(back.is_new_format(), expect_new, "{label}: format detection");
    assert_eq!(back.indices().len(), skin.indices.len(), "{label}: indices");
    assert_eq!(back.triangles().len(), skin.triangles.len(), "{label}: triangles");
    assert_eq!(back.bone_indices().len(), skin.bone_indices.len(), "{label}: bone indices");
    assert_eq!(back.submeshes().len(), skin.submeshes.len(), "{label}: submeshes");
    assert_eq!(back.batches().len(), skin.batches.len(), "{label}: batches");
    let (sub, bat) = match &back {
        wow_m2::SkinFile::New(s) => ((s.header.submeshes.count, s.header.submeshes.offset), (s.header.batches.count, s.header.batches.offset)),
        wow_m2::SkinFile::Old(s) => ((s.header.submeshes.count, s.header.submeshes.offset), (s.header.batches.count, s.header.batches.offset)),
    };
    let regions = vec![
        (0, header_len),
        (sub.1 as usize, (sub.0 as usize * 48).min(512)),
        (bat.1 as usize, (bat.0 as usize * 24).min(512)),
    ];
    Seed::new(label, bytes, Layout::Fixed { regions })
}

fn skin_seeds(_ctx: &SeedCtx) -> Vec<Seed> {
    use wow_m2::skin::{OldSkinHeader, SkinHeader};
    let new_hdr = |v: M2Version| {
        let mut h = SkinHeader::new(v);
        h.vertex_count = 12;
        h
    };
    let mut old = OldSkinHeader::new();
    old.bone_count_max = 64;
    vec![
        skin_seed("skin/new-wotlk", new_hdr(M2Version::WotLK), true),
        skin_seed("skin/new-cata", new_hdr(M2Version::Cataclysm), true),
        skin_seed("skin/new-mop", new_hdr(M2Version::MoP), true),
        skin_seed("skin/new-bfa", new_hdr(M2Version::BfA), true),
        skin_seed("skin/old", old, false),
    ]
}

fn skin_drive(_s: &Seed, data: &[u8], p: &mut Probe) {
    if let Some(s) = p.call("parse_skin", || wow_m2::parse_skin(&mut Cursor::new(data))) {
        p.call_plain("SkinFile accessors", || {
            let n = s.indices().len() + s.triangles().len() + s.submeshes().len() + s.batches().len() + s.get_resolved_indices().len();
            std::hint::black_box(n)
        });
    }
    p.seed_valid = Some(p.seed_valid.unwrap_or(p.all_ok));
    // the header-less pre-WotLK layout (as embedded in a model), both submesh record sizes
    p.call("skin::parse_embedded_skin", || wow_m2::skin::parse_embedded_skin(&mut Cursor::new(data), 256));
    p.call("skin::parse_embedded_skin", || wow_m2::skin::parse_embedded_skin(&mut Cursor::new(data), 260));
    p.call("SkinFile::parse", || wow_m2::SkinFile::parse(&mut Cursor::new(data)));
}

// ---------------------------------------------------------------- anim ----

/// `populated`: bones carry keyframes (and the entry sizes are repaired, see module doc); otherwise plain writer output.
fn anim_modern(label: &str, n_sections: usize, populated: bool) -> Seed {
    use wow_m2::anim::*;
    const BONES: usize = 3;
    let mut sections = Vec::new();
    let mut entries = Vec::new();
    for s in 0..n_sections {
        let header = AnimSectionHeader { magic: *b"AFID", id: 100 + s as u32, start: 0, end: 1000 * (s as u32 + 1) };
        let mut bone_animations = Vec::new();
        for b in 0..BONES {
            let n = 2 + b + s;
            let timestamps: Vec<u32> = (0..n as u32).map(|i| i * 40).collect();
            let vecs: Vec<C3Vector> = (0..n).map(|i| v3(i as f32, 0.5, -1.0)).collect();
            let quats: Vec<Quaternion> = (0..n).map(|i| Quaternion { x: 0.0, y: 0.0, z: (i as f32 * 0.1).sin(), w: (i as f32 * 0.1).cos() }).collect();
            let (translation, rotation, scaling) = match (populated, b) {
                (false, _) | (true, 2) => (None, None, None),
                (true, 0) => (
                    Some(AnimTranslation { timestamps: timestamps.clone(), translations: vecs.clone() }),
                    Some(AnimRotation { timestamps: timestamps.clone(), rotations: quats }),
                    Some(AnimScaling { timestamps, scalings: vecs }),
                ),
                (true, _) => (None, Some(AnimRotation { timestamps, rotations: quats }), None),
            };
            bone_animations.push(AnimBoneAnimation { bone_id: b as u32, translation, rotation, scaling });
        }
        sections.push(AnimSection { header, bone_animations });
        entries.push(AnimEntry { id: 100 + s as u32, offset: 0, size: 0 });
    }
    let header = AnimHeader { magic: ANIM_MAGIC, version: 1, id_count: n_sections as u32, unknown: 0, anim_entry_offset: 20 };
    let file = AnimFile { format: AnimFormat::Modern, sections, metadata: AnimMetadata::Modern { header, entries } };
    let mut cur = Cursor::new(Vec::new());
    file.write(&mut cur).expect("AnimFile::write failed on a valid file");
    let mut bytes = cur.into_inner();
    if populated {
        for i in 0..n_sections {
            put32(&mut bytes, 20 + 12 * i + 8, (16 + 4 * BONES) as u32);
        }
    }
    let back = AnimFile::parse(&mut Cursor::new(&bytes[..])).unwrap_or_else(|e| panic!("{label}: seed does not parse back: {e:?}"));
    back.validate().unwrap_or_else(|e| panic!("{label}: validate() rejects the seed: {e:?}"));
    assert_eq!(back.sections.len(), n_sections, "{label}: sections");
    let want = file.memory_usage();
    let got = back.memory_usage();
    assert_eq!(
        (got.bone_animations, got.translation_keyframes, got.rotation_keyframes, got.scaling_keyframes),
        (want.bone_animations, want.translation_keyframes, want.rotation_keyframes, want.scaling_keyframes),
        "{label}: keyframes did not round-trip"
    );
    if populated {
        assert!(got.translation_keyframes > 0 && got.rotation_keyframes > 0 && got.scaling_keyframes > 0);
    }
    let mut regions = vec![(0usize, 20usize), (20, 12 * n_sections)];
    if let AnimMetadata::Modern { entries, .. } = &back.metadata {
        for e in entries {
            regions.push((e.offset as usize, 64));
        }
    }
    Seed::new(label, bytes, Layout::Fixed { regions })
}

fn anim_legacy() -> Seed {
    // no magic: 1 KiB of increasing u32 timestamps followed by 1 KiB of floats
    let mut bytes = le32s(&(0..256u32).map(|i| i * 33).collect::<Vec<_>>());
    bytes.extend(f32s(&(0..256).map(|i| (i as f32 * 0.05).sin()).collect::<Vec<_>>()));
    let back = wow_m2::AnimFile::parse(&mut Cursor::new(&bytes[..])).expect("anim/legacy-2k: seed does not parse back");
    back.validate().expect("anim/legacy-2k: validate() rejects the seed");
    assert!(back.is_legacy_format());
    Seed::new("anim/legacy-2k", bytes, Layout::Fixed { regions: vec![(0, 64)] })
}

fn anim_seeds(_ctx: &SeedCtx) -> Vec<Seed> {
    vec![
        anim_modern("anim/modern-1section", 1, true),
        anim_modern("anim/modern-3sections", 3, true),
        anim_modern("anim/modern-2sections-static", 2, false),
        anim_legacy(),
    ]
}

fn anim_drive(_s: &Seed, data: &[u8], p: &mut Probe) {
    if let Some(f) = p.call("AnimFile::parse", || wow_m2::AnimFile::parse(&mut Cursor::new(data))) {
        p.call("AnimFile::validate", || f.validate());
        p.call_plain("AnimFile::memory_usage", || std::hint::black_box(f.memory_usage().approximate_bytes));
    }
    p.seed_valid = Some(p.seed_valid.unwrap_or(p.all_ok));
    // a caller-chosen format (no detection), and the validating entry point
    p.call("AnimFile::parse_with_format", || wow_m2::AnimFile::parse_with_format(&mut Cursor::new(data), wow_m2::AnimFormat::Legacy));
    p.call("AnimFile::parse_with_format", || wow_m2::AnimFile::parse_with_format(&mut Cursor::new(data), wow_m2::AnimFormat::Modern));
    p.call("AnimFile::parse_validated", || wow_m2::AnimFile::parse_validated(&mut Cursor::new(data)));
}

pub fn formats() -> Vec<FormatDef> {
    vec![
        FormatDef {
            name: "m2",
            family: "m2",
            entries: &["parse_m2", "M2Model::validate", "M2Model::parse_all_embedded_skins", "M2Model::parse_embedded_skin", "M2Model::parse_all_data", "M2Model::resolve_bone_animations",
                       "M2Model::get_bind_pose", "extract_embedded_skin_bytes", "M2Model::parse", "PhysicsData::parse", "SkeletonData::parse", "BoneData::parse"],
            seeds: m2_seeds,
            drive: m2_drive,
            cipher: None,
            havoc_scale: 1.0,
            max_field_offsets: (600, 2500),
        },
        FormatDef {
            name: "skin",
            family: "skin",
            entries: &["parse_skin", "SkinFile accessors", "skin::parse_embedded_skin", "SkinFile::parse"],
            seeds: skin_seeds,
            drive: skin_drive,
            cipher: None,
            havoc_scale: 1.0,
            max_field_offsets: (300, 1000),
        },
        FormatDef {
            name: "anim",
            family: "anim",
            entries: &["AnimFile::parse", "AnimFile::validate", "AnimFile::memory_usage", "AnimFile::parse_with_format", "AnimFile::parse_validated"],
            seeds: anim_seeds,
            drive: anim_drive,
            cipher: None,
            havoc_scale: 1.0,
            max_field_offsets: (300, 1000),
        },
    ]
}
